#!/usr/bin/env python3
"""usage: keep_seed.py <worktree> <seed-id> <property> <needs> <caught_by> <history> [round]
Copies <worktree>/SEED to seeded/<seed-id>/ and writes meta.json."""
import json, os, shutil, subprocess, sys
wt, sid, prop, needs, caught, hist = sys.argv[1:7]
rnd = sys.argv[7] if len(sys.argv) > 7 else "3"
dst = os.path.join(os.path.dirname(os.path.dirname(os.path.abspath(__file__))), "seeded", sid)
if os.path.exists(dst):
    shutil.rmtree(dst)
shutil.copytree(os.path.join(wt, "SEED"), dst, ignore=shutil.ignore_patterns("target", "*.o", "out*.yaml"))
head = subprocess.run(["git", "-C", wt, "rev-parse", "--short", "HEAD"], capture_output=True, text=True).stdout.strip()
meta = {
 "breaks_property": prop,
 "needs_to_manifest": needs,
 "origin": "independent sub-agent (round %s) given only the property text and a scratch worktree of /repo at %s" % (rnd, head),
 "confirmed": {"how": "tools/verify_seed.sh: clean checkout + git apply patch.diff; cargo test --workspace: 90 passed, 0 failed; SEED/demo.sh non-zero with the change, 0 after git apply -R",
               "checks_run": "tools/try_seed.sh seeded/%s/patch.diff %s" % (sid, prop)},
 "caught_by": caught,
 "history": hist,
}
json.dump(meta, open(os.path.join(dst, "meta.json"), "w"), indent=1)
print("kept", dst)
