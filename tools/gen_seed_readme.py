#!/usr/bin/env python3
"""Regenerates seeded/README.md from the meta.json files."""
import json, os, glob
HERE = os.path.dirname(os.path.dirname(os.path.abspath(__file__)))
rows = []
for d in sorted(glob.glob(os.path.join(HERE, "seeded", "*", "meta.json"))):
    m = json.load(open(d))
    sid = os.path.basename(os.path.dirname(d))
    rows.append((sid, m.get("breaks_property", ""), m.get("needs_to_manifest", ""), m.get("caught_by", ""), m.get("history", ""), m.get("origin", "")))
def esc(s):
    return str(s).replace("|", "\\|").replace("\n", " ")
out = []
out.append("# Seeded breaking changes\n")
out.append("Each directory holds `patch.diff` (apply with `git -C /repo apply`), the author's demonstration and `meta.json`.")
out.append("All were written by sub-agents that saw only the property text and a scratch worktree, never /verif (rounds 1-4; from round 2 on with a")
out.append("short list of mechanisms already used, so that the changes differ). Each compiles, passes the 90 pinned tests, and its demonstration")
out.append("fails with the change and passes without it (re-verified by `tools/verify_seed.sh`). `tools/try_seed.sh <patch> <ID>...` applies a patch")
out.append("to /repo, runs the quick checks and reverts. %d changes, all reported as VIOLATION by the check of their property on the current machinery;" % len(rows))
out.append("the `history` column says which ones were missed at first and what was strengthened.\n")
out.append("| seed | property | needs | caught by | history |")
out.append("|---|---|---|---|---|")
for r in rows:
    out.append("| `%s` | %s | %s | %s | %s |" % (r[0], esc(r[1]), esc(r[2]), esc(r[3]), esc(r[4])))
out.append("")
out.append("## Behaviour-preserving refactorings (false-alarm control)\n")
p = os.path.join(HERE, "seeded", "BENIGN.md")
if os.path.exists(p):
    out.append(open(p).read())
open(os.path.join(HERE, "seeded", "README.md"), "w").write("\n".join(out) + "\n")
print(len(rows), "seeds")
