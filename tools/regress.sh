#!/bin/bash
# Full regression of the machinery: (1) every quick check on the unchanged tree must exit 0; (2) every seeded breaking
# change must be reported as VIOLATION by the check of its property; (3) every behaviour-preserving refactoring must
# leave the checks of its area at exit 0. Results: $OUT (default /tmp/regress).   usage: tools/regress.sh [pinned|seeds|benign ...]
cd /verif || exit 2
OUT=${OUT:-/tmp/regress}; mkdir -p $OUT
what="${@:-pinned seeds benign}"
git -C /repo checkout -q -- .
if [[ $what == *pinned* ]]; then
  : > $OUT/pinned.txt
  for id in C01 C02 C03 C04 C05 C06 C07 C08 C09 C10 C11 C12 C13 C14 C15 C16 C17 C18; do
    ./check $id --tier quick > $OUT/pinned-$id.log 2>&1; echo "$id exit=$? $(grep -E '^(VIOLATION|INCONCLUSIVE|OK)' $OUT/pinned-$id.log | head -1 | cut -c1-200)" >> $OUT/pinned.txt
  done
fi
if [[ $what == *seeds* ]]; then
  : > $OUT/seeds.txt
  for d in seeded/C*/; do
    s=$(basename $d); id=$(python3 -c "import json;print(json.load(open('$d/meta.json'))['breaks_property'])")
    git -C /repo checkout -q -- .
    if ! git -C /repo apply /verif/$d/patch.diff 2>/dev/null; then echo "$s $id PATCH-DOES-NOT-APPLY" >> $OUT/seeds.txt; continue; fi
    ./check $id --tier quick > $OUT/seed-$s.log 2>&1; rc=$?
    echo "$s $id exit=$rc $(grep -E '^(VIOLATION|INCONCLUSIVE|OK)' $OUT/seed-$s.log | head -1 | cut -c1-160)" >> $OUT/seeds.txt
    git -C /repo checkout -q -- .
  done
fi
if [[ $what == *benign* ]]; then
  : > $OUT/benign.txt
  declare -A CH
  CH[scope]="C08 C09 C01 C17 C18 C06 C05"; CH[emit]="C03 C14 C01 C06 C02"; CH[front]="C04 C11 C12 C16 C05"
  CH[load]="C10 C13 C14 C04 C06"; CH[lsp]="C15 C16 C17 C18"; CH[infer]="C07 C04 C01 C09 C17 C05"
  for p in seeded/benign/*.diff; do
    b=$(basename $p .diff); area=${b%-*}
    git -C /repo checkout -q -- .
    if ! git -C /repo apply /verif/$p 2>/dev/null; then echo "$b PATCH-DOES-NOT-APPLY" >> $OUT/benign.txt; continue; fi
    for id in ${CH[$area]}; do
      ./check $id --tier quick > $OUT/benign-$b-$id.log 2>&1; rc=$?
      echo "$b $id exit=$rc $(grep -E '^(VIOLATION|INCONCLUSIVE|OK)' $OUT/benign-$b-$id.log | head -1 | cut -c1-200)" >> $OUT/benign.txt
    done
    git -C /repo checkout -q -- .
  done
fi
echo DONE >> $OUT/done.txt
