#!/bin/sh
# usage: tools/try_seed.sh <patch.diff> <ID>...   apply a seeded change to /repo, run the quick checks, revert
P="$1"; shift
cd /verif || exit 2
git -C /repo apply "$P" || { echo "patch does not apply"; exit 2; }
for id in "$@"; do
  ./check "$id" --tier quick 2>/dev/null | grep -E "^(VIOLATION|KNOWN-FINDING|OK|INCONCLUSIVE)" | cut -c1-300 | sed "s/^/[$id] /"
  echo "[$id] exit=$?"
done
git -C /repo checkout -- .
git -C /repo status --short
