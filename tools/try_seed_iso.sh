#!/bin/bash
# Development: run checks against a scratch copy of /repo's HEAD with a patch applied, without touching /repo or
# /verif/evidence (several of these can run side by side; slot = $SLOT, default 0).
# usage: tools/try_seed_iso.sh <abs patch|-> <ID>...
patch=$1; shift
slot=${SLOT:-0}
R=/tmp/iso/repo-$slot; C=/tmp/iso/cache-$slot; O=/tmp/iso/out-$slot
rm -rf $R; mkdir -p $R $C $O
git -C /repo archive HEAD | tar -x -C $R; find $R -type f -exec touch {} +   # archive mtimes are the commit time: cargo would keep a stale build
if [ "$patch" != "-" ]; then (cd $R && git apply --unsafe-paths --directory=$R $patch 2>/dev/null || patch -p1 -s < $patch) || { echo PATCH-DOES-NOT-APPLY; exit 3; }; fi
for id in "$@"; do
  OAL_REPO=$R VERIF_CACHE=$C VERIF_OUT=$O /verif/check $id --tier ${TIER:-quick} > $O/$id.log 2>&1; rc=$?
  echo "[$id] exit=$rc $(grep -E '^(VIOLATION|INCONCLUSIVE|OK)' $O/$id.log | head -2 | tr '\n' ' ' | cut -c1-300)"
done
