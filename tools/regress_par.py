#!/usr/bin/env python3
"""Parallel regression of the machinery (development tool; the registered commands are not involved).

Same three parts as tools/regress.sh - every quick check on the unchanged tree exits 0, every seeded change is
reported by the check of its property, every behaviour-preserving refactoring leaves the checks of its area at
exit 0 - but on N scratch copies of /repo's HEAD side by side (OAL_REPO / VERIF_CACHE / VERIF_OUT per slot), so that
/repo and /verif/evidence are left alone.      usage: tools/regress_par.py [-j N] [pinned] [seeds] [benign] [only=<substring>]
Results: $OUT (default /tmp/regress-par)/{pinned,seeds,benign}.txt and one log per run.
"""
import glob
import json
import os
import queue
import subprocess
import sys
import threading

VERIF = os.path.dirname(os.path.dirname(os.path.abspath(__file__)))
OUT = os.environ.get("OUT", "/tmp/regress-par")
AREA = {"scope": "C08 C09 C01 C17 C18 C06 C05", "emit": "C03 C14 C01 C06 C02", "front": "C04 C11 C12 C16 C05",
        "load": "C10 C13 C14 C04 C06", "lsp": "C15 C16 C17 C18", "infer": "C07 C04 C01 C09 C17 C05"}
ALL = ["C%02d" % i for i in range(1, 19)]


def sh(cmd, **kw):
    return subprocess.run(cmd, shell=True, capture_output=True, text=True, **kw)


def prepare(slot):
    r = "/tmp/iso/repo-par-%d" % slot
    if not os.path.isdir(os.path.join(r, ".git")):
        sh("rm -rf %s && mkdir -p %s && git -C /repo archive HEAD | tar -x -C %s && find %s -type f -exec touch {} + && "
           "git -C %s init -q && git -C %s add -A && git -C %s -c user.email=x@x -c user.name=x commit -qm base" % (r, r, r, r, r, r, r))
    else:
        head = sh("git -C /repo rev-parse HEAD^{tree}").stdout.strip()
        mine = sh("git -C %s rev-parse HEAD^{tree}" % r).stdout.strip()
        if head != mine:
            sh("rm -rf %s" % r)
            return prepare(slot)
        sh("git -C %s checkout -q -- . && git -C %s clean -fdq" % (r, r))
    for d in ("/tmp/iso/cache-par-%d" % slot, "/tmp/iso/out-par-%d" % slot):
        os.makedirs(d, exist_ok=True)
    return r


def worker(slot, jobs, lock):
    r = prepare(slot)
    env = dict(os.environ, OAL_REPO=r, VERIF_CACHE="/tmp/iso/cache-par-%d" % slot, VERIF_OUT="/tmp/iso/out-par-%d" % slot)
    while True:
        try:
            part, name, patch, ids = jobs.get_nowait()
        except queue.Empty:
            return
        sh("git -C %s checkout -q -- . && git -C %s clean -fdq" % (r, r))
        if patch:
            a = sh("git -C %s apply %s" % (r, patch))
            if a.returncode != 0:
                with lock:
                    open(os.path.join(OUT, part + ".txt"), "a").write("%s PATCH-DOES-NOT-APPLY\n" % name)
                continue
        for cid in ids:
            log = os.path.join(OUT, "%s-%s-%s.log" % (part, name, cid))
            p = subprocess.run([os.path.join(VERIF, "check"), cid, "--tier", "quick"], env=env, capture_output=True, text=True)
            open(log, "w").write(p.stdout + p.stderr)
            first = [l for l in (p.stdout + p.stderr).split("\n") if l.startswith(("VIOLATION", "INCONCLUSIVE", "OK"))]
            line = "%s %s exit=%d %s" % (name, cid, p.returncode, (first[-1] if p.returncode == 1 and first else (first[0] if first else ""))[:170])
            with lock:
                open(os.path.join(OUT, part + ".txt"), "a").write(line + "\n")
        sh("git -C %s checkout -q -- . && git -C %s clean -fdq" % (r, r))


def main():
    args = sys.argv[1:]
    n = 4
    if "-j" in args:
        n = int(args[args.index("-j") + 1])
        del args[args.index("-j"):args.index("-j") + 2]
    only = [a[5:] for a in args if a.startswith("only=")]
    parts = [a for a in args if a in ("pinned", "seeds", "benign")] or ["pinned", "seeds", "benign"]
    os.makedirs(OUT, exist_ok=True)
    jobs = queue.Queue()
    for part in parts:
        open(os.path.join(OUT, part + ".txt"), "w").close()
    if "seeds" in parts:
        for d in sorted(glob.glob(os.path.join(VERIF, "seeded", "C*", "meta.json"))):
            sid = os.path.basename(os.path.dirname(d))
            if only and not any(o in sid for o in only):
                continue
            jobs.put(("seeds", sid, os.path.join(os.path.dirname(d), "patch.diff"), [json.load(open(d))["breaks_property"]]))
    if "benign" in parts:
        for p in sorted(glob.glob(os.path.join(VERIF, "seeded", "benign", "*.diff"))):
            b = os.path.basename(p)[:-5]
            if only and not any(o in b for o in only):
                continue
            for cid in AREA[b.rsplit("-", 1)[0]].split():
                jobs.put(("benign", b, p, [cid]))
    if "pinned" in parts:
        for cid in ALL:
            if only and not any(o in cid for o in only):
                continue
            jobs.put(("pinned", "pinned", None, [cid]))
    lock = threading.Lock()
    ts = [threading.Thread(target=worker, args=(k, jobs, lock)) for k in range(1, n + 1)]
    for t in ts:
        t.start()
    for t in ts:
        t.join()
    for part in parts:
        lines = open(os.path.join(OUT, part + ".txt")).read().strip().split("\n")
        want = 1 if part == "seeds" else 0
        bad = [l for l in lines if l and ("exit=%d" % want) not in l]
        print("%s: %d runs, %d not as expected" % (part, len([l for l in lines if l]), len(bad)))
        for l in bad:
            print("   ", l[:220])


if __name__ == "__main__":
    main()
