#!/usr/bin/env python3
"""Regenerates /verif/MANIFEST.json from the table below (kept in one place so that the
claimed / not-applicable lists never drift apart)."""
import json
import os

HERE = os.path.dirname(os.path.dirname(os.path.abspath(__file__)))

CLAIMED = {
 "C01": dict(engine="T+M", category="model_checking", design="DESIGN.md 3/C01",
   technique="kind-check-protects-cast tables extracted from MIR by symbolic execution; z3 decides per consumer site; every model replayed on the real oal-cli",
   text="Bounded. From the MIR of oal-compiler, symbolic execution extracts on every run: the TagWrap::is_* x Tag table, the cast_* x Expr-variant panic table, the eval_any / type_check / tag() dispatch, the 22 cast sites of eval_* (which child feeds which cast), the tag sets the Ok paths of check_* admit for that child, and the constant-tag equations of constrain(). For each site z3 decides whether one of 23 catalogued producers (tag and value variant read from tag()/eval_*) passes guard and equation while the cast panics on its value; a second query family puts the child behind the parameter of a function imported from another module (guards accept unresolved variables). Every model is rendered (directly and through a let-bound variable / a two-module program) and run through the real oal-cli: only a process that dies after acceptance counts; rejected renderings are counted as spurious. Three emitter lemmas: schema() never hands a Ref to value_schema, maybe_inline returns only inlinable kinds, Expr::VariadicOp is never built for the Range operator.",
   note="Trusted: MIR text, mirsym, z3; hand-written renderings of producers and sites (a wrong rendering loses coverage, never alarms; evidence lists sites without template/witness). Outside: programs deeper than the one-site skeleton, annotations, evaluation depth, resolver guarantees. Three genuine defects found this way are listed in known_findings.json by (mode, site); any other crash is a VIOLATION."),
 "C03": dict(engine="K+M", category="model_checking", design="DESIGN.md 3/C03",
   technique="Kani/CBMC on HttpStatus::try_from + MIR symbolic execution/z3 on the emitter's anchored mechanisms; validator over real oal-cli output as replay",
   text="Partial: one lemma family per anchored mechanism. Status domain: for every u64, HttpStatus::try_from is Ok(Code(v)) iff 100<=v<=599 (Kani); parse_http_status maps [1-5]XX to the matching range (Kani, regex compared with the source attribute); Builder::http_status_code maps Code(c) to StatusCode::Code(c) and the five ranges to exactly 1..5; the evaluator turns a number into a status only through try_from and its default-status constant is in range. $ref closure: reference_schema emits a Reference exactly on the paths where maybe_inline(name) is None, with target '#/components/schemas/'+untagged(name); one iteration of all_components registers key untagged(name) exactly when maybe_inline(name) is None (same predicate, same key). Path key vs. parameters: all_paths derives key and PathItem from the same relation; relation_path_item.parameters = uri_params(rel.uri) untouched by the method loop; per segment, pattern_with contributes '/'+'{name}' for a Variable and uri_params exactly one required Parameter::Path named after the same property, a Literal contributes its text and no parameter.",
   note="Trusted: Kani/CBMC, MIR text, mirsym, z3. Outside: that every Ref name the evaluator emits is registered in spec.refs, operationId uniqueness, YAML parse-back, Builder::schema internals. A failing lemma is reported only if an independent validator finds a dangling $ref / parameter mismatch / bad response key in what the real oal-cli emits for a 9-program corpus."),
 "C04": dict(engine="K+M", category="model_checking", design="DESIGN.md 3/C04",
   technique="Kani/CBMC on the lexer's conversion kernels + MIR symbolic execution/z3 on the glue between phases; nasty-text replay on oal-cli and oal_wasm::compile",
   text="Partial: the conversion kernels and the glue between phases, not lexer+parser+compiler as a whole. Kani: parse_number on every [0-9]{1,24} string, parse_quoted_string / parse_prefixed_string on every delimiter + <= K arbitrary scalar values (K=3 quick, 6 thorough), parse_http_status on [1-5]XX, CharSpan::from on every text <= K chars and every usize pair never panic and return the specified slice/value (token regexes are compared with the #[regex] attributes at run time). MIR+z3: oal_syntax::parse returns no tree only after pushing an error (from lemmas: tokenize always returns Some, compose_node always returns Node, parse_program returns Ok((_, compose_node(..)))); WebLoader::parse's unwrap is unreachable under that contract, ProcLoader/WorkspaceLoader never unwrap; Context::span past the end is end..end+1 without a token lookup; occurs() descends into every Tag child (guard against a diverging reduce); every panicking path in the front-end glue functions is either refuted or rests on a listed environment contract.",
   note="Trusted: Kani/CBMC, rustc MIR, mirsym, z3; stub Locator. Outside: the logos DFA, parser productions, resolver, evaluator, nesting depth, the LSP process, literals > 24 digits. Kernel counterexamples are replayed natively (Kani concrete playback) and through oal-cli / oal_wasm::compile; lemma failures are reported only if a nasty-text run of the real front ends crashes."),
 "C06": dict(engine="M", category="model_checking", design="DESIGN.md 3/C06",
   technique="seed non-interference: MIR symbolic execution with hash-iteration/clock primitives given a hidden seed argument, two-run z3 query per function, propagated up the call graph; repeated fresh-process oal-cli runs as replay",
   text="Partial: hash-seed / clock non-interference of the pipeline's own code. On the call graph reachable from module::load, compile::compile, eval::eval, oal_syntax::parse, Builder::{new,with_base,into_openapi} (about 400 MIR bodies in four crates, closures and fn items followed) every callee is a deterministic function of its arguments except seeded primitives (iteration over HashMap/HashSet, clocks, RandomState, thread identity), which get a hidden seed. A function that calls something seeded is executed symbolically and z3 is asked whether its result, its heap writes or its loop-carried state can differ between two seeds (order-insensitive consumers such as any/all/count/collect-into-Hash* erase the seed); dependence is propagated to callers until the entry points. Values unbounded; each body once.",
   note="Trusted: MIR text, mirsym, z3, name-based call resolution inside the dumps. Outside: non-determinism inside third-party crates, the file system/environment, repeated invocation in one process, the logos DFA bodies. A dependent entry point is reported only if repeated fresh-process runs of the real oal-cli at the same location produce different bytes."),
 "C07": dict(engine="M", category="model_checking", design="DESIGN.md 3/C07",
   technique="symbolic execution of MIR (one step from an arbitrary state) + z3; real-CLI verdict matrix as replay",
   text="Partial: step lemmas, not the end-to-end statement. occurs(): for every Tag variant and every Tag-typed child position read from the enum declaration, no feasible path returns false without recursing into that child (closures of iterator adaptors followed). unify(): union(x,y) is reached only with x a variable, after occurs(x,y) returned false, on (reduce(left),reduce(right)) up to orientation; literal Ok otherwise only when the reduced operands are equal; Func/Func requires equal binding counts and recurses on ranges and on every zipped binding pair; Property/Property recurses on the payloads; everything else is Err. UnionFind::union writes exactly parents[rep(left)] = rep(right); reduce/reduce_mut loop bodies move to the parent and stop exactly at a fixed point; find and the free reduce() substitute inside every child. Values unbounded; one loop iteration / one recursion level per lemma.",
   note="Trusted: MIR text, mirsym, z3/cvc5, structural equality summary for <Tag as PartialEq>::eq, child positions parsed from tag.rs. Outside: that the steps compose to 'accepts iff solvable', whole-run termination, order/name independence at program level. A failing lemma is reported only if the real oal-cli deviates on the 11-program verdict matrix (else exit 2)."),
 "C10": dict(engine="M", category="model_checking", design="DESIGN.md 3/C10",
   technique="MIR symbolic execution/z3 of one step of module::load's work-list, import and compile loops; recording in-memory Loader around the real function as replay",
   text="Partial: step lemmas over the generic oal_compiler::module::load, not all import graphs. The main module is loaded first; one import step loads/parses a module only on the path where the dependency map has no entry for its locator, and then registers it, adds its node, adds the edge import->importer, records it in the map and enqueues it, each once; a known module only gets the edge from its recorded node; an import that is not valid fails load() before anything is loaded; the compile loop walks the unmodified result of toposort(graph), compiles the module of each node and stops at the first error; load() returns Ok only after toposort returned Ok and every Loader call on the path returned Ok; a failed topological sort fails load() with Kind::CycleDetected and compiles nothing.",
   note="Trusted: MIR text, mirsym, z3; library contracts of HashMap::get/insert and petgraph::toposort (stated). Outside: composition of the steps over a whole run (the deps-map invariant), Locator::join normalisation, termination. A failing lemma is reported only if a recording in-memory Loader driven through the real load() shows a wrong call sequence on one of 9 import graphs (chain, diamond, reordered uses, relative spellings, cycles incl. self-import and through main, missing import)."),
 "C11": dict(engine="M", category="model_checking", design="DESIGN.md 3/C11",
   technique="MIR symbolic execution/z3 of the span plumbing (one tokenize iteration per token kind, TokenList, TokenRef, NodeRef::span/start/end, Span::new); real lexer+parser on a corpus as replay",
   text="Partial: the span plumbing between lexer, token list and tree, not the logos DFA and not the parser productions. One arbitrary iteration of tokenize's loop, for each of the 13 token-kind arms: the token is stored with the lexer's own byte range and its text is the slice of that same range; an error token is reported at the lexer's own range. TokenList::push stores (token, range) unchanged; token_span / TokenRef::span return the stored range of that very token; TokenList::end is the end of the last stored range; Span::new keeps start, end and locator; NodeRef::span runs from the start of the first leaf's span to the end of the last leaf's span and is Some only if both exist; NodeRef::start/end answer a leaf with its own token and search a tree's children from the front / from the back.",
   note="Trusted: MIR text, mirsym, z3; logos' SpannedIter yields ascending consecutive ranges (third-party). Outside: which ranges the DFA yields, which leaves the parser puts in the tree and in which order, spans of compiler errors. A failing lemma is reported only if the real lexer+parser (drivers/parsedrv) show non-tiling tokens, out-of-order / out-of-text / off-boundary leaves, or a node span that is not the hull of its leaves, on a 10-text corpus."),
 "C12": dict(engine="M", category="model_checking", design="DESIGN.md 3/C12",
   technique="MIR symbolic execution/z3 of the memo protocol (memoize, Context::lookup/cache/without_cache); real parser with vs. without memo as replay",
   text="Partial: the memo protocol, not the whole parser. memoize(tag, ctx, cursor, production): the production runs only on the path where lookup(tag, cursor) is None, at the same cursor; its result is stored under (tag, cursor) after it ran and is what memoize returns; on a hit the stored result is returned, nothing is stored and the production does not run. lookup consults the table only when caching is on and answers from its own table; cache stores only when caching is on; lookup and cache build the same key (cursor, tag); without_cache only flips the switch; Context::new starts with caching on; the two memoised productions use distinct tags. Values unbounded; all paths.",
   note="Trusted: MIR text, mirsym, z3. Outside: purity of the production functions up to the arena (reuse of node indices of discarded attempts), which productions are memoised, the linear-work clause (only sampled). A failing lemma is reported only if the real parser, driven with and without its memo table, builds different trees/errors on a 10-text corpus, or token reads stop growing linearly with nesting depth 8..64."),
 "C13": dict(engine="M", category="model_checking", design="DESIGN.md 3/C13",
   technique="symbolic execution of MIR (uninterpreted calls) + z3 over all paths; real-CLI replay",
   text="All non-cleanup paths of run/main (oal-cli), Processor::{load,eval}, ProcLoader/WebLoader::{parse,compile}, wasm process/compile are executed symbolically with every callee an uninterpreted function with symbolic Ok/Err outcome; z3 decides per path: SUCCESS <=> run Ok; Ok => exactly one write_file, it returned Ok, its buffer is to_string(into_openapi(..)) of this run and goes to the configured target, every inspected fallible step returned Ok; Err after write_file => write_file failed; loaders: Ok => oal_syntax::parse reported no error; compile/eval wrappers agree with the compiler's verdict; relational CLI-vs-playground query (same module set => both fail or same YAML term). Partial: diagnostics' text/location and the LSP clause are outside.",
   note="Trusted: rustc MIR as printed by -Zunpretty=mir, the mirsym translator (unknown construct => inconclusive), z3 (cvc5 re-check in thorough), library summaries listed in evidence. Callee internals are outside the claim. Counterexamples are confirmed on the real oal-cli (success + 5 failure classes + unwritable target) before a VIOLATION is printed."),
 "C14": dict(engine="M", category="model_checking", design="DESIGN.md 3/C14",
   technique="symbolic execution of MIR + z3 frame queries per field; real-CLI --base round trip as replay",
   text="Builder::new/with_base/into_openapi are executed symbolically for arbitrary spec and base; z3 proves per field that every top-level OpenAPI field except paths/components and every Components field except schemas equals the base's (or Components::default() when the base has none), that paths/schemas equal all_paths/all_components of the program and are equal for any two bases (two-run query), and that oal-cli's run hands with_base(new(spec), parsed base) to into_openapi exactly when a base is configured. No bound on values.",
   note="Trusted: MIR text, mirsym, z3/cvc5, summaries (Option::get_or_insert, Default::default), field orders read from MIR aggregates, read-set scan of Builder methods. Outside: what all_paths/all_components compute, YAML (de)serialisation of the base."),
 "C15": dict(engine="K+M", category="model_checking", design="DESIGN.md 3/C15",
   technique="MIR symbolic execution/z3 on the staleness protocol and the edit step + Kani/CBMC on edit offsets; real oal-lsp history-vs-fresh replay",
   text="Partial: one-step lemmas from an arbitrary pre-state, not histories. Staleness protocol: each of the four notification handlers sets is_stale on every Ok path, after applying Workspace::{open,close,change} to the message's own parameters; in one iteration of main_loop the request dispatcher is reached only after refresh(state) returned Ok, and refresh also runs on the idle branch; refresh does nothing when not stale, otherwise clears the flag first, re-evaluates each folder, then publishes one PublishDiagnostics per entry of workspace.diagnostics(); diagnostics() starts from an empty list for every known document and takes the accumulated errors. Edit step: one change event converts range.start and range.end on the same current text and calls replace_range(start..end, change.text) on the stored document, or replaces the whole text when there is no range; Kani: for every text <= K chars (3 quick, 5 thorough) and every ordered pair of protocol-defined positions the server's offsets equal the client's (byte-level reference), are ordered, in range and on char boundaries.",
   note="Trusted: MIR text, mirsym, z3, Kani/CBMC, stub Locator, reference conversion. Outside: equality with a fresh server over whole histories (only sampled by the replay oracle), read_file caching, liveness, malformed client ranges. A failing lemma is reported only if the real oal-lsp binary, driven over stdio, disagrees with a fresh server on one of 5 scripted histories."),
 "C16": dict(engine="K", category="model_checking", design="DESIGN.md 3/C16",
   technique="bounded model checking (Kani/CBMC) of the real functions vs. a byte-level reference",
   text="Bounded model checking (Kani/CBMC, SAT) of the real conversion functions against a byte-level reference: every text of <= K Unicode scalar values (K=4 quick, 6 thorough), every usize offset, every (u32,u32) position; unwinding assertions on, cover witnesses required. Nothing is claimed for longer texts.",
   note="Trusted: rustc MIR, Kani codegen, CBMC/CaDiCaL; stub Locator; the byte-level reference in kani/kern/src/refimpl.rs. Outside: texts > K chars, lone CR, non-boundary offsets."),
}

CLAIMED.update({
 "C17": dict(engine="M", category="model_checking", design="DESIGN.md 3/C17",
   technique="MIR symbolic execution/z3 of the definition/references handlers; annotated programs through the real oal-lsp as replay",
   text="Partial: the handlers' own logic, given the definition slots the compiler filled in. go_to_definition answers with the location of the node stored in the definition slot of the variable found at the cursor offset, and with the empty array on every other path; find_definition takes a declaration's identifier to that declaration and a variable's identifier to the variable's own slot; one iteration of find_references records the location of a variable's identifier exactly when its definition slot equals the requested definition (z3: both directions) and iterates over all modules of the folder; references() collects the references of exactly the definition found under the cursor.",
   note="Trusted: MIR text, mirsym, z3; structural equality for <Definition as PartialEq>::eq. Outside: that the slot holds the innermost binder (C08), syntax_at's search, range conversion (C16). A failing lemma is reported only if the real oal-lsp deviates from the binder/uses annotations of 3 programs (single module, two modules with a qualifier, shadowing + @reference): definition of every use, references of every declaration and their inverse, empty answers at non-identifiers."),
 "C18": dict(engine="M+T", category="model_checking", design="DESIGN.md 3/C18",
   technique="definition-node kinds extracted from the resolver's MIR vs. the casts the rename handler unwraps (finite z3 query) + panic inventory of the handlers; rename requests through the real oal-lsp with compile-equivalence as replay",
   text="Partial. From the MIR of declare_variable / declare_import / open_declaration / open_recursion the set of syntax-node kinds the resolver stores as definitions is read off ({Declaration, Binding}); for every `K::cast(definition.node(..)).unwrap()` in the LSP handlers z3 decides whether some definition kind is not covered by K (a panic of the server's main loop). Every other panicking path of the 11 handler functions and their closures must match a stated contract of the tree / folder (Folder::contains(loc) == Folder::module(loc).is_some() is itself a lemma). rename_variable's edit set is the binder's identifier plus every reference of that very definition, each with the new name.",
   note="Trusted: MIR text, mirsym, z3, the listed contracts. Outside: meaning preservation in general (sampled by the replay), renaming a qualifier from a use. A failing lemma is reported only if the real oal-lsp fails on the annotated programs: every prepareRename/rename is answered, edits replace exactly the announced name, do not overlap, number binder+uses, and the edited sources compile with the real oal-cli to the same document (component renamed for @references)."),
})

NA = {
 "C02": "needs the denotation of every program vs. the emitted document: whole evaluator+emitter (IndexMap/HashMap/Rc/serde_yaml) under a solver; two HashMap inserts do not finish under Kani in 5 min; a hand model would be a second implementation, not the real code",
 "C05": "relates two whole compilations of rewritten programs; same obstacle as C02",
 "C08": "resolver/evaluator scoping over arena trees and HashMap scope stacks; no encoding within reach",
 "C09": "petgraph SCC iteration and SHA-256 naming over arena indices; outside Kani and loop/graph-shaped so outside the MIR engine",
}

PENDING = {
}

HOOK_COMMITS = []


def main():
    checks = []
    for pid in sorted(CLAIMED):
        c = CLAIMED[pid]
        checks.append({
            "property_id": pid,
            "quick_cmd": "./check %s --tier quick" % pid,
            "thorough_cmd": "./check %s --tier thorough" % pid,
            "evidence_file": "evidence/%s.json" % pid,
            "replay_cmd_template": "./check %s --replay {path}" % pid,
            "engine": c["engine"],
            "level_claimed": {"category": c["category"], "text": c["text"], "design_ref": c["design"]},
            "level_note": c["note"],
            "technique": c["technique"],
        })
    na = [{"property_id": p, "reason": r} for p, r in sorted({**NA, **{k: v for k, v in PENDING.items() if k not in CLAIMED}}.items())]
    m = {
        "version": 1,
        "setup_cmd": "./setup.sh",
        "hooks": {
            "guard": "--cfg oal_verif",
            "enable": "no source hook is needed: harness crates compile /repo's files by #[path]/include! and MIR dumps see private items; the guard name is reserved and unused",
            "baseline_off_cmd": "cd /repo && cargo test --workspace --no-fail-fast --offline",
            "source_commits": HOOK_COMMITS,
            "add_only": True,
        },
        "engines": [
            {"name": "K", "path": "kani/kern", "serves_properties": sorted(p for p, c in CLAIMED.items() if "K" in c["engine"]),
             "kind_free_text": "Kani 0.68 / CBMC 6.11 bounded model checking of /repo's leaf kernels compiled by #[path]/include!"},
            {"name": "M", "path": "lib/mirsym.py", "serves_properties": sorted(p for p, c in CLAIMED.items() if "M" in c["engine"] or "T" in c["engine"]),
             "kind_free_text": "symbolic execution of rustc MIR (-Zunpretty=mir, dumped from /repo on every run) with uninterpreted calls; z3 decides, cvc5 cross-checks"},
        ],
        "checks": checks,
        "not_applicable": na,
        "notes": "Exit codes: 0 held, 1 violation (replayed on the real code first), 2 inconclusive (timeout/OOM/vacuous/unconfirmed/untranslatable). ./check <ID> --tier quick|thorough; VERIF_TIER is honoured too.",
    }
    with open(os.path.join(HERE, "MANIFEST.json"), "w") as f:
        json.dump(m, f, indent=1)
    print("MANIFEST.json: %d checks, %d not applicable" % (len(checks), len(na)))


if __name__ == "__main__":
    main()
