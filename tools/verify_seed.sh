#!/bin/sh
# usage: verify_seed.sh <worktree>   confirm a seeded change from its patch.diff alone:
# tests still pass with it, demo fails with it and passes without it. (No git stash: refs/stash is shared by worktrees.)
W="$1"; cd "$W" || exit 2
echo "== $W"
git checkout -q -- . 2>/dev/null
git apply SEED/patch.diff || { echo "patch.diff does not apply to a clean checkout"; exit 2; }
T=$(cargo test --workspace --no-fail-fast --offline 2>&1 | grep "^test result" | awk '{p+=$4; f+=$6} END {print p" passed "f" failed"}')
echo "tests with change: $T"
bash SEED/demo.sh > /tmp/vs_with.log 2>&1; A=$?
git checkout -q -- . 2>/dev/null
git apply -R SEED/patch.diff 2>/dev/null
git checkout -q -- .
bash SEED/demo.sh > /tmp/vs_without.log 2>&1; B=$?
git checkout -q -- . 2>/dev/null
git apply SEED/patch.diff
echo "demo with change: exit $A ; without: exit $B"
tail -3 /tmp/vs_with.log | cut -c1-200
