#!/bin/sh
# usage: verify_seed.sh <worktree>   confirm a seeded change: tests still pass, demo fails with it and passes without it
W="$1"; cd "$W" || exit 2
echo "== $W"
git diff -- . ':!SEED' > /tmp/vs.diff
if ! diff -q /tmp/vs.diff SEED/patch.diff >/dev/null 2>&1; then echo "NOTE: working-tree diff differs from SEED/patch.diff (may be whitespace)"; fi
T=$(cargo test --workspace --no-fail-fast --offline 2>&1 | grep "^test result" | awk '{p+=$4; f+=$6} END {print p" passed "f" failed"}')
echo "tests with change: $T"
sh SEED/demo.sh > /tmp/vs_with.log 2>&1; A=$?
git stash push -q -- . ':!SEED' 
sh SEED/demo.sh > /tmp/vs_without.log 2>&1; B=$?
git stash pop -q
echo "demo with change: exit $A ; without: exit $B"
tail -3 /tmp/vs_with.log | cut -c1-200
