#!/bin/bash
# usage: verify_kept_seed.sh <seed-id>...   re-confirm kept seeds from seeded/<id>/ alone, each in a fresh scratch worktree
for id in "$@"; do
  W=/tmp/vks-$id
  git -C /repo worktree add -q --detach $W HEAD || exit 2
  rsync -a --exclude meta.json /verif/seeded/$id/ $W/SEED/
  /verif/tools/verify_seed.sh $W 2>&1 | grep -E "^(tests with|demo with|patch)" | sed "s/^/$id: /"
  git -C /repo worktree remove --force $W
done
git -C /repo worktree prune
