#![allow(dead_code, unused_imports)]
#[path = "/repo/oal-client/src/lsp/unicode.rs"]
mod unicode;

// the reference conversions are the ones the Kani harnesses use (the symbolic text builder in that file needs kani::any)
mod kani {
    pub fn any<T>() -> T {
        unreachable!("symbolic values exist under Kani only")
    }
    pub fn assume(_: bool) {}
}
mod refimpl {
    use super::kani;
    include!(concat!(env!("OUT_DIR"), "/refimpl.rs"));
}

use lsp_types::Position;
use refimpl::*;
use unicode::*;

fn texts(n: usize) -> Vec<String> {
    let alpha = ["a", "\u{e9}", "\u{20ac}", "\u{1F609}", "\n", "\r\n"];
    let mut out = vec![String::new()];
    let mut layer = vec![String::new()];
    for _ in 0..n {
        let mut next = Vec::new();
        for t in &layer {
            for a in alpha.iter() {
                next.push(format!("{}{}", t, a));
            }
        }
        out.extend(next.iter().cloned());
        layer = next;
    }
    out
}

fn main() {
    let n: usize = std::env::args().nth(1).and_then(|s| s.parse().ok()).unwrap_or(4);
    let mut bad: Vec<String> = Vec::new();
    let mut cases = 0usize;
    for text in texts(n) {
        let r = std::panic::catch_unwind(|| {
            let mut bad: Vec<String> = Vec::new();
            let mut cases = 0usize;
            let b = text.as_bytes();
            let lines = b.iter().filter(|c| **c == b'\n').count() as u32;
            // H2 / H6
            let mut last: Option<usize> = None;
            for line in 0..lines + 3 {
                last = if line == 0 { None } else { last };
                for ch in 0..(b.len() as u32 + 3) {
                    cases += 1;
                    let got = position_to_utf8(&text, Position { line, character: ch });
                    let (want, exact) = ref_position_to_offset(b, line, ch);
                    if got > b.len() || !is_boundary(b, got) {
                        bad.push(format!("H2 {:?} ({},{}) -> {} is not a boundary of the text", text, line, ch, got));
                    } else if exact && got != want {
                        bad.push(format!("H2 {:?} ({},{}) -> {} expected {}", text, line, ch, got, want));
                    } else if !exact && (got < want || ref_offset_to_position(b, got).0 != line) {
                        bad.push(format!("H2 {:?} ({},{}) inside a surrogate pair -> {} leaves the line", text, line, ch, got));
                    }
                    if exact {
                        if let Some(p) = last {
                            if p > got {
                                bad.push(format!("H6 {:?} ({},{}) -> {} after {}", text, line, ch, got, p));
                            }
                        }
                        last = Some(got);
                    }
                }
            }
            // H3 / H1
            for i in 0..b.len() + 3 {
                if i < b.len() && !is_boundary(b, i) {
                    continue;
                }
                cases += 1;
                let p = utf8_to_position(&text, i);
                let (l, c) = ref_offset_to_position(b, i);
                if p.line != l || p.character != c {
                    bad.push(format!("H3 {:?} offset {} -> ({},{}) expected ({},{})", text, i, p.line, p.character, l, c));
                }
                if i <= b.len() && !mid_crlf(b, i) {
                    let j = position_to_utf8(&text, p);
                    if j != i {
                        bad.push(format!("H1 {:?} offset {} -> ({},{}) -> {}", text, i, p.line, p.character, j));
                    }
                }
            }
            // H4
            for s in 0..=b.len() {
                for e in s..=b.len() {
                    if !is_boundary(b, s) || !is_boundary(b, e) || mid_crlf(b, s) || mid_crlf(b, e) {
                        continue;
                    }
                    cases += 1;
                    let r = utf8_range_to_position(&text, s..e);
                    let (cs, xs) = ref_position_to_offset(b, r.start.line, r.start.character);
                    let (ce, xe) = ref_position_to_offset(b, r.end.line, r.end.character);
                    if !(xs && xe && cs == s && ce == e) {
                        bad.push(format!("H4 {:?} span {}..{} -> {}:{}-{}:{} selects {}..{}", text, s, e, r.start.line, r.start.character, r.end.line, r.end.character, cs, ce));
                    }
                }
            }
            (bad, cases)
        });
        match r {
            Ok((b2, c2)) => {
                bad.extend(b2);
                cases += c2;
            }
            Err(_) => bad.push(format!("PANIC on {:?}", text)),
        }
        if bad.len() > 40 {
            break;
        }
    }
    for l in bad.iter().take(12) {
        println!("BAD {}", l);
    }
    println!("cases {} bad {}", cases, bad.len());
    std::process::exit(if bad.is_empty() { 0 } else { 1 });
}
