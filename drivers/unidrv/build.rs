// Copies the reference conversions of the Kani harness crate next to the build (inner doc comments cannot be include!d).
use std::{env, fs, path::Path};
fn main() {
    let src = env::var("UNIDRV_REFIMPL").expect("UNIDRV_REFIMPL = path of kani/kern/src/refimpl.rs");
    println!("cargo:rerun-if-env-changed=UNIDRV_REFIMPL");
    println!("cargo:rerun-if-changed={}", src);
    let text = fs::read_to_string(&src).expect("refimpl.rs");
    let body: String = text.lines().filter(|l| !l.starts_with("//!")).map(|l| format!("{}\n", l)).collect();
    fs::write(Path::new(&env::var("OUT_DIR").unwrap()).join("refimpl.rs"), body).unwrap();
}
