//! stdin: blocks `=== <name>\n<text...>`; the first block is the main module.
//! stdout: one line per Loader call (`valid|load|parse|compile <name>`), then `OK <n modules>` or `ERR <message>`.
use oal_compiler::module::{Loader, ModuleSet};
use oal_compiler::tree::Tree;
use oal_model::locator::Locator;
use std::collections::HashMap;
use std::io::Read;

const ROOT: &str = "file:///mem/";

struct Mem {
    files: HashMap<String, String>,
}

fn name(loc: &Locator) -> String {
    loc.url().as_str().trim_start_matches(ROOT).to_owned()
}

impl Loader<anyhow::Error> for Mem {
    fn is_valid(&mut self, loc: &Locator) -> bool {
        let ok = self.files.contains_key(&name(loc));
        println!("valid {} {}", name(loc), ok);
        ok
    }
    fn load(&mut self, loc: &Locator) -> anyhow::Result<String> {
        println!("load {}", name(loc));
        self.files
            .get(&name(loc))
            .cloned()
            .ok_or_else(|| anyhow::anyhow!("no such file {}", name(loc)))
    }
    fn parse(&mut self, loc: Locator, input: String) -> anyhow::Result<Tree> {
        println!("parse {}", name(&loc));
        let (tree, errs) = oal_syntax::parse(loc, input);
        if let Some(e) = errs.into_iter().next() {
            return Err(anyhow::anyhow!("syntax: {e}"));
        }
        tree.ok_or_else(|| anyhow::anyhow!("syntax: no tree"))
    }
    fn compile(&mut self, mods: &ModuleSet, loc: &Locator) -> anyhow::Result<()> {
        println!("compile {}", name(loc));
        oal_compiler::compile::compile(mods, loc).map_err(|e| anyhow::anyhow!("compile: {e}"))
    }
}

fn one(input: &str) {
    let mut files = HashMap::new();
    let mut first = None;
    let mut cur: Option<(String, String)> = None;
    for line in input.lines() {
        if let Some(n) = line.strip_prefix("=== ") {
            if let Some((k, v)) = cur.take() {
                files.insert(k, v);
            }
            if first.is_none() {
                first = Some(n.trim().to_owned());
            }
            cur = Some((n.trim().to_owned(), String::new()));
        } else if let Some((_, v)) = cur.as_mut() {
            v.push_str(line);
            v.push('\n');
        }
    }
    if let Some((k, v)) = cur.take() {
        files.insert(k, v);
    }
    let main = Locator::try_from(format!("{ROOT}{}", first.expect("no module")).as_str()).unwrap();
    let mut mem = Mem { files };
    match oal_compiler::module::load(&mut mem, &main) {
        Ok(mods) => println!("OK {}", mods.len()),
        Err(e) => println!("ERR {e}"),
    }
}

/// Several cases in one process: each starts with a line `##### <name>`; the same line is echoed before the
/// case's output; a panic inside a case is caught and printed as `PANIC`.
fn main() {
    let mut input = String::new();
    std::io::stdin().read_to_string(&mut input).unwrap();
    if !input.starts_with("##### ") {
        one(&input);
        return;
    }
    std::panic::set_hook(Box::new(|_| {}));
    for case in input.split("##### ").skip(1) {
        let (name, body) = case.split_once('\n').unwrap_or((case, ""));
        println!("##### {}", name.trim());
        let body = body.to_owned();
        if std::panic::catch_unwind(move || one(&body)).is_err() {
            println!("PANIC");
        }
    }
}
