//! stdout (line oriented):
//!   tokens <n> tiling=<ok|BROKEN at i> end=<end> len=<len> gaps_ok=<bool> errs_in_text=<bool> slices=<ok|BROKEN_...>
//!   memo   tree=<hash> errs=<n> reads=<r> hits=<h> leaves=<l> leaves_ok=<bool> spans_ok=<bool>
//!   nomemo tree=<hash> errs=<n> reads=<r> hits=<h>
//!   same=<bool>
use oal_compiler::tree::Core;
use oal_model::grammar::{AbstractSyntaxNode, Context, ParserMatch};
use oal_model::lexicon::{Lexeme, TokenList};
use oal_model::locator::Locator;
use oal_model::lexicon::Interner;
use oal_syntax::lexer::{tokenize, Token, TokenValue};
use oal_syntax::parser::{parse_program, Gram};
use std::collections::hash_map::DefaultHasher;
use std::hash::{Hash, Hasher};
use std::io::Read;

fn counters(dbg: &str, key: &str) -> String {
    dbg.split(key)
        .nth(1)
        .map(|s| s.trim_start_matches(": ").chars().take_while(|c| c.is_ascii_digit()).collect())
        .unwrap_or_default()
}

fn run(loc: &Locator, input: &str, memo: bool) -> (u64, usize, String, String, usize, bool, bool) {
    let (tokens, lex_errs) = tokenize(loc.clone(), input);
    let tokens: TokenList<Token> = tokens.unwrap();
    let mut ctx: Context<Core, Gram> = Context::new(tokens);
    if !memo {
        ctx = ctx.without_cache();
    }
    let cursor = ctx.head();
    let res = parse_program(&mut ctx, cursor);
    let dbg = format!("{ctx:?}");
    let (reads, hits) = (counters(&dbg, "input_reads"), counters(&dbg, "cache_hits"));
    let mut errs = lex_errs.len();
    let mut h = DefaultHasher::new();
    let (mut leaves, mut leaves_ok, mut spans_ok) = (0usize, true, true);
    match res {
        Ok((s, ParserMatch::Node(n))) => {
            if s.is_valid() {
                errs += 1;
            }
            let tree = ctx.tree().finalize(n);
            let root = tree.root();
            format!("{root:#?}").hash(&mut h);
            if std::env::var("PARSEDRV_DEBUG").is_ok() && memo {
                eprintln!("{root:#?}");
            }
            // leaves in source order, each inside the text, non-overlapping, on char boundaries
            let mut last_end = 0usize;
            let mut leaf_spans: Vec<(usize, usize)> = Vec::new();
            for node in root.descendants() {
                if matches!(node.syntax().trunk(), oal_model::grammar::SyntaxTrunk::Leaf(_)) {
                    leaves += 1;
                    // the token's own span, not NodeRef::span (which is what is being checked)
                    let sp = node.token().span();
                    if node.span().map(|n| (n.start(), n.end())) != Some((sp.start(), sp.end())) {
                        spans_ok = false;
                    }
                    if sp.start() < last_end || sp.end() > input.len() || !input.is_char_boundary(sp.start()) || !input.is_char_boundary(sp.end()) {
                        leaves_ok = false;
                    }
                    last_end = sp.end();
                    leaf_spans.push((sp.start(), sp.end()));
                } else if let Some(sp) = node.span() {
                    if sp.end() > input.len() || sp.start() > sp.end() {
                        spans_ok = false;
                    }
                    // a node's span is the hull of its leaves
                    let (mut lo, mut hi) = (usize::MAX, 0usize);
                    for d in node.descendants() {
                        if matches!(d.syntax().trunk(), oal_model::grammar::SyntaxTrunk::Leaf(_)) {
                            let l = d.token().span();
                            lo = lo.min(l.start());
                            hi = hi.max(l.end());
                        }
                    }
                    if lo != usize::MAX && (sp.start() != lo || sp.end() != hi) {
                        spans_ok = false;
                    }
                }
            }
            // the leaves are exactly the non-trivia tokens of the parsed prefix, each once, in order
            let (tl, _) = tokenize(loc.clone(), input);
            let tl: TokenList<Token> = tl.unwrap();
            let mut want: Vec<(usize, usize)> = Vec::new();
            let mut cur = tl.head();
            while cur.is_valid() {
                let (tok, span) = tl.token_span(cur);
                if !<Token as Lexeme>::is_trivia(tok.kind()) && span.end() <= last_end {
                    want.push((span.start(), span.end()));
                }
                cur = tl.advance(cur);
            }
            if want != leaf_spans {
                leaves_ok = false;
                if std::env::var("PARSEDRV_DEBUG").is_ok() {
                    eprintln!("want   {:?}\nleaves {:?}", want, leaf_spans);
                }
            }
        }
        Ok(_) => "no-node".hash(&mut h),
        Err(e) => {
            errs += 1;
            format!("{e}").hash(&mut h);
        }
    }
    (h.finish(), errs, reads, hits, leaves, leaves_ok, spans_ok)
}

fn main() {
    let mut input = String::new();
    std::io::stdin().read_to_string(&mut input).unwrap();
    let loc = Locator::try_from("file:///mem/main.oal").unwrap();
    let (tokens, lex_errs) = tokenize(loc.clone(), &input);
    let list = tokens.unwrap();
    // tiling: token spans ascend without overlap; gaps only where the lexer reported an error
    let mut pos = 0usize;
    let mut tiling = String::from("ok");
    let mut n = 0usize;
    let mut cur = list.head();
    // bytes covered by lexical-error spans
    let mut err_cover = vec![false; input.len() + 1];
    let mut errs_in_text = true;
    for e in lex_errs.iter() {
        let sp = e.span();
        if sp.start() > sp.end() || sp.end() > input.len() || !input.is_char_boundary(sp.start()) || !input.is_char_boundary(sp.end()) {
            errs_in_text = false;
            continue;
        }
        for b in sp.start()..sp.end() {
            err_cover[b] = true;
        }
    }
    let mut gaps_ok = true;
    let mut slices = String::from("ok");
    while cur.is_valid() {
        let (tok, span) = list.token_span(cur);
        let _ = tok.kind();
        if span.start() < pos || span.end() > input.len() || span.start() > span.end() {
            tiling = format!("BROKEN at token {n} ({}..{})", span.start(), span.end());
            break;
        }
        // a gap before this token must be bytes the lexer reported as an error
        if (pos..span.start()).any(|b| !err_cover[b]) {
            gaps_ok = false;
        }
        // the token's text is the source slice of its span: lexing that slice alone gives this very token
        if slices == "ok" {
            if !input.is_char_boundary(span.start()) || !input.is_char_boundary(span.end()) {
                slices = format!("BROKEN at token {n}: span {}..{} is off a character boundary", span.start(), span.end());
            } else {
                let piece = &input[span.start()..span.end()];
                let (l2, e2) = tokenize(loc.clone(), piece);
                let l2 = l2.unwrap();
                let h2 = l2.head();
                let same = e2.is_empty() && l2.len() == 1 && {
                    let (t2, s2) = l2.token_span(h2);
                    s2.start() == 0 && s2.end() == piece.len() && t2.kind() == tok.kind() && match (tok.value(), t2.value()) {
                        (TokenValue::Symbol(a), TokenValue::Symbol(b)) => list.resolve(*a) == l2.resolve(*b),
                        (TokenValue::None, TokenValue::None) => true,
                        (TokenValue::Number(a), TokenValue::Number(b)) => a == b,
                        (TokenValue::HttpStatus(a), TokenValue::HttpStatus(b)) => a == b,
                        _ => false,
                    }
                };
                if !same {
                    slices = format!("BROKEN at token {n}: {:?} at {}..{} is not what its slice {:?} denotes", tok.kind(), span.start(), span.end(), piece.chars().take(12).collect::<String>());
                }
            }
        }
        pos = span.end();
        n += 1;
        cur = list.advance(cur);
    }
    if tiling == "ok" && (pos..input.len()).any(|b| !err_cover[b]) {
        gaps_ok = false;
    }
    println!("tokens {n} tiling={tiling} end={} len={} gaps_ok={gaps_ok} errs_in_text={errs_in_text} slices={}", list.end(), input.len(), slices.replace(' ', "_"));
    let a = run(&loc, &input, true);
    if std::env::var("PARSEDRV_MEMO_ONLY").is_ok() {
        println!("memo   tree={:x} errs={} reads={} hits={} leaves={} leaves_ok={} spans_ok={}", a.0, a.1, a.2, a.3, a.4, a.5, a.6);
        return;
    }
    let b = run(&loc, &input, false);
    println!("memo   tree={:x} errs={} reads={} hits={} leaves={} leaves_ok={} spans_ok={}", a.0, a.1, a.2, a.3, a.4, a.5, a.6);
    println!("nomemo tree={:x} errs={} reads={} hits={}", b.0, b.1, b.2, b.3);
    println!("same={}", a.0 == b.0 && a.1 == b.1);
}
