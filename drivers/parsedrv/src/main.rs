//! stdout (line oriented):
//!   tokens <n> tiling=<ok|BROKEN at i> end=<end> len=<len>
//!   memo   tree=<hash> errs=<n> reads=<r> hits=<h> leaves=<l> leaves_ok=<bool> spans_ok=<bool>
//!   nomemo tree=<hash> errs=<n> reads=<r> hits=<h>
//!   same=<bool>
use oal_compiler::tree::Core;
use oal_model::grammar::{AbstractSyntaxNode, Context, ParserMatch};
use oal_model::lexicon::{Lexeme, TokenList};
use oal_model::locator::Locator;
use oal_syntax::lexer::{tokenize, Token};
use oal_syntax::parser::{parse_program, Gram};
use std::collections::hash_map::DefaultHasher;
use std::hash::{Hash, Hasher};
use std::io::Read;

fn counters(dbg: &str, key: &str) -> String {
    dbg.split(key)
        .nth(1)
        .map(|s| s.trim_start_matches(": ").chars().take_while(|c| c.is_ascii_digit()).collect())
        .unwrap_or_default()
}

fn run(loc: &Locator, input: &str, memo: bool) -> (u64, usize, String, String, usize, bool, bool) {
    let (tokens, lex_errs) = tokenize(loc.clone(), input);
    let tokens: TokenList<Token> = tokens.unwrap();
    let mut ctx: Context<Core, Gram> = Context::new(tokens);
    if !memo {
        ctx = ctx.without_cache();
    }
    let cursor = ctx.head();
    let res = parse_program(&mut ctx, cursor);
    let dbg = format!("{ctx:?}");
    let (reads, hits) = (counters(&dbg, "input_reads"), counters(&dbg, "cache_hits"));
    let mut errs = lex_errs.len();
    let mut h = DefaultHasher::new();
    let (mut leaves, mut leaves_ok, mut spans_ok) = (0usize, true, true);
    match res {
        Ok((s, ParserMatch::Node(n))) => {
            if s.is_valid() {
                errs += 1;
            }
            let tree = ctx.tree().finalize(n);
            let root = tree.root();
            format!("{root:#?}").hash(&mut h);
            // leaves in source order, each inside the text, non-overlapping, on char boundaries
            let mut last_end = 0usize;
            for node in root.descendants() {
                if matches!(node.syntax().trunk(), oal_model::grammar::SyntaxTrunk::Leaf(_)) {
                    leaves += 1;
                    // the token's own span, not NodeRef::span (which is what is being checked)
                    let sp = node.token().span();
                    if node.span().map(|n| (n.start(), n.end())) != Some((sp.start(), sp.end())) {
                        spans_ok = false;
                    }
                    if sp.start() < last_end || sp.end() > input.len() || !input.is_char_boundary(sp.start()) || !input.is_char_boundary(sp.end()) {
                        leaves_ok = false;
                    }
                    last_end = sp.end();
                } else if let Some(sp) = node.span() {
                    if sp.end() > input.len() || sp.start() > sp.end() {
                        spans_ok = false;
                    }
                    // a node's span is the hull of its leaves
                    let (mut lo, mut hi) = (usize::MAX, 0usize);
                    for d in node.descendants() {
                        if matches!(d.syntax().trunk(), oal_model::grammar::SyntaxTrunk::Leaf(_)) {
                            let l = d.token().span();
                            lo = lo.min(l.start());
                            hi = hi.max(l.end());
                        }
                    }
                    if lo != usize::MAX && (sp.start() != lo || sp.end() != hi) {
                        spans_ok = false;
                    }
                }
            }
        }
        Ok(_) => "no-node".hash(&mut h),
        Err(e) => {
            errs += 1;
            format!("{e}").hash(&mut h);
        }
    }
    (h.finish(), errs, reads, hits, leaves, leaves_ok, spans_ok)
}

fn main() {
    let mut input = String::new();
    std::io::stdin().read_to_string(&mut input).unwrap();
    let loc = Locator::try_from("file:///mem/main.oal").unwrap();
    let (tokens, _errs) = tokenize(loc.clone(), &input);
    let list = tokens.unwrap();
    // tiling: token spans ascend without overlap; gaps only where the lexer reported an error
    let mut pos = 0usize;
    let mut tiling = String::from("ok");
    let mut n = 0usize;
    let mut cur = list.head();
    while cur.is_valid() {
        let (tok, span) = list.token_span(cur);
        let _ = tok.kind();
        if span.start() < pos || span.end() > input.len() || span.start() > span.end() {
            tiling = format!("BROKEN at token {n} ({}..{})", span.start(), span.end());
            break;
        }
        pos = span.end();
        n += 1;
        cur = list.advance(cur);
    }
    println!("tokens {n} tiling={tiling} end={} len={}", list.end(), input.len());
    let a = run(&loc, &input, true);
    if std::env::var("PARSEDRV_MEMO_ONLY").is_ok() {
        println!("memo   tree={:x} errs={} reads={} hits={} leaves={} leaves_ok={} spans_ok={}", a.0, a.1, a.2, a.3, a.4, a.5, a.6);
        return;
    }
    let b = run(&loc, &input, false);
    println!("memo   tree={:x} errs={} reads={} hits={} leaves={} leaves_ok={} spans_ok={}", a.0, a.1, a.2, a.3, a.4, a.5, a.6);
    println!("nomemo tree={:x} errs={} reads={} hits={}", b.0, b.1, b.2, b.3);
    println!("same={}", a.0 == b.0 && a.1 == b.1);
}
