//! Native driver around the playground entry point (oal_wasm::compile) of /repo.
//! Default: compile stdin once, print OK/ERR + body.
//! WASMDRV_REPEAT=n: compile the same text n times in this process, then once more on a
//! second thread and once after compiling an unrelated program; print `repeat same=<bool>`
//! (byte equality of all results) followed by the first result.
use std::io::Read;

fn once(input: &str) -> (bool, String) {
    let r = oal_wasm::compile(input);
    if r.error.is_empty() {
        (true, r.api)
    } else {
        (false, r.error)
    }
}

fn main() {
    let mut input = String::new();
    std::io::stdin().read_to_string(&mut input).unwrap();
    if let Ok(n) = std::env::var("WASMDRV_REPEAT") {
        let n: usize = n.parse().unwrap_or(3);
        let first = once(&input);
        let mut same = true;
        let mut which = String::new();
        for i in 1..n {
            if once(&input) != first {
                same = false;
                which = format!("compilation #{} differs from #1", i + 1);
                break;
            }
        }
        // something else compiled in between (a different program with functions, rec and references)
        let _ = once("let f x = rec r { 'a x, 'b [r] };\nlet @n = { 'k f num };\nres /other on get -> <f @n>;\n");
        if same && once(&input) != first {
            same = false;
            which = "differs after an unrelated compilation in the same process".into();
        }
        let text = input.clone();
        let t = std::thread::spawn(move || once(&text)).join().unwrap();
        if same && t != first {
            same = false;
            which = "differs on a second thread".into();
        }
        println!("repeat same={} {}", same, which);
        println!("{}", if first.0 { "OK" } else { "ERR" });
        print!("{}", first.1);
        return;
    }
    // WASMDRV_THEN=<file>: compile stdin first, then the text of <file> in the same process and on the same
    // thread; print the result of the second compilation only (to be compared with a process that compiled only it)
    if let Ok(path) = std::env::var("WASMDRV_THEN") {
        let then = std::fs::read_to_string(path).unwrap();
        let _ = once(&input);
        let r = once(&then);
        println!("{}", if r.0 { "OK" } else { "ERR" });
        print!("{}", r.1);
        return;
    }
    let r = once(&input);
    println!("{}", if r.0 { "OK" } else { "ERR" });
    print!("{}", r.1);
}
