use std::io::Read;

fn main() {
    let mut input = String::new();
    std::io::stdin().read_to_string(&mut input).unwrap();
    let r = oal_wasm::compile(&input);
    if r.error.is_empty() {
        println!("OK");
        print!("{}", r.api);
    } else {
        println!("ERR");
        print!("{}", r.error);
    }
}
