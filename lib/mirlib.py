"""Glue between property modules and engine M (mirdump + mirparse + mirsym + smt)."""
import glob
import json
import os
import subprocess
import time

import mirdump
import mirparse as mp
import mirsym as ms
import smt as smtmod
from vcommon import REPO, log, tier

_modules = {}
_enums = None


def enums():
    global _enums
    if _enums is None:
        paths = glob.glob(os.path.join(REPO, "oal-*", "src", "**", "*.rs"), recursive=True)
        tbl = ms.scan_enums(sorted(paths))
        _enums = ms.Enums(tbl)
    return _enums


def module(crate):
    """Parsed MIR of `crate`, dumped from /repo's current working tree (once per process)."""
    if crate not in _modules:
        t0 = time.time()
        path = mirdump.dump(crate)
        _modules[crate] = mp.Module(path)
        log("  [M] MIR of %s: %d functions (%.1fs)" % (crate, len(_modules[crate].funcs), time.time() - t0))
    return _modules[crate]


def executor(mods, atomic=None, **kw):
    """atomic: regexes of (short) function names the lemma treats as opaque calls; when given, every *other*
    first-party function found in the dumps is inlined - so that extracting a private helper out of (or inlining
    one into) an anchored function does not change what a lemma sees."""
    if not isinstance(mods, (list, tuple)):
        mods = [mods]
    ex = ms.Executor(list(mods), enums=enums(), **kw)
    if atomic is not None:
        import re as _re
        rs = [_re.compile(a) for a in atomic]
        ex.inline_pred = lambda f: not any(r.search(f.short) or r.search(f.name) for r in rs)
    return ex     # default: helpers that did not exist on the pinned tree are inlined (mirsym.default_helper_pred)


def func_ref(f, crate):
    """Evidence entry for an encoded function."""
    site = f.impl_site()
    d = {"crate": crate, "mir_name": f.name, "blocks": len(f.blocks), "mir_line": f.line}
    return d


class Lemma:
    """A named group of SMT queries over symbolic-execution results, recorded into an Outcome."""

    def __init__(self, o, smt=None):
        self.o = o
        self.smt = smt or smtmod.Smt(enums())
        self.cvc5 = tier() == "thorough"
        self.sat_models = []

    def expect_unsat(self, name, constraints, on_sat=None, nonvacuous=True):
        """The negated property must be unsatisfiable. Returns True if it is."""
        n0 = len(self.smt.queries)
        verdict, model = self.smt.check(name, constraints)
        q = self.smt.queries[-1]
        rec = self.o.query(name, "mirsym/z3", verdict, q["time_s"], nonvacuous=nonvacuous)
        if verdict == "unsat":
            if self.cvc5 and q.get("smt2"):
                r = smtmod.cvc5_check(q["smt2"])
                rec["cvc5"] = r
                if r != "unsat":
                    self.o.inconc("%s: z3 says unsat but cvc5 says %s" % (name, r))
                    return False
            return True
        if verdict == "sat":
            rec["model"] = str(model)[:1500]
            if on_sat:
                on_sat(name, model)
            return False
        self.o.inconc("%s: solver answered %s (%s)" % (name, verdict, model))
        return False

    def expect_sat(self, name, constraints):
        """Reachability / non-vacuity witness: the constraints must be satisfiable."""
        verdict, model = self.smt.check("witness:" + name, constraints)
        q = self.smt.queries[-1]
        self.o.query("witness:" + name, "mirsym/z3", verdict, q["time_s"], nonvacuous=True, witness=True)
        if verdict != "sat":
            self.o.inconc("vacuity guard: witness '%s' is %s - the lemma would hold vacuously" % (name, verdict))
            return False
        return True


def yaml_to_obj(text):
    """Parse YAML with the system python's PyYAML (the tooling venv has none)."""
    p = subprocess.run(["python3", "-c", "import yaml,json,sys; json.dump(yaml.safe_load(sys.stdin), sys.stdout)"],
                       input=text, text=True, capture_output=True, timeout=60)
    if p.returncode != 0:
        raise RuntimeError("yaml parse failed: " + p.stderr[-500:])
    return json.loads(p.stdout)


def check_translator(o, ex, what):
    """Unknown constructs on executed paths make the verdict inconclusive."""
    if ex.unknown:
        o.inconc("%s: MIR constructs the translator does not understand: %s" % (what, "; ".join(sorted(set(ex.unknown))[:5])))
        return False
    return True


def fmt_pc(pc):
    return " & ".join("%s %s %s" % (ms.show(a), op, v) for a, op, v in pc)
