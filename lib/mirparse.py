"""Parser for rustc's `-Zunpretty=mir` text (nightly), as far as /repo's glue code needs.

The parser is deliberately strict: anything it does not understand is kept as an
`('unknown', text)` node, and the symbolic executor refuses (inconclusive) to give a
verdict for a path that executes one.
"""
import re

RE_FN = re.compile(r"^(?:fn) (.+?)(?:\((.*)\) -> (.+?)) \{\s*$")
RE_CONST = re.compile(r"^(?:const|static(?: mut)?) (.+): (.+?) = \{\s*$")
RE_BB = re.compile(r"^\s*bb(\d+)( \(cleanup\))?: \{\s*$")
RE_LET = re.compile(r"^\s*let (mut )?_(\d+): (.+);\s*$")
RE_DEBUG = re.compile(r"^\s*debug (\S+) => (.+);\s*$")
RE_LOCAL = re.compile(r"_(\d+)")


class Block:
    __slots__ = ("id", "cleanup", "stmts", "term", "_ps", "_pt")

    def __init__(self, id, cleanup):
        self.id = id
        self.cleanup = cleanup
        self.stmts = []
        self.term = None
        self._ps = None
        self._pt = None


class Func:
    def __init__(self, name, argtext, ret, kind, line):
        self.name = name
        self.kind = kind            # 'fn' | 'const'
        self.line = line
        self.ret = ret
        self.args = []              # [(local, type)]
        self.locals = {}            # local -> type
        self.debug = {}             # local -> source name
        self.blocks = {}
        if argtext:
            for a in split_top(argtext, ","):
                a = a.strip()
                if not a:
                    continue
                m = re.match(r"_(\d+): (.*)$", a, re.S)
                if m:
                    self.args.append((int(m.group(1)), m.group(2)))
                    self.locals[int(m.group(1))] = m.group(2)
        self.locals[0] = ret

    @property
    def short(self):
        return short_name(self.name)

    def impl_site(self):
        m = re.search(r"<impl at ([^:>]+):(\d+):\d+: \d+:\d+>", self.name)
        return (m.group(1), int(m.group(2))) if m else None

    def closure_site(self):
        return None


def strip_generics(s):
    """Remove `::<...>` generic argument lists and lifetimes from a path."""
    out = []
    i = 0
    n = len(s)
    while i < n:
        if s.startswith("::<", i):
            d = 0
            j = i + 2
            while j < n:
                if s[j] == "<":
                    d += 1
                elif s[j] == ">" and s[j - 1] != "-":
                    d -= 1
                    if d == 0:
                        break
                j += 1
            i = j + 1
            continue
        out.append(s[i])
        i += 1
    return "".join(out)


def short_name(name):
    """Canonical short symbol for a function path: last two meaningful segments."""
    s = name.strip()
    s = re.sub(r"<impl at [^>]*>", "@impl", s)
    s = strip_generics(s)
    # <T as Trait>::m  ->  T::m ; keep the trait for well-known std traits
    m = re.match(r"^<(.+) as (.+?)>::(.+)$", s)
    if m:
        ty = strip_angle(m.group(1))
        ty = ty.split("::")[-1]
        tr = strip_angle(m.group(2)).split("::")[-1]
        rest = m.group(3)
        return "%s.%s::%s" % (ty, tr, rest)
    m = re.match(r"^<(.+)>::(.+)$", s)
    if m:
        ty = strip_angle(m.group(1)).split("::")[-1]
        return "%s::%s" % (ty, m.group(2))
    segs = [x for x in split_path(s) if x != "@impl"]
    # closures: keep parent + {closure#k}
    if len(segs) >= 2:
        k = len(segs) - 1
        while k > 0 and (segs[k].startswith("{closure") or segs[k].startswith("promoted")):
            k -= 1
        start = max(0, k - 1)
        # for impl methods the segment before the name is a module; use it anyway
        return "::".join(segs[start:])
    return s


def strip_angle(s):
    """Drop <...> groups entirely (type arguments)."""
    out = []
    d = 0
    for i, c in enumerate(s):
        if c == "<":
            d += 1
        elif c == ">" and (i == 0 or s[i - 1] != "-"):
            d -= 1
        elif d == 0:
            out.append(c)
    return "".join(out).strip().lstrip("&").replace("mut ", "").replace("dyn ", "").strip()


def split_path(s):
    parts = []
    d = 0
    cur = []
    i = 0
    while i < len(s):
        c = s[i]
        if c in "<([{":
            d += 1
        elif c in ")]}":
            d -= 1
        elif c == ">" and (i == 0 or s[i - 1] != "-"):
            d -= 1
        if d == 0 and s.startswith("::", i):
            parts.append("".join(cur))
            cur = []
            i += 2
            continue
        cur.append(c)
        i += 1
    parts.append("".join(cur))
    return [p for p in parts if p]


def scan(s):
    """Yield (index, char, depth_before, in_string) for top-level analysis.
    Depth counts () [] {}; strings "..." (with escapes) and `const 'c'` char literals
    are skipped."""
    i = 0
    n = len(s)
    depth = 0
    while i < n:
        c = s[i]
        if c == '"':
            j = i + 1
            while j < n:
                if s[j] == "\\":
                    j += 2
                    continue
                if s[j] == '"':
                    break
                j += 1
            for k in range(i, min(j + 1, n)):
                yield k, s[k], depth, True
            i = j + 1
            continue
        if c == "'" and i >= 6 and s[i - 6:i] == "const ":
            m = re.match(r"'(\\.[^']*|[^\\'])'", s[i:])
            if m:
                for k in range(i, i + m.end()):
                    yield k, s[k], depth, True
                i += m.end()
                continue
        if c in "([{":
            yield i, c, depth, False
            depth += 1
        elif c in ")]}":
            depth -= 1
            yield i, c, depth, False
        else:
            yield i, c, depth, False
        i += 1


def split_top(s, sep=","):
    """Split at top-level separators (outside () [] {} <> and strings)."""
    parts = []
    cur = []
    ang = 0
    last = 0
    chars = list(scan(s))
    for idx, (i, c, d, instr) in enumerate(chars):
        if not instr:
            if c == "<":
                # generic bracket, unless it looks like a comparison (not in MIR operands)
                ang += 1
            elif c == ">" and not (i > 0 and s[i - 1] in "-="):
                if ang > 0:
                    ang -= 1
            if c == sep and d == 0 and ang == 0:
                parts.append(s[last:i])
                last = i + 1
    parts.append(s[last:])
    return parts


def find_top(s, needle, start=0, last=False):
    """Index of `needle` at top level (outside brackets/strings), or -1."""
    hits = []
    info = {i: (d, instr) for i, c, d, instr in scan(s)}
    pos = s.find(needle, start)
    while pos >= 0:
        d, instr = info.get(pos, (0, False))
        if d == 0 and not instr:
            if not last:
                return pos
            hits.append(pos)
        pos = s.find(needle, pos + 1)
    return hits[-1] if hits else -1


def match_paren(s, i):
    """s[i] is an opening bracket; return index of its partner."""
    op = s[i]
    for j, c, d, instr in scan(s[i:]):
        if not instr and d == 0 and j > 0 and c in ")]}":
            return i + j
    return -1


# ---------------------------------------------------------------------------------
# places / operands / rvalues


def parse_place(s):
    """-> ('place', local:int, (proj...)) ; proj: ('deref',) ('f', i, type) ('v', name) ('idx', text)"""
    s = s.strip()
    m = re.match(r"^_(\d+)$", s)
    if m:
        return ("place", int(m.group(1)), ())
    if s.startswith("("):
        k = match_paren(s, 0)
        if k == len(s) - 1:
            inner = s[1:-1]
            if inner.startswith("*"):
                b = parse_place(inner[1:])
                return ("place", b[1], b[2] + (("deref",),)) if b else None
            # base then suffix
            if inner.startswith("("):
                kb = match_paren(inner, 0)
                base, rest = inner[:kb + 1], inner[kb + 1:]
            else:
                mb = re.match(r"^_\d+", inner)
                if not mb:
                    return None
                base, rest = mb.group(0), inner[mb.end():]
            # index suffixes on the base
            while rest.startswith("["):
                kk = match_paren(rest, 0)
                base, rest = base + rest[:kk + 1], rest[kk + 1:]
            b = parse_place(base)
            if b is None:
                return None
            mf = re.match(r"^\.(\d+): (.*)$", rest, re.S)
            if mf:
                return ("place", b[1], b[2] + (("f", int(mf.group(1)), mf.group(2)),))
            mv = re.match(r"^ as (.+)$", rest, re.S)
            if mv:
                return ("place", b[1], b[2] + (("v", mv.group(1).strip()),))
            return None
        elif k > 0:
            # (..)[idx]
            base, rest = s[:k + 1], s[k + 1:]
            b = parse_place(base)
            return _index_suffix(b, rest)
        return None
    m = re.match(r"^(_\d+)(\[.*)$", s, re.S)
    if m:
        return _index_suffix(parse_place(m.group(1)), m.group(2))
    return None


def _index_suffix(b, rest):
    if b is None:
        return None
    proj = b[2]
    while rest.startswith("["):
        kk = match_paren(rest, 0)
        if kk < 0:
            return None
        proj = proj + (("idx", rest[1:kk]),)
        rest = rest[kk + 1:]
    if rest.strip():
        return None
    return ("place", b[1], proj)


def parse_operand(s):
    s = s.strip()
    if s.startswith("no_retag "):
        s = s[9:].strip()
    if s.startswith("const "):
        return ("const", s[6:].strip())
    if s.startswith("copy "):
        p = parse_place(s[5:])
        return ("copy", p) if p else ("unknown", s)
    if s.startswith("move "):
        p = parse_place(s[5:])
        return ("move", p) if p else ("unknown", s)
    p = parse_place(s)
    if p:
        return ("copy", p)
    if re.match(r"^[A-Za-z<]", s):
        # bare function item used as a value (e.g. `serde_yaml::Value::as_str`)
        return ("const", s)
    return ("unknown", s)


BINOPS = {"Eq", "Ne", "Lt", "Le", "Gt", "Ge", "Add", "Sub", "Mul", "Div", "Rem", "BitAnd", "BitOr", "BitXor",
          "Shl", "Shr", "AddWithOverflow", "SubWithOverflow", "MulWithOverflow", "AddUnchecked", "SubUnchecked",
          "MulUnchecked", "ShlUnchecked", "ShrUnchecked", "Offset", "Cmp"}
UNOPS = {"Not", "Neg", "PtrMetadata", "Len", "CopyForDeref", "ShallowInitBox", "SizeOf", "AlignOf", "UbChecks",
         "ContractChecks", "OverflowChecks"}


def parse_rvalue(s):
    s = s.strip()
    if s.startswith("no_retag "):
        s = s[9:].strip()
    # casts:  <operand> as <type> (<Kind>)
    mc = re.match(r"^(.*) as (.+) \((\w+(?:\([^)]*\))?)\)$", s, re.S)
    if mc and (mc.group(1).startswith(("copy ", "move ", "const ")) or mc.group(3).startswith("PointerCoercion")) and find_top(mc.group(1), " as ") < 0:
        op = parse_operand(mc.group(1))
        if op[0] != "unknown":
            return ("cast", op, mc.group(2), mc.group(3))
    if s.startswith(("const ", "copy ", "move ")):
        op = parse_operand(s)
        if op[0] != "unknown":
            return ("use", op)
    for pre, kind in (("&raw const ", "rawref"), ("&raw mut ", "rawrefmut"), ("&mut ", "refmut"), ("&fake shallow ", "ref"), ("&fake ", "ref"), ("&", "ref")):
        if s.startswith(pre):
            p = parse_place(s[len(pre):])
            if p:
                return (kind, p)
            return ("unknown", s)
    m = re.match(r"^discriminant\((.*)\)$", s, re.S)
    if m:
        p = parse_place(m.group(1))
        if p:
            return ("discriminant", p)
    m = re.match(r"^(\w+)\((.*)\)$", s, re.S)
    if m and m.group(1) in BINOPS:
        a = split_top(m.group(2))
        if len(a) == 2:
            return ("binop", m.group(1), parse_operand(a[0]), parse_operand(a[1]))
    if m and m.group(1) in UNOPS:
        inner = m.group(2)
        if m.group(1) in ("Len", "CopyForDeref"):
            p = parse_place(inner)
            if p:
                return ("unop", m.group(1), ("copy", p))
        if m.group(1) in ("SizeOf", "AlignOf", "UbChecks", "ContractChecks", "OverflowChecks"):
            return ("nullop", m.group(1), inner)
        a = split_top(inner)
        return ("unop", m.group(1), parse_operand(a[0]))
    # tuple / unit
    if s.startswith("(") and match_paren(s, 0) == len(s) - 1:
        inner = s[1:-1].strip()
        items = [x for x in split_top(inner) if x.strip()] if inner else []
        return ("aggr", "tuple", None, tuple(parse_operand(x) for x in items), None)
    if s.startswith("[") and match_paren(s, 0) == len(s) - 1:
        inner = s[1:-1].strip()
        semi = split_top(inner, ";")
        if len(semi) == 2:
            return ("repeat", parse_operand(semi[0]), semi[1].strip())
        items = [x for x in split_top(inner) if x.strip()] if inner else []
        return ("aggr", "array", None, tuple(parse_operand(x) for x in items), None)
    # struct-like aggregate: Path { f: v, .. }   (incl. closures)
    if s.endswith("}"):
        i = find_top(s, " { ")
        if i >= 0:
            path = s[:i].strip()
            inner = s[i + 3:-1].strip()
            names, vals = [], []
            for it in split_top(inner):
                it = it.strip()
                if not it:
                    continue
                mm = re.match(r"^(\w+): (.*)$", it, re.S)
                if not mm:
                    return ("unknown", s)
                names.append(mm.group(1))
                vals.append(parse_operand(mm.group(2)))
            return ("aggr", "struct", path, tuple(vals), tuple(names))
        if s.endswith("{}") or s.endswith("{ }"):
            return ("aggr", "struct", s[:s.rfind("{")].strip(), (), ())
    # tuple-variant / tuple-struct aggregate: Path(v, ..)
    if s.endswith(")"):
        # find the opening paren that matches the final one
        opens = []
        for i, c, d, instr in scan(s):
            if not instr and c == "(" and d == 0:
                opens.append(i)
        if opens:
            i = opens[-1]
            if match_paren(s, i) == len(s) - 1 and i > 0:
                path = s[:i].strip()
                inner = s[i + 1:-1].strip()
                items = [x for x in split_top(inner) if x.strip()] if inner else []
                ops = tuple(parse_operand(x) for x in items)
                if all(o[0] != "unknown" for o in ops) and re.match(r"^[\w<{\[&(]", path):
                    return ("aggr", "ctor", path, ops, None)
    # unit variant / unit struct / closure without captures
    if re.match(r"^[\w<{\[]", s) and "(" not in strip_angle(s).split("{closure")[0]:
        return ("aggr", "ctor", s, (), None)
    if s.startswith("{closure@") or s.startswith("{coroutine@"):
        return ("aggr", "ctor", s, (), None)
    return ("unknown", s)


def parse_stmt(s):
    s = s.strip().rstrip(";").strip()
    if s.startswith(("StorageLive(", "StorageDead(", "nop", "FakeRead(", "PlaceMention(", "Retag(", "AscribeUserType(",
                     "Coverage::", "ConstEvalCounter", "BackwardIncompatibleDropHint", "Deinit(")):
        return ("nop",)
    m = re.match(r"^assume\((.*)\)$", s, re.S)
    if m:
        return ("assume", parse_operand(m.group(1)))
    m = re.match(r"^discriminant\((.*)\) = (\d+)$", s, re.S)
    if m:
        p = parse_place(m.group(1))
        if p:
            return ("setdisc", p, int(m.group(2)))
    i = find_top(s, " = ")
    if i > 0:
        p = parse_place(s[:i])
        if p:
            return ("assign", p, parse_rvalue(s[i + 3:]))
    return ("unknown", s)


def parse_targets(s):
    """`[return: bb1, unwind: bb2]` / `[0: bb1, otherwise: bb2]` / `bb3` / `unwind continue`"""
    s = s.strip()
    t = {}
    if s.startswith("["):
        for it in split_top(s[1:-1]):
            k, _, v = it.partition(":")
            t[k.strip()] = v.strip()
    else:
        m = re.match(r"^bb(\d+)$", s)
        if m:
            t["goto"] = s
        else:
            t["unwind"] = s.replace("unwind ", "")
    return t


def bbid(s):
    m = re.match(r"^bb(\d+)$", s.strip())
    return int(m.group(1)) if m else None


def parse_term(s):
    s = s.strip().rstrip(";").strip()
    if s == "return":
        return ("return",)
    if s == "unreachable":
        return ("unreachable",)
    if s in ("resume", "abort") or s.startswith("terminate"):
        return ("resume",)
    m = re.match(r"^goto -> bb(\d+)$", s)
    if m:
        return ("goto", int(m.group(1)))
    m = re.match(r"^falseEdge -> \[real: bb(\d+), imaginary: bb\d+\]$", s)
    if m:
        return ("goto", int(m.group(1)))
    m = re.match(r"^falseUnwind -> \[real: bb(\d+).*\]$", s)
    if m:
        return ("goto", int(m.group(1)))
    m = re.match(r"^switchInt\((.*)\) -> \[(.*)\]$", s, re.S)
    if m:
        arms = []
        other = None
        for it in split_top(m.group(2)):
            k, _, v = it.partition(":")
            k = k.strip()
            if k == "otherwise":
                other = bbid(v)
            else:
                arms.append((int(k), bbid(v)))
        return ("switch", parse_operand(m.group(1)), tuple(arms), other)
    m = re.match(r"^drop\((.*)\) -> (.*)$", s, re.S)
    if m:
        t = parse_targets(m.group(2))
        return ("drop", parse_place(m.group(1)), bbid(t.get("return", t.get("goto", ""))))
    m = re.match(r"^assert\((.*)\) -> (.*)$", s, re.S)
    if m:
        t = parse_targets(m.group(2))
        args = split_top(m.group(1))
        cond = args[0].strip()
        neg = False
        if cond.startswith("!"):
            neg = True
            cond = cond[1:]
        return ("assert", parse_operand(cond), neg, args[1].strip() if len(args) > 1 else "", bbid(t.get("success", "")))
    # call:  [dest = ] callee(args) -> targets
    i = find_top(s, " -> ", last=True)
    if i > 0:
        lhs, tg = s[:i], s[i + 4:]
        t = parse_targets(tg)
        dest = None
        j = find_top(lhs, " = ")
        if j > 0:
            p = parse_place(lhs[:j])
            if p:
                dest = p
                lhs = lhs[j + 3:]
        lhs = lhs.strip()
        if lhs.endswith(")"):
            opens = [k for k, c, d, instr in scan(lhs) if not instr and c == "(" and d == 0]
            for k in reversed(opens):
                if match_paren(lhs, k) == len(lhs) - 1:
                    callee = lhs[:k].strip()
                    inner = lhs[k + 1:-1].strip()
                    items = [x for x in split_top(inner) if x.strip()] if inner else []
                    args = tuple(parse_operand(x) for x in items)
                    ret = bbid(t["return"]) if "return" in t else None
                    return ("call", dest, callee, args, ret)
    return ("unknown", s)


# ---------------------------------------------------------------------------------


class Module:
    def __init__(self, path, text=None):
        self.path = path
        self.funcs = []
        self.by_short = {}
        self.parse(text if text is not None else open(path, encoding="utf-8", errors="replace").read())

    def parse(self, text):
        cur = None
        bb = None
        lines = text.split("\n")
        i = 0
        n = len(lines)
        while i < n:
            line = lines[i]
            if cur is None:
                m = RE_FN.match(line)
                if m and not line.startswith(" "):
                    cur = Func(m.group(1), m.group(2), m.group(3), "fn", i + 1)
                else:
                    m = RE_CONST.match(line)
                    if m and not line.startswith(" "):
                        cur = Func(m.group(1), "", m.group(2), "const", i + 1)
                i += 1
                continue
            if line.startswith("}"):
                self.funcs.append(cur)
                cur = None
                bb = None
                i += 1
                continue
            mb = RE_BB.match(line)
            if mb:
                bb = Block(int(mb.group(1)), bool(mb.group(2)))
                cur.blocks[bb.id] = bb
                i += 1
                continue
            if bb is not None:
                st = line.strip()
                if st == "}":
                    bb = None
                elif st:
                    # statements may span lines (rare: long aggregates); join until ';' at end
                    while not st.endswith(";") and i + 1 < n and not lines[i + 1].strip().startswith("}"):
                        i += 1
                        st += " " + lines[i].strip()
                    bb.stmts.append(st)
                i += 1
                continue
            ml = RE_LET.match(line)
            if ml:
                cur.locals[int(ml.group(2))] = ml.group(3)
            else:
                md = RE_DEBUG.match(line)
                if md:
                    mm = re.match(r"^_(\d+)$", md.group(2).strip())
                    if mm:
                        cur.debug[int(mm.group(1))] = md.group(1)
            i += 1
        for f in self.funcs:
            for b in f.blocks.values():
                if b.stmts:
                    b.term = b.stmts.pop()
            self.by_short.setdefault(f.short, []).append(f)

    def find(self, pattern, nargs=None):
        """Functions whose full name matches regex `pattern` (search)."""
        r = re.compile(pattern)
        out = [f for f in self.funcs if r.search(f.name) and f.kind == "fn"]
        if nargs is not None:
            out = [f for f in out if len(f.args) == nargs]
        return out

    def sel(self, module, name, arg0=None, ret=None, nargs=None):
        """The method `name` of an impl block in `module`, picked by its signature (first argument type / return
        type regexes) rather than by the source line of the impl block."""
        fs = [f for f in self.funcs if f.kind == "fn" and re.search(r"(^|[^\w])%s::<impl at [^>]*>::%s$" % (re.escape(module), re.escape(name)), f.name)]
        if arg0 is not None:
            fs = [f for f in fs if f.args and re.search(arg0, f.args[0][1])]
        if ret is not None:
            fs = [f for f in fs if re.search(ret, f.ret)]
        if nargs is not None:
            fs = [f for f in fs if len(f.args) == nargs]
        if len(fs) != 1:
            raise KeyError("expected exactly one %s::..::%s with arg0~%r ret~%r, found %d: %s" % (module, name, arg0, ret, len(fs), [f.name for f in fs][:4]))
        return fs[0]

    def one(self, pattern, nargs=None):
        fs = self.find(pattern, nargs)
        if len(fs) != 1:
            raise KeyError("expected exactly one function matching %r, found %d: %s" % (pattern, len(fs), [f.name for f in fs][:6]))
        return fs[0]


def stmts_of(block):
    if block._ps is None:
        block._ps = [parse_stmt(s) for s in block.stmts]
        block._pt = parse_term(block.term) if block.term else ("unknown", "<no terminator>")
    return block._ps, block._pt


def succs(func, b):
    """Non-cleanup successor block ids."""
    _, t = stmts_of(func.blocks[b])
    k = t[0]
    if k == "goto":
        return [t[1]]
    if k == "switch":
        return [x for _, x in t[2]] + ([t[3]] if t[3] is not None else [])
    if k == "drop":
        return [t[2]] if t[2] is not None else []
    if k == "assert":
        return [t[4]] if t[4] is not None else []
    if k == "call":
        return [t[4]] if t[4] is not None else []
    return []


def back_edges(func):
    """Back-edges (u, v) of the non-cleanup CFG found by DFS from bb0; loop heads = {v}."""
    color = {}
    edges = set()
    stack = [(0, iter(succs(func, 0)))] if 0 in func.blocks else []
    color[0] = 1
    while stack:
        u, it = stack[-1]
        adv = False
        for v in it:
            if v not in func.blocks:
                continue
            c = color.get(v, 0)
            if c == 0:
                color[v] = 1
                stack.append((v, iter(succs(func, v))))
                adv = True
                break
            elif c == 1:
                edges.add((u, v))
        if not adv:
            color[u] = 2
            stack.pop()
    return edges


def loop_blocks(func, head, tails):
    """Natural loop of back-edges tails->head."""
    preds = {}
    for b in func.blocks:
        if func.blocks[b].cleanup:
            continue
        for s in succs(func, b):
            preds.setdefault(s, []).append(b)
    body = {head}
    work = [t for t in tails]
    while work:
        x = work.pop()
        if x in body:
            continue
        body.add(x)
        work.extend(preds.get(x, []))
    return body


def assigned_locals(func, blocks):
    """local -> None (assigned as a whole / mutably borrowed) or the set of first-level
    field indices assigned inside `blocks`."""
    out = {}

    def whole(l):
        out[l] = None

    def place(pl):
        l, projs = pl[1], pl[2]
        if projs and projs[0][0] == "f" and not any(p[0] == "deref" for p in projs):
            if l in out and out[l] is None:
                return
            out.setdefault(l, set()).add(projs[0][1])
        elif projs and any(p[0] == "deref" for p in projs):
            # a write through a pointer held in l does not change l itself
            return
        else:
            whole(l)

    for b in blocks:
        ps, pt = stmts_of(func.blocks[b])
        for st in ps:
            if st[0] in ("assign", "setdisc"):
                place(st[1])
            if st[0] == "assign" and st[2][0] in ("refmut", "rawrefmut"):
                pl = st[2][1]
                if not any(p[0] == "deref" for p in pl[2]):
                    whole(pl[1])
        if pt[0] == "call" and pt[1] is not None:
            place(pt[1])
    return out
