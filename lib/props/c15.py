"""C15 - language-server answers depend only on current texts (partial: one-step lemmas).

M: the staleness protocol (notification closures, request arm, refresh), the edit
application step of `Workspace::change`, the reset of diagnostics.
K: for any text <= K chars and any protocol-defined edit range, the server's byte
offsets equal the client's, are ordered, in range and on character boundaries.
Replay oracle: the real oal-lsp binary, history server vs. fresh server.
"""
import json
import os
import re

import kanirun
import mirlib
import mirsym as ms
import z3
from vcommon import REPO, Outcome, Findings, new_replay_dir, src_ref, tier

OAL_TOML = '[api]\nmain = "main.oal"\ntarget = "out.yaml"\n'


def R(l0, c0, l1, c1):
    return {"start": {"line": l0, "character": c0}, "end": {"line": l1, "character": c1}}


HISTORIES = {
    "fix-error-with-multibyte-prefix": {
        "disk": {"main.oal": "res / on get -> <{}>;\n"},
        "script": [("open", "main.oal", "// \U0001F609 smile\nlet a = nu;\r\nres / on get -> <a>;\n"), ("sync", "main.oal"),
                   ("change", "main.oal", [(R(1, 8, 1, 10), "num")]), ("sync", "main.oal"),
                   ("change", "main.oal", [(R(0, 3, 0, 5), "é"), (R(2, 19, 2, 19), " ")])],
        "probe": ("main.oal", {"line": 2, "character": 18}),
    },
    "introduce-error-then-full-replace": {
        "disk": {"main.oal": "res / on get -> <{}>;\n"},
        "script": [("open", "main.oal", "let a = num;\nres / on get -> <a>;\n"), ("sync", "main.oal"),
                   ("change", "main.oal", [(R(0, 8, 0, 11), "nope")]), ("sync", "main.oal"),
                   ("change", "main.oal", [(None, "let b = str;\nres /x on get -> <b>;\n")])],
        "probe": ("main.oal", {"line": 1, "character": 18}),
    },
    "edit-past-line-and-text-end": {
        "disk": {"main.oal": "res / on get -> <{}>;\n"},
        "script": [("open", "main.oal", "let a = num;\nres / on get -> <a>;"), ("sync", "main.oal"),
                   ("change", "main.oal", [(R(0, 12, 0, 99), " // 中文"), (R(9, 0, 9, 0), "\nlet z = a;\n")])],
        "probe": ("main.oal", {"line": 1, "character": 18}),
    },
    "ends-with-errors-after-multibyte-edits": {
        "disk": {"main.oal": "res / on get -> <{}>;\n"},
        "script": [("open", "main.oal", "let a = num; // \U0001F600\U0001F600\r\nres / on get -> <a>;\r\n"), ("sync", "main.oal"),
                   ("change", "main.oal", [(R(0, 16, 0, 18), "\u00e9"), (R(1, 17, 1, 18), "undefined_name")]), ("sync", "main.oal"),
                   ("change", "main.oal", [(R(0, 4, 0, 5), "\u4e2d")])],
        "probe": ("main.oal", {"line": 0, "character": 4}),
    },
    "two-dependent-changes-in-one-notification": {
        "disk": {"main.oal": "res / on get -> <{}>;\n"},
        "script": [("open", "main.oal", "let a = num;\nres / on get -> <a>;\n"), ("sync", "main.oal"),
                   ("change", "main.oal", [(R(0, 0, 0, 0), "let label = str;\n"), (R(2, 17, 2, 18), "label"), (R(1, 8, 1, 11), "int")])],
        "probe": ("main.oal", {"line": 2, "character": 18}),
    },
    "open-an-import-already-read-from-disk": {
        "disk": {"main.oal": 'use "m.oal";\nres / on get -> <t>;\n', "m.oal": "let t = {};\n"},
        "script": [("open", "main.oal", 'use "m.oal";\nres / on get -> <t>;\n'), ("sync", "main.oal"),
                   ("open", "m.oal", "// unsaved buffer\n\nlet t = { 'k num };\n"), ("sync", "main.oal"),
                   ("change", "m.oal", [(R(2, 19, 2, 19), "\nlet other = nope;\n")])],
        "probe": ("main.oal", {"line": 1, "character": 18}),
    },
    "close-the-buffer-that-broke-the-program": {
        "disk": {"main.oal": 'use "m.oal" as m;\nres / on get -> <m.t>;\n', "m.oal": "let t = {};\n"},
        "script": [("open", "main.oal", 'use "m.oal" as m;\nres / on get -> <m.t>;\n'), ("sync", "main.oal"),
                   ("change", "main.oal", [(R(1, 19, 1, 20), "nope")]), ("sync", "main.oal"), ("close", "main.oal")],
        "probe": ("main.oal", {"line": 1, "character": 19}),
    },
    "close-an-import-whose-buffer-had-a-syntax-error": {
        "disk": {"main.oal": 'use "m.oal";\nres / on get -> <t>;\n', "m.oal": "let t = {};\n"},
        "script": [("open", "main.oal", 'use "m.oal";\nres / on get -> <t>;\n'), ("open", "m.oal", "let t = {;\n"), ("sync", "main.oal"), ("close", "m.oal")],
        "probe": ("main.oal", {"line": 1, "character": 18}),
    },
    "delete-an-astral-character-inside-a-line": {
        "disk": {"main.oal": "res / on get -> <{}>;\n"},
        "script": [("open", "main.oal", 'let tag = "ok\U0001F609";\nres / on get -> <status=200, media=tag, {}>;\n'), ("sync", "main.oal"),
                   ("change", "main.oal", [(R(0, 13, 0, 15), "")]), ("sync", "main.oal"),
                   ("change", "main.oal", [(R(0, 11, 0, 13), "\U0001F600\U0001F600"), (R(0, 11, 0, 13), "a")])],
        "probe": ("main.oal", {"line": 1, "character": 35}),
    },
    "edit-of-an-unrelated-document-right-after-a-relevant-edit": {
        "disk": {"main.oal": "let a = num;\nres / on get -> <a>;\n", "notes.oal": "let n = str;\n"},
        "script": [("open", "main.oal", "let a = num;\nres / on get -> <a>;\n"), ("open", "notes.oal", "let n = str;\n"), ("sync", "main.oal"),
                   ("change", "main.oal", [(R(0, 8, 0, 11), "nope")]), ("change", "notes.oal", [(R(0, 8, 0, 11), "int")])],
        "probe": ("main.oal", {"line": 1, "character": 18}),
    },
    "relevant-edit-fixed-while-an-unrelated-document-changes": {
        "disk": {"main.oal": "let a = nope;\nres / on get -> <a>;\n", "notes.oal": "let n = str;\n"},
        "script": [("open", "notes.oal", "let n = str;\n"), ("open", "main.oal", "let a = num;\nres / on get -> <a>;\n"), ("sync", "main.oal"),
                   ("change", "main.oal", [(R(0, 4, 0, 5), "b"), (R(1, 17, 1, 18), "b")]), ("change", "notes.oal", [(None, "let n = {};\n")]), ("change", "notes.oal", [(R(0, 0, 0, 0), "// x\n")])],
        "probe": ("main.oal", {"line": 1, "character": 18}),
    },
    "compile-error-after-a-good-state": {
        "disk": {"main.oal": "res / on get -> <{}>;\n"},
        "script": [("open", "main.oal", "let a = { 'x num };\nlet b = a;\nres /r on get -> <b>;\n"), ("sync", "main.oal"),
                   ("change", "main.oal", [(R(1, 8, 1, 9), "z")])],
        "probe": ("main.oal", {"line": 2, "character": 18}),
    },
    "import-error-after-a-good-state": {
        "disk": {"main.oal": 'use "m.oal" as m;\nlet b = m.t;\nres / on get -> <b>;\n', "m.oal": "let t = {};\n"},
        "script": [("open", "main.oal", 'use "m.oal" as m;\nlet b = m.t;\nres / on get -> <b>;\n'), ("sync", "main.oal"),
                   ("open", "m.oal", "let t = {} & num;\n")],
        "probe": ("main.oal", {"line": 2, "character": 18}),
    },
    # a document's version numbers start again when it is opened again: edits of the second session are edits like any other
    "edit-close-reopen-edit": {
        "disk": {"main.oal": "let a = num;\nlet b = str;\nres / on get -> <{ 'x a }>;\n"},
        "script": [("open", "main.oal", "let a = num;\nlet b = str;\nres / on get -> <{ 'x a }>;\n"), ("sync", "main.oal"),
                   ("change", "main.oal", [(R(0, 0, 0, 0), "// note\n")]), ("change", "main.oal", [(R(0, 0, 1, 0), "")]), ("change", "main.oal", [(R(0, 0, 0, 0), " ")]),
                   ("change", "main.oal", [(R(0, 0, 0, 1), "")]), ("sync", "main.oal"), ("close", "main.oal"),
                   ("open", "main.oal", "let a = num;\nlet b = str;\nres / on get -> <{ 'x a }>;\n"),
                   ("change", "main.oal", [(R(2, 22, 2, 23), "b")]), ("sync", "main.oal"), ("change", "main.oal", [(R(3, 0, 3, 0), "let c = zzz;\n")])],
        "probe": ("main.oal", {"line": 2, "character": 22}),
    },
    "module-error-close-and-reopen": {
        "disk": {"main.oal": 'use "m.oal";\nres / on get -> <t>;\n', "m.oal": "let t = {};\n"},
        "script": [("open", "main.oal", 'use "m.oal";\nres / on get -> <t>;\n'), ("open", "m.oal", "let t = {;\n"), ("sync", "main.oal"),
                   ("change", "m.oal", [(R(0, 8, 0, 10), "{};")]), ("sync", "main.oal"), ("close", "m.oal")],
        "probe": ("main.oal", {"line": 1, "character": 18}),
    },
}


def random_histories(n):
    """Histories drawn with VERIF_SEED over a two-file workspace: opens, incremental edits at valid UTF-16 positions
    (multi-byte characters, CRLF, insertions at the end), closes, interleaved requests. The client-side texts are kept
    with lspdrv.apply_edit; the final texts go to a fresh server."""
    import random
    import lspdrv
    from vcommon import seed as vseed
    rnd = random.Random(7700 + vseed())
    MAINS = ['use "m.oal" as m;\nlet a = m.t;\nres / on get -> <a>;\n', "let a = num; // \U0001F600 é\r\nlet b = [a];\r\nres / on get -> <b>;\r\n",
             'use "m.oal";\nlet w = { \'t t, \'n num };\nres /w on get -> <w> :: <status=404, t>;\n', "let a = { 'x num };\nlet b = a;\nres /r on get -> <b>;"]
    MODS = ["let t = {};\n", "let t = { 'k str }; // 中文\n", "let t = {;\n", "let t = num & {};\n", "// only a comment\r\nlet t = [str];"]
    INS = ["", " ", "x", "é", "\U0001F600", "\n", "\r\n", "let z = str;\n", "nope", "{", "}", ";", "// c\n", "m.", "a"]

    def positions(text):
        out = []
        for li, line in enumerate(text.split("\n")):
            body = line[:-1] if line.endswith("\r") else line
            col = 0
            out.append((li, 0))
            for ch in body:
                col += 2 if ord(ch) > 0xFFFF else 1
                out.append((li, col))
        return out
    hist = {}
    for k in range(n):
        disk = {"main.oal": rnd.choice(MAINS), "m.oal": rnd.choice(MODS)}
        texts, script = {}, []
        for step in range(rnd.randint(3, 8)):
            fn = rnd.choice(["main.oal", "main.oal", "m.oal"])
            if fn not in texts:
                t = rnd.choice(MAINS if fn == "main.oal" else MODS) if rnd.random() < 0.5 else disk[fn]
                texts[fn] = t
                script.append(("open", fn, t))
            else:
                r = rnd.random()
                if r < 0.15:
                    del texts[fn]
                    script.append(("close", fn))
                elif r < 0.25:
                    t = rnd.choice(MAINS if fn == "main.oal" else MODS)
                    texts[fn] = t
                    script.append(("change", fn, [(None, t)]))
                else:
                    changes = []
                    for _ in range(rnd.randint(1, 3)):
                        ps = positions(texts[fn])
                        i = rnd.randrange(len(ps))
                        j = min(len(ps) - 1, i + rnd.choice([0, 0, 1, 2, 5]))
                        rng = R(ps[i][0], ps[i][1], ps[j][0], ps[j][1])
                        new = rnd.choice(INS)
                        texts[fn] = lspdrv.apply_edit(texts[fn], rng, new)
                        changes.append((rng, new))
                    script.append(("change", fn, changes))
            if rnd.random() < 0.5:
                script.append(("sync", "main.oal"))
        if "main.oal" not in texts:
            texts["main.oal"] = disk["main.oal"]
            script.append(("open", "main.oal", disk["main.oal"]))
        ps = positions(texts["main.oal"])
        pr = ps[rnd.randrange(len(ps))]
        hist["drawn-%d-%d" % (vseed(), k)] = {"disk": disk, "script": script, "probe": ("main.oal", {"line": pr[0], "character": pr[1]})}
    return hist


def run_histories(tag="histories"):
    import lspdrv
    binary = lspdrv.build_lsp()
    rdir = new_replay_dir("C15", tag)
    mism, detail = [], {}
    import concurrent.futures as cf

    def one(item):
        name, h = item
        mism, detail = [], {}
        d1, d2 = os.path.join(rdir, name, "history"), os.path.join(rdir, name, "fresh")
        disk = dict(h["disk"])
        disk["oal.toml"] = OAL_TOML
        a = lspdrv.session(binary, d1, disk, h["script"], h["probe"])
        final = a.get("texts", {})
        script2 = [("open", n, t) for n, t in final.items()]
        b = lspdrv.session(binary, d2, disk, script2, h["probe"])

        def norm(x, root):
            return json.loads(json.dumps(x).replace(root, "<root>"))

        da, db = norm(a.get("diags"), d1), norm(b.get("diags"), d2)
        fa, fb = norm(a.get("definition"), d1), norm(b.get("definition"), d2)
        # a fresh server never heard of documents the history server has closed: compare non-empty lists only
        da2 = {k: v for k, v in (da or {}).items() if v}
        db2 = {k: v for k, v in (db or {}).items() if v}
        detail[name] = {"alive": [a.get("alive"), b.get("alive")], "diags_history": da, "diags_fresh": db, "definition_equal": fa == fb,
                        "definition": fa, "final_texts": final}
        if not a.get("alive"):
            mism.append("%s: the history server died (exit %s)" % (name, a.get("exit")))
        if not b.get("alive"):
            mism.append("%s: the fresh server died (exit %s)" % (name, b.get("exit")))
        if da2 != db2:
            mism.append("%s: diagnostics differ: history %s vs fresh %s" % (name, json.dumps(da2)[:200], json.dumps(db2)[:200]))
        if fa != fb:
            mism.append("%s: definition answers differ: %s vs %s" % (name, json.dumps(fa)[:120], json.dumps(fb)[:120]))
        for what in ("references", "prepare", "rename"):
            xa, xb = norm(a.get(what), d1), norm(b.get(what), d2)
            detail[name][what + "_equal"] = xa == xb
            if xa != xb:
                mism.append("%s: %s answers differ: %s vs %s" % (name, what, json.dumps(xa)[:120], json.dumps(xb)[:120]))

        return mism, detail

    hs = dict(HISTORIES)
    hs.update(random_histories(40 if tier() == "thorough" else 4))
    with cf.ThreadPoolExecutor(max_workers=8) as pool_:
        for m_, d_ in pool_.map(one, list(hs.items())):
            mism += m_
            detail.update(d_)
    with open(os.path.join(rdir, "cmd"), "w") as f:
        f.write("#!/bin/sh\ncd /verif && exec ./check C15 --replay %s\n" % rdir)
    return mism, rdir, detail


def check():
    o = Outcome("C15")
    E = mirlib.enums()
    F = Findings()
    thorough = tier() == "thorough"
    k = 5 if thorough else 3
    o.assumptions = ["callees are uninterpreted (Workspace::open/close/change bodies are separate lemmas; HashMap/Vec operations opaque)",
                     "edit ranges are protocol-defined positions with start <= end (a client bug is outside the claim)",
                     "stub Locator in Kani harnesses; byte-level reference conversion is the client model"]
    o.bounds = {"texts": "<= %d Unicode scalar values, every (u32,u32) pair of positions" % k, "MIR": "all paths; loops: one arbitrary iteration from an arbitrary pre-state"}
    o.outside = ["equality with a fresh server's diagnostics and answers over whole histories", "read_file caching of unopened documents",
                 "process liveness in general", "positions inside a surrogate pair / start > end"]
    o.functions = [src_ref("oal-client/src/lsp/unicode.rs", "fn position_to_utf8"), src_ref("oal-client/src/lsp/mod.rs", "pub fn change"),
                   src_ref("oal-client/src/bin/oal-lsp.rs", "fn refresh"), src_ref("oal-client/src/bin/oal-lsp.rs", "fn main_loop")]
    bad = []

    # ---- K --------------------------------------------------------------------------------
    hs = ["h_unicode::c15_edit_offsets_k%d" % k]
    kres = kanirun.decide(o, "kern", hs, lambda h: "src/h_unicode.rs", timeout=900 if not thorough else 3000, findings=F)

    # ---- M --------------------------------------------------------------------------------
    try:
        MB = mirlib.module("oal-lsp")
        ML = mirlib.module("oal-client")
    except Exception as ex:
        o.inconc("MIR dump failed: %s" % str(ex)[-400:])
        return o.finish()
    L = mirlib.Lemma(o)
    S = L.smt

    def on_sat(name, model):
        bad.append(name)

    def structural(name, ok, why=None):
        o.query(name, "mirsym/structural", "unsat" if ok else "violated", 0)
        if not ok:
            bad.append(why or name)
        return ok

    gs = None
    import mirparse as mp
    for f in MB.funcs:
        for b in f.blocks.values():
            ps, pt = mp.stmts_of(b)
            for st in ps:
                if st[0] == "assign" and st[2][0] == "aggr" and st[2][1] == "struct" and st[2][4] and mp.strip_generics(st[2][2]).split("::")[-1] == "GlobalState":
                    gs = list(st[2][4])
    if not gs or "is_stale" not in gs:
        o.inconc("cannot read GlobalState's field order from MIR")
        return o.finish()
    i_stale, i_ws, i_folders = gs.index("is_stale"), gs.index("workspace"), gs.index("folders")

    # (a) notification closures set is_stale on every Ok path, after the workspace operation
    want = {"Workspace::open": 0, "Workspace::close": 0, "Workspace::change": 0, "folders": 0}
    handlers = [(f, ["env", "state", "params"]) for f in MB.find(r"^main_loop::\{closure#\d+\}$") if len(f.args) == 3]
    # a handler may also be a named function handed to the dispatcher instead of a closure: every two-argument
    # function over (&mut GlobalState, params) whose name occurs in main_loop's body
    try:
        f_ml = MB.one(r"^main_loop$")
        body = "\n".join("\n".join(b.stmts) + "\n" + (b.term or "") for b in f_ml.blocks.values() if not b.cleanup)
        for f2 in MB.funcs:
            if f2.kind == "fn" and "{closure" not in f2.name and len(f2.args) == 2 and "GlobalState" in f2.args[0][1] and f2.args[0][1].strip().startswith("&mut") \
                    and "Result<()" in f2.ret and re.search(r"(?<![\w:])%s(?![\w])" % re.escape(f2.short), body) and f2.short not in ("refresh",):
                handlers.append((f2, ["state", "params"]))
    except Exception as exn:
        o.inconc("main_loop: cannot enumerate notification handlers (%s)" % str(exn)[:80])
    for f, names in handlers:
        ex = mirlib.executor([MB])
        outs = ex.run(f, arg_names=names)
        mirlib.check_translator(o, ex, f.short)
        for p in outs:
            if p.kind != "return":
                continue
            cond = S.pc(p.pc)
            v, _ = S.check("closure Ok path", cond + [S.i(ms.disc_of(p.ret, E)) == 0])
            if v != "sat":
                continue
            stores = [e for e in p.events if e[0] == "store" and e[1] == ("sym", "state") and e[2] == (("f", i_stale),)]
            ops = [e for e in p.calls() if e[1] in ("Workspace::open", "Workspace::close", "Workspace::change")]
            fold = [e for e in p.calls() if e[1] in ("HashMap::remove", "HashMap::insert")] or [e for e in p.events if e[0] == "loop"]
            label = ops[0][1] if ops else ("folders" if fold else None)
            if label is None:
                structural("%s: notification handler touches the workspace or the folders" % f.short, False)
                continue
            want[label] += 1
            okp = len(stores) >= 1 and stores[-1][3] == ms.TRUE
            structural("%s (%s): is_stale := true on the Ok path" % (f.short, label), okp)
            if ops and stores:
                structural("%s (%s): is_stale is set after the workspace operation, on the same parameters" % (f.short, label),
                           p.events.index(stores[-1]) > p.events.index(ops[0]) and ops[0][2][1] == ("sym", "params") and
                           ops[0][2][0] == ("addr", ms.proj(("deref", ("sym", "state")), ("f", i_ws), E)))
                L.expect_unsat("%s (%s): Ok => the workspace operation returned Ok" % (f.short, label),
                               cond + [S.i(ms.disc_of(p.ret, E)) == 0, S.i(ms.disc_of(ops[0][3], E)) != 0], on_sat)
    for kk, n in want.items():
        if n == 0:
            o.inconc("no notification closure found for %s (vacuous)" % kk)

    # (b) request arm: refresh before the dispatcher (one iteration of main_loop)
    try:
        f_loop = MB.one(r"^main_loop$")
        ex = mirlib.executor([MB], max_paths=4000)
        outs = ex.run(f_loop, arg_names=["state"])
        mirlib.check_translator(o, ex, "main_loop")
        nreq = 0
        for p in outs:
            disp = [e for e in p.calls() if e[1] == "RequestDispatcher::new"]
            if not disp:
                continue
            nreq += 1
            rf = [e for e in p.calls("refresh") if p.events.index(e) < p.events.index(disp[0])]
            if not structural("main_loop: refresh(state) precedes the request dispatcher", len(rf) >= 1):
                continue
            L.expect_unsat("main_loop: the dispatcher runs only after refresh returned Ok", S.pc(p.pc) + [S.i(ms.disc_of(rf[-1][3], E)) != 0], on_sat)
        if nreq == 0:
            o.inconc("main_loop: no path reaches the request dispatcher (vacuous)")
        idle = [p for p in outs if p.calls("refresh") and not [e for e in p.calls() if e[1] == "RequestDispatcher::new"]]
        structural("main_loop: refresh also runs on the idle branch", len(idle) >= 1)
    except KeyError as e:
        o.inconc(str(e))

    # (c) refresh
    try:
        f_ref = MB.one(r"^refresh$")
        ex = mirlib.executor([MB])
        outs = ex.run(f_ref, arg_names=["state"])
        mirlib.check_translator(o, ex, "refresh")
        stale = ms.proj(("deref", ("sym", "state")), ("f", i_stale), E)
        n_idle = n_eval = n_pub = 0
        for p in outs:
            cond = S.pc(p.pc)
            v, _ = S.check("refresh: not stale", cond + [z3.Not(S.b(stale))])
            if v == "sat":
                n_idle += 1
                structural("refresh: nothing happens when the state is not stale",
                           p.kind == "return" and not p.calls() and not [e for e in p.events if e[0] == "store"] and p.ret[0] == "variant" and p.ret[2] == "Ok")
                continue
            stores = [e for e in p.events if e[0] == "store" and e[1] == ("sym", "state") and e[2] == (("f", i_stale),)]
            loops = [e for e in p.events if e[0] == "loop"]
            okc = len(stores) == 1 and stores[0][3] == ms.FALSE and (not loops or p.events.index(stores[0]) < p.events.index(loops[0]))
            structural("refresh: clears is_stale before re-evaluating", okc)
            ev = p.calls("Folder::eval")
            dg = p.calls("Workspace::diagnostics")
            if ev:
                n_eval += 1
                ws = ("addr", ms.proj(("deref", ("sym", "state")), ("f", i_ws), E))
                structural("refresh: each folder is re-evaluated against the workspace", ev[0][2][1][0] == "addr" and not dg)
            sends = [e for e in p.calls() if e[1].endswith("Sender::send")]
            if sends:
                n_pub += 1
                okp = len(dg) == 1 and p.events.index(dg[0]) < p.events.index(sends[0]) and \
                    any(t[0] == "aggr" and str(t[1]).endswith("PublishDiagnosticsParams") for t in ms.subterms(sends[0][2][1]))
                structural("refresh: one PublishDiagnostics per entry of workspace.diagnostics(), after all folders were evaluated", okp)
                nx = [e for e in p.calls() if e[1].endswith("Iterator::next")][-1]
                entry = ms.proj(ms.proj(nx[3], ("v", "Some"), E), ("f", 0), E)
                structural("refresh: the published list is the entry's own diagnostics",
                           any(t == ms.proj(entry, ("f", 1), E) for t in ms.subterms(sends[0][2][1])))
        if n_idle != 1 or n_eval < 1 or n_pub < 1:
            o.inconc("refresh: unexpected shape (idle=%d eval=%d publish=%d)" % (n_idle, n_eval, n_pub))
    except KeyError as e:
        o.inconc(str(e))

    # (d) Workspace::change, one change event from an arbitrary text
    try:
        f_chg = ML.one(r"lsp::<impl[^>]*>::change$")
        f_dia = ML.one(r"lsp::<impl[^>]*>::diagnostics$")
        f_opn = ML.one(r"lsp::<impl[^>]*>::open$")
        f_cls = ML.one(r"lsp::<impl[^>]*>::close$")
        o.functions.extend(mirlib.func_ref(f, "oal-client") for f in (f_chg, f_dia, f_opn, f_cls))
        ex = mirlib.executor([ML])
        outs = ex.run(f_chg, arg_names=["self", "p"])
        mirlib.check_translator(o, ex, "Workspace::change")
        n_rng = n_full = 0
        for p in outs:
            if p.kind != "backedge":
                continue
            # the changes of one notification are applied in the order they were sent
            pre = []
            for e in p.events:
                if e[0] == "loop":
                    break
                if e[0] == "call":
                    pre.append(e)
            chain = [e for e in pre if any(t == ("sym", "p") for a in e[2] for t in ms.subterms(a)) and not e[1].startswith(("Locator", "HashMap"))]
            nxt = [e for e in p.calls() if e[1].endswith("Iterator::next")]
            okord = bool(chain) and all(e[1].endswith("IntoIterator::into_iter") for e in chain) and len(nxt) == 1 and nxt[0][1].startswith("IntoIter.")
            structural("Workspace::change: content changes are consumed front to back (plain into_iter, no reordering adaptor)", okord,
                       "Workspace::change iterates the content changes through %s" % [e[1] for e in chain])
            gm = p.calls("HashMap::get_mut")
            nx = [e for e in p.calls() if e[1].endswith("Iterator::next")]
            if len(gm) != 1 or len(nx) != 1:
                structural("Workspace::change: one document lookup, one change per iteration", False)
                continue
            text = ms.proj(ms.proj(gm[0][3], ("v", "Some"), E), ("f", 0), E)
            chg = ms.proj(ms.proj(nx[0][3], ("v", "Some"), E), ("f", 0), E)
            names = change_fields(ML)
            if not names:
                o.inconc("cannot read TextDocumentContentChangeEvent's field order")
                break
            rng = ms.proj(chg, ("f", names.index("range")), E)
            new = ms.proj(chg, ("f", names.index("text")), E)
            cond = S.pc(p.pc)
            p2u = p.calls("position_to_utf8")
            rr = [e for e in p.calls() if e[1] == "String::replace_range"]
            if rr:
                n_rng += 1
                L.expect_unsat("Workspace::change: replace_range only for a ranged change", cond + [S.i(ms.disc_of(rng, E)) != 1], on_sat)
                r0 = ms.proj(ms.proj(rng, ("v", "Some"), E), ("f", 0), E)
                okp = len(p2u) == 2 and p2u[0][2][0] == p2u[1][2][0] and text in list(ms.subterms(p2u[0][2][0])) and \
                    p2u[0][2][1] == ms.proj(r0, ("f", 0), E) and p2u[1][2][1] == ms.proj(r0, ("f", 1), E)
                structural("Workspace::change: start and end are converted on the same (current) text, from range.start / range.end", okp)
                rg = rr[0][2][1]
                okr = len(rr) == 1 and rr[0][2][0] == text and len(p2u) == 2 and rg[0] == "aggr" and rg[2] == (p2u[0][3], p2u[1][3]) and \
                    new in list(ms.subterms(rr[0][2][2]))
                structural("Workspace::change: replace_range(start..end, change.text) on the stored document", okr)
            else:
                n_full += 1
                L.expect_unsat("Workspace::change: whole-text replacement only without a range", cond + [S.i(ms.disc_of(rng, E)) != 0], on_sat)
                st = [e for e in p.events if e[0] == "store" and e[1] == text]
                structural("Workspace::change: without a range the stored text becomes change.text", len(st) == 1 and st[0][3] == new and st[0][2] == ())
        if n_rng < 1 or n_full < 1:
            o.inconc("Workspace::change loop body: expected a ranged and a full path (%d/%d)" % (n_rng, n_full))
        # (e) diagnostics(): reset for all known documents, errors taken
        ex = mirlib.executor([ML])
        outs = ex.run(f_dia, arg_names=["self"])
        mirlib.check_translator(o, ex, "Workspace::diagnostics")
        docs = ("addr", ms.proj(("deref", ("sym", "self")), ("f", 0), E))
        okk = okt = False
        for p in outs:
            ks = [e for e in p.calls() if e[1] == "HashMap::keys"]
            tk = [e for e in p.calls() if e[1] == "Option::take"]
            col = [e for e in p.calls() if e[1].endswith("Iterator::collect")]
            if ks and ks[0][2] == (docs,) and col and any(t == ks[0][3] for t in ms.subterms(col[0][2][0])):
                okk = True
            if tk:
                okt = True
        structural("Workspace::diagnostics: starts from an entry for every known document", okk)
        structural("Workspace::diagnostics: takes (resets) the accumulated errors", okt)
        for cf in ML.find(r"lsp::<impl[^>]*>::diagnostics::\{closure#0\}$"):
            exc = mirlib.executor([ML])
            for p in exc.run(cf):
                if p.kind == "return":
                    structural("Workspace::diagnostics: the initial entry of a document is the empty list",
                               ms.proj(p.ret, ("f", 1), E)[0] == "app" and "Default::default" in ms.proj(p.ret, ("f", 1), E)[1])
        store_lemmas(o, ML, E, structural, (f_opn, f_cls))
        diagnostics_loop_lemma(o, ML, E, structural)
    except KeyError as e:
        o.inconc(str(e))

    # every file the server reads from disk becomes a known document (diagnostics() resets exactly the known documents,
    # so a file that is read but not remembered would keep its stale diagnostics for ever)
    try:
        f_rf = ML.sel("lsp", "read_file", arg0=r"&mut (lsp::)?Workspace")
        exr = mirlib.executor([ML])
        n_disk = 0
        for p in exr.run(f_rf, arg_names=["self", "loc"]):
            if p.kind != "return" or not ms.show(p.ret).startswith("Result::Ok"):
                continue
            disk = [e for e in p.calls() if e[1].endswith("FileSystem::read_file")]
            if disk:
                n_disk += 1
                ins = [e for e in p.calls() if e[1] in ("VacantEntry::insert", "HashMap::insert", "Entry::or_insert", "Entry::or_insert_with")]
                okr = len(ins) == 1 and any(t == ms.proj(ms.proj(disk[0][3], ("v", "Ok"), E), ("f", 0), E) for a in ins[0][2] for t in ms.subterms(a))
                structural("Workspace::read_file: a text read from disk is remembered as a known document", okr)
            else:
                structural("Workspace::read_file: a known document is answered from the server's own copy", any(e[1] in ("OccupiedEntry::get", "HashMap::get") for e in p.calls()))
        if n_disk == 0:
            o.inconc("Workspace::read_file: no path reads from disk")
    except KeyError as e:
        o.inconc(str(e)[:160])

    # Folder::eval: what the request handlers answer from (the module set, the spec) is rebuilt from nothing on every
    # evaluation - on every path both fields are overwritten, with None or with what this very evaluation loaded
    try:
        f_fe = ML.sel("lsp", "eval", arg0=r"&mut .*Folder")
        o.functions.append(mirlib.func_ref(f_fe, "oal-client"))
        srcm = open(os.path.join(REPO, "oal-client/src/lsp/mod.rs")).read()
        mfo = re.search(r"pub struct Folder\s*\{(.*?)\n\}", srcm, re.S)
        ffo = re.findall(r"^\s*(?:pub(?:\(\w+\))?\s+)?(\w+)\s*:", mfo.group(1), re.M) if mfo else []
        state_fields = [k for k, n in enumerate(ffo) if n != "config"]
        exf = mirlib.executor([ML])
        n_ret, okf = 0, bool(state_fields)
        for p in exf.run(f_fe, arg_names=["self", "ws"]):
            if p.kind != "return":
                continue
            n_ret += 1
            for k in state_fields:
                st = [e for e in p.events if e[0] == "store" and e[1] == ("sym", "self") and e[2][:1] == (("f", k),)]
                old = ("fld", ("deref", ("sym", "self")), k)
                if not st or any(t == old for t in ms.subterms(st[-1][3])):
                    okf = False
                elif st[-1][3] != ("variant", "Option", "None", ()):
                    # a value: it comes out of this evaluation's load / eval
                    if not any(t[0] == "app" and t[1] in ("Workspace::load", "Workspace::eval") for t in ms.subterms(st[-1][3])):
                        okf = False
        mirlib.check_translator(o, exf, "Folder::eval")
        structural("Folder::eval: on every path the module set and the spec are overwritten - with nothing, or with what this evaluation loaded (%s)" % ", ".join(ffo[k] for k in state_fields), okf and n_ret >= 3)
    except Exception as e:
        o.inconc("Folder::eval: %s" % str(e)[:160])

    o.samples = [{"harness": h, "verdict": r["verdict"], "covers": r["covers"]} for h, r in kres.items()] + \
                [{"query": q["name"], "verdict": q["verdict"]} for q in o.queries if q["engine"].startswith("mirsym")][:10]
    kani_failed = [h for h, r in kres.items() if r["verdict"] == "FAILED"]
    if True:   # the real-binary oracle always runs (replay of a failing lemma, or translator validation); histories in parallel
        mism, rdir, detail = run_histories()
        o.extra["real_lsp_histories"] = detail
        if bad:
            if mism:
                o.violation("server state depends on history; lemma(s): %s; real oal-lsp: %s" % ("; ".join(bad[:3]), "; ".join(mism[:3])), rdir)
            else:
                o.inconc("UNCONFIRMED: lemma(s) fail (%s) but history and fresh oal-lsp servers agree on all %d scripted histories" % ("; ".join(bad[:3]), len(detail)))
        elif mism and not kani_failed:
            o.oracle_only("real oal-lsp history/fresh servers disagree (%s) although every lemma holds" % mism[:2], rdir)
        elif mism:
            o.extra["public_api_confirmation"] = mism[:4]
    return o.finish()


_cf = {}


def store_lemmas(o, ML, E, structural, fs=None):
    """open / close keep the document store in step with what the client announced (shared with C13: "the same sources" of the
    language server are the open buffers over the files on disk - a closed document is the file again)."""
    if fs is None:
        fs = (ML.one(r"lsp::<impl[^>]*>::open$"), ML.one(r"lsp::<impl[^>]*>::close$"))
        o.functions.extend(mirlib.func_ref(f, "oal-client") for f in fs)
    f_opn, f_cls = fs
    docs = ("addr", ms.proj(("deref", ("sym", "self")), ("f", 0), E))
    ex = mirlib.executor([ML])
    for p in ex.run(f_opn, arg_names=["self", "p"]):
        if p.kind == "return":
            ins = [e for e in p.calls() if e[1] == "HashMap::insert"]
            structural("Workspace::open: stores the announced text under the document's locator",
                       len(ins) == 1 and ins[0][2][0] == docs and any(t[0] == "fld" for t in ms.subterms(ins[0][2][2])))
    ex = mirlib.executor([ML])
    n = 0
    for p in ex.run(f_cls, arg_names=["self", "p"]):
        if p.kind == "return":
            n += 1
            rm = [e for e in p.calls() if e[1] == "HashMap::remove"]
            structural("Workspace::close: forgets the document (on every path)", len(rm) == 1 and rm[0][2][0] == docs)
    if n == 0:
        o.inconc("Workspace::close: no returning path")


def diagnostics_loop_lemma(o, ML, E, structural):
    """Every accumulated error becomes a published diagnostic: the errors taken by diagnostics() are consumed by a plain into_iter
    (no adaptor that drops some), and one arbitrary iteration of that loop turns the error it was offered into a diagnostic and
    files it under the error's own document (shared with C13: 'at least one diagnostic exactly when they fail')."""
    f_dia = ML.one(r"lsp::<impl[^>]*>::diagnostics$")
    ex = mirlib.executor([ML])
    n = 0
    ok_iter = ok_body = True
    for p in ex.run(f_dia, arg_names=["self"]):
        if p.kind != "backedge":
            continue
        loops = [i for i, e in enumerate(p.events) if e[0] == "loop"]
        tk = [e for e in p.calls() if e[1] == "Option::take"]
        if not tk or not loops:
            continue                  # the first loop (the reset of known documents)
        n += 1
        pre = [e for e in p.events[:loops[-1]] if e[0] == "call"]
        chain = [e for e in pre if any(t == tk[0][3] for a in e[2] for t in ms.subterms(a))]
        tail = [e for e in p.events[loops[-1] + 1:] if e[0] == "call"]
        nx = [e for e in tail if e[1].endswith("Iterator::next")]
        ok_iter = ok_iter and bool(chain) and all(re.search(r"(unwrap_or_default|unwrap_or|unwrap_or_else|IntoIterator::into_iter)$", e[1]) for e in chain) and \
            len(nx) == 1 and nx[0][1].startswith("IntoIter.")
        if len(nx) != 1:
            ok_body = False
            continue
        item = ms.proj(ms.proj(nx[0][3], ("v", "Some"), E), ("f", 0), E)
        dg = [e for e in tail if e[1] == "Workspace::diagnostic" and any(t == item for a in e[2] for t in ms.subterms(a))]
        filed = [e for e in tail if e[1] in ("Vec::push", "VacantEntry::insert", "HashMap::insert", "Entry::or_insert", "Entry::or_default", "Entry::or_insert_with")]
        ok_body = ok_body and len(dg) == 1 and len(filed) >= 1
    structural("Workspace::diagnostics: the accumulated errors are consumed by a plain into_iter (no adaptor that drops some)", ok_iter and n >= 1,
               "Workspace::diagnostics does not go through every accumulated error")
    structural("Workspace::diagnostics: one iteration turns the error it was offered into a diagnostic and files it", ok_body and n >= 1,
               "Workspace::diagnostics: an iteration over the errors files no diagnostic for its error")


def change_fields(ML):
    """Field order of lsp_types::TextDocumentContentChangeEvent from its use in change()."""
    if "v" in _cf:
        return _cf["v"]
    # the struct is third-party: take the order from the place projections in Workspace::change
    res = None
    f = ML.one(r"lsp::<impl[^>]*>::change$")
    idx = {}
    for b in f.blocks.values():
        for s in b.stmts + ([b.term] if b.term else []):
            for m in re.finditer(r"\.(\d+): (std::option::Option<lsp_types::Range>|std::string::String)\)", s):
                idx[m.group(2)] = int(m.group(1))
    if "std::option::Option<lsp_types::Range>" in idx and "std::string::String" in idx:
        n = max(idx.values()) + 1
        res = ["?"] * max(n, 3)
        res[idx["std::option::Option<lsp_types::Range>"]] = "range"
        res[idx["std::string::String"]] = "text"
    _cf["v"] = res
    return res


def replay(path):
    if os.path.exists(os.path.join(path, "meta.json")):
        return kanirun.replay_saved(path)
    mism, rdir, detail = run_histories()
    print(json.dumps(detail, indent=1)[:4000])
    print("mismatches:", mism)
    return 1 if mism else 0
