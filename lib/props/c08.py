"""C08 - identifiers bind lexically and evaluation honours the same binding (partial).

Engine M + z3:
 * `Env::lookup` and `Context::lookup_binding` are iterator pipelines; lib/iterchain.py gives the
   adaptors their library meaning over a symbolic scope stack of bounded height and runs the real
   closure bodies; z3 decides that the result equals the innermost-first reference lookup for every
   stack of <= N scopes and every pattern of hits/misses (N = 4 quick, 6 thorough);
 * step lemmas for the scope discipline of the resolver (`Env::{new,open,close,declare}`,
   `define_variable`, `declare_variable`, `declare_import`, `open/close_declaration`,
   `open/close_recursion`, the dispatch of `resolve`) and of the evaluator (`push_scope`, `pop_scope`,
   `eval_application`, `eval_recursion`, `eval_binding`).
Replay oracle: shadowing programs through the real oal-lsp (definition of every use = the annotated
binder) and through the real oal-cli (the emitted schema shows which binding a use evaluated to).
"""
import os
import re

import iterchain
import mirlib
import mirparse as mp
import mirsym as ms
import z3
from vcommon import Outcome, Findings, build_cli, run_cli, new_replay_dir, tier, crashed

# programs whose emitted document tells which binding an identifier evaluated to:
# (source files, [(json-pointer-ish path into the YAML, expected value)], expected exit code)
EVAL_PROGRAMS = {
    "callee-sees-global-not-callers-parameter": (
        {"main.oal": "let x = str;\nlet f y = { 'a x, 'b y };\nlet g x = f x;\nres / on get -> <g num>;\n"},
        [("paths./.get.responses.default.content.application/json.schema.properties.a.type", "string"),
         ("paths./.get.responses.default.content.application/json.schema.properties.b.type", "number")], 0),
    "parameter-shadows-declaration": (
        {"main.oal": "let x = str;\nlet g x = [x];\nres / on get -> <g num> :: <status=404, [x]>;\n"},
        [("paths./.get.responses.default.content.application/json.schema.items.type", "number"),
         ("paths./.get.responses.404.content.application/json.schema.items.type", "string")], 0),
    "rec-binder-shadows-parameter-and-declaration": (
        {"main.oal": "let x = bool;\nlet t x = { 'v x, 'k rec x { 'n num, 'next? x } };\nres / on get -> <t str>;\n"},
        [("paths./.get.responses.default.content.application/json.schema.properties.v.type", "string"),
         ("paths./.get.responses.default.content.application/json.schema.properties.k.$ref", "~#/components/schemas/hash-")], 0),
    # three live scopes: the global one, the parameters, the rec binder - a use inside the rec body of a name bound
    # by a parameter and, further out, by a declaration
    "parameter-used-inside-a-rec-body-shadows-a-declaration": (
        {"main.oal": "let item = bool;\nlet wrap item = { 'w rec node { 'value item, 'next? node } };\nres /things on get -> <wrap str>;\n"},
        [("paths./things.get.responses.default.content.application/json.schema.properties.w.$ref", "~#/components/schemas/hash-"),
         ("components.schemas.*.properties.value.type", "string")], 0),
    "parameter-and-outer-rec-binder-used-inside-an-inner-rec": (
        {"main.oal": "let x = bool;\nlet t x = { 'o rec y { 'i rec z { 'px x, 'py? y, 'pz? z } } };\nres / on get -> <t int>;\n"}, [], 0),
    # two parameters of one name: the use denotes the one that evaluation binds last - resolution and evaluation agree
    "two-parameters-of-the-same-name": (
        {"main.oal": "let f x x = { 'v x };\nres /a on get -> <f \"not a schema\" str>;\n"},
        [("paths./a.get.responses.default.content.application/json.schema.properties.v.type", "string")], None),   # or rejected as a duplicate binder
    # a qualified name its module does not provide has no binder - whatever the bare name denotes nearby
    "qualified-name-the-module-lacks-next-to-a-parameter-of-that-name": (
        {"main.oal": 'use "shapes.oal" as s;\nlet secret = { \'token str };\nlet wrap v = { \'inner s.v };\nres /w on get -> <wrap secret>;\n', "shapes.oal": "let point = { 'x int };\n"}, [], 1),
    "qualified-name-the-module-lacks-next-to-a-declaration-of-that-name": (
        {"main.oal": 'use "shapes.oal" as s;\nlet point2 = { \'p num };\nres /w on get -> <s.point2>;\n', "shapes.oal": "let point = { 'x int };\n"}, [], 1),
    "qualifier-that-is-no-import": (
        {"main.oal": "let v = { 'p num };\nres /w on get -> <nowhere.v>;\n"}, [], 1),
    # one module imported twice, bare and under a qualifier (either order), and under two qualifiers: every import brings its own names
    "one-module-imported-bare-and-qualified": (
        {"main.oal": 'use "lib.oal";\nuse "lib.oal" as lib;\nres / on get -> <{ \'a item, \'b lib.item }>;\n', "lib.oal": "let item = int;\n"},
        [("paths./.get.responses.default.content.application/json.schema.properties.a.type", "integer"),
         ("paths./.get.responses.default.content.application/json.schema.properties.b.type", "integer")], 0),
    "one-module-imported-qualified-and-bare": (
        {"main.oal": 'use "lib.oal" as lib;\nuse "./lib.oal";\nres / on get -> <{ \'a item, \'b lib.item }>;\n', "lib.oal": "let item = str;\n"},
        [("paths./.get.responses.default.content.application/json.schema.properties.a.type", "string"),
         ("paths./.get.responses.default.content.application/json.schema.properties.b.type", "string")], 0),
    "one-module-imported-under-two-qualifiers": (
        {"main.oal": 'use "lib.oal" as p;\nuse "lib.oal" as q;\nres / on get -> <{ \'a p.item, \'b q.item }>;\n', "lib.oal": "let item = bool;\n"},
        [("paths./.get.responses.default.content.application/json.schema.properties.a.type", "boolean"),
         ("paths./.get.responses.default.content.application/json.schema.properties.b.type", "boolean")], 0),
    "declaration-order-is-irrelevant": (
        {"main.oal": "res / on get -> <a>;\nlet a = { 'b b };\nlet b = int;\n"},
        [("paths./.get.responses.default.content.application/json.schema.properties.b.type", "integer")], 0),
    "qualified-and-unqualified-imports": (
        {"main.oal": 'use "m.oal";\nuse "n.oal" as q;\nlet f t = { \'p t, \'q q.t };\nres / on get -> <f bool> :: <status=404, { \'m t }>;\n',
         "m.oal": "let t = str;\n", "n.oal": "let t = int;\n"},
        [("paths./.get.responses.default.content.application/json.schema.properties.p.type", "boolean"),
         ("paths./.get.responses.default.content.application/json.schema.properties.q.type", "integer"),
         ("paths./.get.responses.404.content.application/json.schema.properties.m.type", "string")], 0),
    "same-parameter-name-in-nested-calls": (
        {"main.oal": "let inner x = { 'i x };\nlet outer x = { 'o x, 'in inner num };\nres / on get -> <outer str>;\n"},
        [("paths./.get.responses.default.content.application/json.schema.properties.o.type", "string"),
         ("paths./.get.responses.default.content.application/json.schema.properties.in.properties.i.type", "number")], 0),
    "forwarded-parameters-with-clashing-names": (
        {"main.oal": "let pair x y = { 'first x, 'second y };\nlet wrap x = pair int x;\nlet flip y x = pair y x;\nlet tagged x = pair uri x;\n"
                     "res / on get -> <wrap str> :: <status=404, flip bool num> :: <status=500, tagged int>;\n"},
        [("paths./.get.responses.default.content.application/json.schema.properties.first.type", "integer"),
         ("paths./.get.responses.default.content.application/json.schema.properties.second.type", "string"),
         ("paths./.get.responses.404.content.application/json.schema.properties.first.type", "boolean"),
         ("paths./.get.responses.404.content.application/json.schema.properties.second.type", "number"),
         ("paths./.get.responses.500.content.application/json.schema.properties.first.format", "uri-reference"),
         ("paths./.get.responses.500.content.application/json.schema.properties.second.type", "integer")], 0),
    "clashing-names-of-different-kinds": (
        {"main.oal": "let entry k v = { k, 'value v };\nlet tagged k = entry ('tag str) k;\nres /items on get -> <tagged num>;\n"},
        [("paths./items.get.responses.default.content.application/json.schema.properties.tag.type", "string"),
         ("paths./items.get.responses.default.content.application/json.schema.properties.value.type", "number")], 0),
    "rec-binder-forwarded-into-a-function-with-the-same-parameter-name": (
        {"main.oal": "let both a r = { 'a a, 'r r };\nlet t = rec a { 'next? a, 'pair both num a };\nres / on get -> <t>;\n"},
        [("paths./.get.responses.default.content.application/json.schema.$ref", "~#/components/schemas/hash-")], 0),
    "unbound-identifier-is-an-error": ({"main.oal": "let a = { 'b nope };\nres / on get -> <a>;\n"}, [], 1),
    "unbound-qualified-identifier-is-an-error": ({"main.oal": 'use "m.oal" as m;\nres / on get -> <m.nope>;\n', "m.oal": "let t = str;\n"}, [], 1),
    "parameter-is-not-visible-outside-its-function": ({"main.oal": "let f x = [x];\nlet a = x;\nres / on get -> <f a>;\n"}, [], 1),
    "rec-binder-is-not-visible-outside-the-rec": ({"main.oal": "let a = { 'r rec z { 'n? z }, 'o z };\nres / on get -> <a>;\n"}, [], 1),
    "duplicate-declaration-is-an-error": ({"main.oal": "let a = num;\nlet a = str;\nres / on get -> <a>;\n"}, [], 1),
}
# the statement puts declarations before imports and built-ins; today they share one scope
# a declaration written *before* an unqualified import of the same name: either the clash is reported (today) or the
# declaration wins (the statement's order); the import must never silently replace it
DECL_BEFORE_IMPORT = {"main.oal": "let item = { 'local str };\nuse \"lib.oal\";\nres / on get -> <item>;\n", "lib.oal": "let item = { 'imported num };\n"}
SHADOW_OUTER = {
    "declaration-named-like-a-built-in": {"main.oal": "let concat = num;\nres / on get -> <concat>;\n"},
    "declaration-named-like-an-unqualified-import": {"main.oal": 'use "m.oal";\nlet t = num;\nres / on get -> <t>;\n', "m.oal": "let t = str;\n"},
}


def lookup_path(doc, path):
    cur = doc
    for seg in re.split(r"(?<!/)\.(?!oal)", path):
        seg = seg.replace("application/json", "application/json")
        if isinstance(cur, dict) and seg in cur:
            cur = cur[seg]
        else:
            return None
    return cur


def split_path(path):
    # segments are separated by '.', except that 'application/json' style keys contain no dot
    return path.split(".")


def run_eval_programs(rdir):
    cli = build_cli()
    probs, detail = [], {}
    for name, (files, expects, want_rc) in EVAL_PROGRAMS.items():
        r = run_cli(cli, files, workdir=os.path.join(rdir, name), timeout=30)
        detail[name] = {"rc": r["rc"]}
        if crashed(r):
            probs.append("%s: oal-cli dies (exit %s)" % (name, r["rc"]))
            continue
        if want_rc is None and r["rc"] in (0, 1):
            want_rc = r["rc"]          # either verdict is within the statement; the facts apply to an accepted program
        if r["rc"] != want_rc:
            probs.append("%s: exit %s, the statement demands %s" % (name, r["rc"], "acceptance" if want_rc == 0 else "an error"))
            continue
        if want_rc == 0:
            try:
                doc = mirlib.yaml_to_obj(r["target"] or "")
            except Exception as ex:
                probs.append("%s: output is not YAML (%s)" % (name, str(ex)[:60]))
                continue
            for path, want in expects:
                cur = doc
                for seg in split_path(path):
                    if seg == "*":          # the only entry (a generated component name)
                        cur = list(cur.values())[0] if isinstance(cur, dict) and len(cur) == 1 else None
                        continue
                    cur = cur.get(seg) if isinstance(cur, dict) else None
                got = cur
                ok = (isinstance(got, str) and got.startswith(want[1:])) if isinstance(want, str) and want.startswith("~") else got == want
                if not ok:
                    probs.append("%s: %s is %r, the binder in scope gives %r" % (name, path, got, want))
    return probs, detail


def declare_import_lemma(o, M, E, f_declimp, structural):
    """declare_import: what an import brings into scope comes from the module its path names *relative to the importing
    module* (shared with C05 and C17: moving declarations into a module of another directory must not change what they
    denote)."""
    ex = mirlib.executor([M])
    n_imp = 0
    names_ = []
    for _, ty in f_declimp.args:
        names_.append("env" if "Env" in ty else "mods" if "ModuleSet" in ty else "loc" if "Locator" in ty else "import" if "Import" in ty else "a%d" % len(names_))
    for p in ex.run(f_declimp, arg_names=names_):
        if p.kind != "backedge":
            continue
        dc = [e for e in p.calls() if e[1] == "Env::declare"]
        if not dc:
            continue
        n_imp += 1
        nx = [e for e in p.calls() if e[1].endswith("Iterator::next")]
        decl = ms.proj(ms.proj(nx[-1][3], ("v", "Some"), E), ("f", 0), E)
        en = [e for e in p.calls() if e[1] == "Entry::new"]
        okq = len(dc) == 1 and len(en) == 1 and "Declaration::ident" in ms.show(en[0][2][0]) and any(t == decl for t in ms.subterms(en[0][2][0])) and \
            ms.show(en[0][2][1]) == "Import::qualifier(&import)" and any(t == en[0][3] for t in ms.subterms(dc[0][2][1])) and \
            "External::new(Declaration.AbstractSyntaxNode::node" in ms.show(dc[0][2][2]) and any(t == decl for t in ms.subterms(dc[0][2][2]))
        structural("declare_import: each declaration of the imported module is declared under (its identifier, the import's qualifier) as that declaration's node", okq)
        gm = [e for e in p.calls() if e[1] == "ModuleSet::get"]
        jn = [e for e in p.calls() if e[1] == "Locator::join"]
        okm = len(gm) == 1 and len(jn) == 1 and jn[0][2][0] == ("sym", "loc") and "Import::module(&import)" in ms.show(jn[0][2][1]) and \
            any(t == jn[0][3] for t in ms.subterms(gm[0][2][1]))
        structural("declare_import: the declarations come from the module the import path names, relative to the importing module", okm)
    if n_imp == 0:
        o.inconc("declare_import: no iteration declares anything")
    mirlib.check_translator(o, ex, "declare_import")


def application_lemmas(o, M, E, f_app, structural):
    """eval_application: arguments are evaluated in the caller's context and bound positionally; the body runs in the
    new scope, which is popped afterwards (shared with C05: single-use functions and renaming are free only then)."""
    ex = mirlib.executor([M], max_paths=6000)
    n_body = n_arg = 0
    for p in ex.run(f_app, arg_names=["ctx", "app", "ann"]):
        calls = p.calls()
        names = [e[1] for e in calls]
        if p.kind == "backedge" and "HashMap::insert" in names:
            n_arg += 1
            ins = [e for e in calls if e[1] == "HashMap::insert"][-1]
            et = [e for e in calls if e[1] == "eval_terminal"]
            nx = [e for e in calls if e[1].endswith("Iterator::next")][-1]
            pair = ms.proj(ms.proj(nx[3], ("v", "Some"), E), ("f", 0), E)
            okz = len(et) == 1 and et[0][2][0] == ("sym", "ctx") and any(t == ms.proj(pair, ("f", 1), E) for t in ms.subterms(et[0][2][1])) and \
                "Binding::ident" in ms.show(ins[2][1]) and any(t == ms.proj(pair, ("f", 0), E) for t in ms.subterms(ins[2][1])) and \
                any(t == et[0][3] for t in ms.subterms(ins[2][2])) and "Context::push_scope" not in names
            structural("eval_application: each argument is evaluated in the caller's context (before any scope is pushed) and bound to the parameter at the same position", okz)
            zp = [e for e in calls if e[1].endswith("Iterator::zip")]
            structural("eval_application: parameters and arguments are paired in order (bindings zipped with arguments)",
                       len(zp) == 1 and "Declaration::bindings" in ms.show(zp[0][2][0]) and ms.show(zp[0][2][1]) == "Application::arguments(&app)")
        if p.kind == "return" and "Context::push_scope" in names:
            ip, ib = names.index("Context::push_scope"), [i for i, nme in enumerate(names) if nme == "eval_any"]
            ipop = [i for i, nme in enumerate(names) if nme == "Context::pop_scope"]
            d = ms.show(p.ret)[:10]
            if ib:
                n_body += 1
                okb = len(ib) == 1 and ip < ib[0] and "Declaration::rhs" in ms.show(calls[ib[0]][2][1]) and not [i for i, nme in enumerate(names) if nme == "eval_terminal" and i > ip]
                structural("eval_application: the body is evaluated after the new scope is pushed, and nothing of the caller is evaluated inside it", okb)
                if d.startswith("Result::Ok"):
                    structural("eval_application: the scope is popped again once the body is evaluated", len(ipop) == 1 and ipop[0] > ib[0])
    if n_body == 0 or n_arg == 0:
        o.inconc("eval_application: expected an argument iteration and a body path (%d/%d)" % (n_arg, n_body))
    mirlib.check_translator(o, ex, "eval_application")


def lookup_lemmas(o, L, S, M, E, on_sat, N, f_lookup=None, f_lb=None):
    """Env::lookup and Context::lookup_binding answer with the innermost scope that knows the name (shared with C05: renaming a
    parameter is free only if a parameter shadows whatever else has its name)."""
    if f_lookup is None:
        f_lookup = M.one(r"^env::<impl[^>]*>::lookup$")
    if f_lb is None:
        f_lb = M.one(r"^eval::<impl[^>]*>::lookup_binding$")
    # ---------------------------------------------------------------- innermost-first lookups
    def slice_facts(terms, base_of, elems, env):
        """Concrete answers of slice::{split_first, split_last, first, last, len, is_empty} on the scope stack for a
        stack of this very height: a substitution for those calls (they make the lookup fork on the height)."""
        mpx = {}
        k = 0
        for t0 in terms:
            for t in ms.subterms(t0):
                if t[0] != "app" or t in mpx:
                    continue
                nm = t[1].split("::")[-1]
                if nm not in ("split_first", "split_last", "first", "last", "len", "is_empty") or not ("slice" in t[1] or "Vec" in t[1]):
                    continue
                x = t[2][0]
                while x[0] == "addr" or (x[0] == "app" and re.search(r"(Deref::deref|as_slice)$", x[1])):
                    x = x[1] if x[0] == "addr" else x[2][0]
                if x != base_of:
                    continue
                if nm in ("split_first", "split_last"):
                    if not elems:
                        mpx[t] = ("variant", "Option", "None", ())
                    else:
                        k += 1
                        rest = ("sym", "rest%d!" % k)
                        env[rest] = elems[1:] if nm == "split_first" else elems[:-1]
                        one = elems[0] if nm == "split_first" else elems[-1]
                        mpx[t] = ("variant", "Option", "Some", (("aggr", "tuple", (one, rest), None),))
                elif nm in ("first", "last"):
                    mpx[t] = ("variant", "Option", "Some", ((elems[0] if nm == "first" else elems[-1]),)) if elems else ("variant", "Option", "None", ())
                elif nm == "len":
                    mpx[t] = ("c", "int", len(elems))
                else:
                    mpx[t] = ms.TRUE if not elems else ms.FALSE
        return mpx

    def lookup_is_innermost_first(f, label, args, base_of, get_of, payload_wrap=None):
        ex = mirlib.executor([M])
        rets = [p for p in ex.run(f, arg_names=args) if p.kind == "return"]
        mirlib.check_translator(o, ex, label)
        if not rets:
            o.inconc("%s: no returning path" % label)
            return
        for n in range(0, N + 1):
            ch = iterchain.Chains([M], lambda: mirlib.executor([M]), S, E)
            elems = [("sym", "%s.scope[%d]" % (label, i)) for i in range(n)]
            env = {base_of: elems}
            val = []
            try:
                for p in rets:
                    mpx = slice_facts([p.ret] + [a for a, _, _ in p.pc], base_of, elems, env)
                    pc = [(iterchain.subst(a, mpx, E), op, v) for a, op, v in p.pc]
                    if any(a[0] == "c" and op == "==" and a[2] != v for a, op, v in pc):
                        continue        # this path is not taken for a stack of this height
                    pcond = z3.And([z3.BoolVal(True)] + S.pc([x for x in pc if x[0][0] != "c"]))
                    val += [(z3.And(pcond, c), t) for c, t in ch.value(iterchain.subst(p.ret, mpx, E), env)]
            except iterchain.Unsupported as exn:
                o.inconc("%s: pipeline not interpretable: %s" % (label, exn))
                return
            gets = [get_of(e) for e in elems]
            typing = [z3.Or(S.i(ms.disc_of(g, E)) == 0, S.i(ms.disc_of(g, E)) == 1) for g in gets]
            some = [S.i(ms.disc_of(g, E)) == 1 for g in gets]
            pay = [ms.proj(ms.proj(g, ("v", "Some"), E), ("f", 0), E) for g in gets]
            # reference: scan from the innermost (last pushed) scope outwards
            ref_some = z3.Or(some) if some else z3.BoolVal(False)
            ref_pay = S.v(("sym", "nothing"))
            for i in range(n):
                ref_pay = z3.If(some[i], S.v(pay[i]), ref_pay)      # later i overrides: innermost wins
            mismatch = []
            opaque = []
            for c, t in val:
                if t[0] == "variant" and t[2] == "Some":
                    pl = t[3][0]
                    mismatch.append(z3.And(c, z3.Not(z3.And(ref_some, S.v(pl) == ref_pay))))
                elif t[0] == "variant" and t[2] == "None":
                    mismatch.append(z3.And(c, ref_some))
                else:
                    # an Option the pipeline hands on unopened (e.g. `.or_else(|| outer.get(e))`)
                    d = S.i(ms.disc_of(t, E))
                    pl = ms.proj(ms.proj(t, ("v", "Some"), E), ("f", 0), E)
                    mismatch.append(z3.And(c, z3.Or(z3.And(d == 1, z3.Not(z3.And(ref_some, S.v(pl) == ref_pay))), z3.And(d == 0, ref_some))))
                    opaque.append(z3.Or(d == 0, d == 1))
            covered = z3.Or([c for c, _ in val]) if val else z3.BoolVal(False)
            L.expect_unsat("%s: with %d scopes the answer is the innermost scope that knows the name (None iff none does)" % (label, n),
                           typing + opaque + [z3.Or(mismatch + [z3.Not(covered)])], on_sat)
            if ch.panics:
                L.expect_unsat("%s: with %d scopes no closure of the pipeline can panic" % (label, n), typing + [z3.Or(ch.panics)], on_sat)
            if n == N:
                o.extra.setdefault("pipelines", {})[label] = {"adaptors": sorted(ch.adaptors), "closures": sorted(ch.closures)}
                if n >= 2:
                    L.expect_sat("%s: two scopes can both know the name" % label, typing + [some[0], some[1]])

    SELF = ("deref", ("sym", "self"))
    lookup_is_innermost_first(f_lookup, "Env::lookup", ["self", "e"], ms.proj(SELF, ("f", 0), E),
                              lambda el: ("app", "HashMap::get", (el, ("sym", "e"))))
    # Context.scopes: find the field index from the pipeline's own base term (a Vec of (id, scope) pairs)
    ex = mirlib.executor([M])
    rets = [p for p in ex.run(f_lb, arg_names=["self", "ident"]) if p.kind == "return"]
    base = None
    if rets:
        for t in ms.subterms(rets[0].ret):
            if t[0] == "fld" and t[1] == SELF:
                base = t
    if base is None:
        o.inconc("lookup_binding: cannot find the scope stack in the pipeline")
    else:
        lookup_is_innermost_first(f_lb, "Context::lookup_binding", ["self", "ident"], base,
                                  lambda el: ("app", "HashMap::get", (("addr", ms.proj(("deref", el), ("f", 1), E)), ("sym", "ident"))))



def check():
    o = Outcome("C08")
    E = mirlib.enums()
    F = Findings()
    try:
        M = mirlib.module("oal-compiler")
        f_lookup = M.one(r"^env::<impl[^>]*>::lookup$")
        f_declare = M.one(r"^env::<impl[^>]*>::declare$")
        f_open = M.one(r"^env::<impl[^>]*>::open$")
        f_close = M.one(r"^env::<impl[^>]*>::close$")
        f_new = M.sel("env", "new", ret=r"^Env$")
        f_defvar = M.one(r"^(resolve::)?define_variable$")
        f_declvar = M.one(r"^(resolve::)?declare_variable$")
        f_declimp = M.one(r"^(resolve::)?declare_import$")
        f_opend = M.one(r"^(resolve::)?open_declaration$")
        f_closed = M.one(r"^(resolve::)?close_declaration$")
        f_openr = M.one(r"^(resolve::)?open_recursion$")
        f_closer = M.one(r"^(resolve::)?close_recursion$")
        f_resolve = M.one(r"^(resolve::)?resolve$")
        f_lb = M.one(r"^eval::<impl[^>]*>::lookup_binding$")
        f_push = M.one(r"^eval::<impl[^>]*>::push_scope$")
        f_pop = M.one(r"^eval::<impl[^>]*>::pop_scope$")
        f_app = M.one(r"^(eval::)?eval_application$")
        f_rec = M.one(r"^(eval::)?eval_recursion$")
        f_bind = M.one(r"^(eval::)?eval_binding$")
    except Exception as ex:
        o.inconc("MIR: %s" % str(ex)[-300:])
        return o.finish()
    o.functions += [mirlib.func_ref(f, "oal-compiler") for f in (f_lookup, f_declare, f_open, f_close, f_new, f_defvar, f_declvar, f_declimp, f_opend, f_closed,
                                                                   f_openr, f_closer, f_resolve, f_lb, f_push, f_pop, f_app, f_rec, f_bind)]
    N = 6 if tier() == "thorough" else 4
    o.bounds = {"scope_stack_height": "every height 0..%d, every pattern of hits and misses of the looked-up name" % N,
                "control": "all paths; loops: one arbitrary iteration from an arbitrary state", "values": "unbounded"}
    o.assumptions = ["iterator adaptors have their documented library meaning (lib/iterchain.py; the set used is listed in evidence)",
                     "HashMap::get/insert, Vec::push/pop, the syntax accessors and Core::define are uninterpreted",
                     "the closures of the pipelines are executed from their own MIR"]
    o.outside = ["composition of the steps over a whole traversal (that open/close calls nest like the tree does is NodeRef::traverse's contract)",
                 "HashMap's own behaviour", "the order of stdlib vs. imports vs. declarations inside the outermost scope beyond 'a collision is reported as a duplicate'",
                 "evaluation of whole programs (sampled by the replay oracle only)"]
    L = mirlib.Lemma(o)
    S = L.smt
    bad = []

    def on_sat(name, model):
        if name not in bad:
            bad.append(name)

    def structural(name, ok, why=None):
        o.query(name, "mirsym/structural", "unsat" if ok else "violated", 0)
        if not ok and (why or name) not in bad:
            bad.append(why or name)
        return ok

    lookup_lemmas(o, L, S, M, E, on_sat, N, f_lookup, f_lb)
    SELF = ("deref", ("sym", "self"))

    # ---------------------------------------------------------------- Env: scope discipline
    ex = mirlib.executor([M])
    for p in ex.run(f_declare, arg_names=["self", "e", "defn"]):
        if p.kind == "return":
            ins = [e for e in p.calls() if e[1] == "HashMap::insert"]
            lm = [e for e in p.calls() if e[1] in ("slice::last_mut", "Vec::last_mut")]
            ok = len(ins) == 1 and len(lm) == 1 and ins[0][2][1:] == (("sym", "e"), ("sym", "defn")) and \
                any(t == lm[0][3] for t in ms.subterms(ins[0][2][0])) and p.ret == ins[0][3] and \
                any(t == ms.proj(SELF, ("f", 0), E) for a in lm[0][2] for t in ms.subterms(a))
            structural("Env::declare: inserts (entry, definition) into the innermost scope and returns what was there before", ok)
    mirlib.check_translator(o, ex, "Env::declare")
    ex = mirlib.executor([M])
    for p in ex.run(f_open, arg_names=["self"]):
        if p.kind == "return":
            pu = [e for e in p.calls() if e[1] == "Vec::push"]
            ok = len(pu) == 1 and pu[0][2][0] == ("addr", ms.proj(SELF, ("f", 0), E)) and ms.show(pu[0][2][1]).startswith("HashMap::new") and \
                not [e for e in p.calls() if e[1] in ("Vec::pop", "Vec::insert", "Vec::clear")]
            structural("Env::open: pushes one fresh empty scope on top", ok)
    ex = mirlib.executor([M])
    for p in ex.run(f_close, arg_names=["self"]):
        if p.kind == "return":
            po = [e for e in p.calls() if e[1] == "Vec::pop"]
            ok = len(po) == 1 and po[0][2][0] == ("addr", ms.proj(SELF, ("f", 0), E)) and len(p.calls()) == 1
            structural("Env::close: pops exactly the top scope", ok)
    ex = mirlib.executor([M])
    for p in ex.run(f_new):
        if p.kind == "return":
            txt = ms.show(p.ret)
            structural("Env::new: starts with exactly one (outermost) scope", txt.count("HashMap::new") == 1)

    # ---------------------------------------------------------------- resolver steps
    ex = mirlib.executor([M])
    n_ok = n_err = 0
    for p in ex.run(f_defvar, arg_names=["env", "defg", "var"]):
        if p.kind != "return":
            continue
        lk = [e for e in p.calls() if e[1] == "Env::lookup"]
        en = [e for e in p.calls() if e[1] == "Entry::new"]
        if len(lk) != 1 or len(en) != 1:
            structural("define_variable: one lookup of one entry", False)
            continue
        okent = ms.show(en[0][2][0]) == "Variable::ident(&var)" and "Variable::qualifier(&var)" in ms.show(en[0][2][1]) and \
            any(t == en[0][3] for t in ms.subterms(lk[0][2][1])) and lk[0][2][0] == ("sym", "env")
        structural("define_variable: looks up (the variable's identifier, its qualifier) in the environment", okent)
        found = S.i(ms.disc_of(lk[0][3], E)) == 1
        cond = S.pc(p.pc)
        d = S.i(ms.disc_of(p.ret, E))
        df = [e for e in p.calls() if e[1] == "Core::define"]
        if df:
            n_ok += 1
            L.expect_unsat("define_variable: a definition is stored only when the lookup found one", cond + [z3.Not(found)], on_sat)
            L.expect_unsat("define_variable: storing a definition means Ok", cond + [d != 0], on_sat)
            got = ms.proj(ms.proj(lk[0][3], ("v", "Some"), E), ("f", 0), E)
            okd = len(df) == 1 and any(t == got for t in ms.subterms(df[0][2][1])) and "Variable.AbstractSyntaxNode::node(&var)" in ms.show(df[0][2][0])
            structural("define_variable: the definition stored in the variable's own slot is the one the lookup returned", okd)
        else:
            n_err += 1
            L.expect_unsat("define_variable: without a definition the result is an error", cond + [d != 1], on_sat)
            L.expect_unsat("define_variable: an error only when the lookup found nothing", cond + [found], on_sat)
            structural("define_variable: the error is Kind::NotInScope", "NotInScope" in ms.show(p.ret))
    if n_ok == 0 or n_err == 0:
        o.inconc("define_variable: expected a defining and a failing path (%d/%d)" % (n_ok, n_err))
    mirlib.check_translator(o, ex, "define_variable")

    ex = mirlib.executor([M])
    for p in ex.run(f_declvar, arg_names=["env", "decl"]):
        if p.kind != "return":
            continue
        dc = [e for e in p.calls() if e[1] == "Env::declare"]
        if len(dc) != 1:
            structural("declare_variable: declares exactly once", False)
            continue
        a = dc[0][2]
        oke = ms.show(a[1]) == "Entry.From::from(Declaration::ident(&decl))" and "External::new(Declaration.AbstractSyntaxNode::node(&decl))" in ms.show(a[2]) and a[0] == ("sym", "env")
        structural("declare_variable: declares the declaration's own identifier (unqualified) as that declaration's node", oke)
        dup = S.i(ms.disc_of(dc[0][3], E)) == 1
        d = S.i(ms.disc_of(p.ret, E))
        L.expect_unsat("declare_variable: an error exactly when the name was already declared in that scope", S.pc(p.pc) + [(d == 1) != dup], on_sat)
        if "Err" in ms.show(p.ret)[:14]:
            structural("declare_variable: the duplicate is reported as Kind::InvalidIdentifier", "InvalidIdentifier" in ms.show(p.ret))
    mirlib.check_translator(o, ex, "declare_variable")

    declare_import_lemma(o, M, E, f_declimp, structural)

    def opener(f, label, args, decl_src, closes=None):
        ex = mirlib.executor([M])
        seen = False
        for p in ex.run(f, arg_names=args):
            if p.kind not in ("return", "backedge"):
                continue
            names = [e[1] for e in p.calls()]
            op = [i for i, nme in enumerate(names) if nme == "Env::open"]
            dc = [i for i, nme in enumerate(names) if nme == "Env::declare"]
            cl = [i for i, nme in enumerate(names) if nme == "Env::close"]
            structural("%s: opens exactly one scope, before declaring anything, and closes none" % label, len(op) == 1 and not cl and all(i > op[0] for i in dc))
            for i in dc:
                e = p.calls()[i]
                seen = True
                okb = ms.show(e[2][1]).startswith("Entry.From::from(Binding::ident(") and "External::new(Binding.AbstractSyntaxNode::node(" in ms.show(e[2][2]) and \
                    decl_src in ms.show(e[2][1]) and decl_src in ms.show(e[2][2])
                structural("%s: each binder is declared (unqualified) as its own binding node, in the scope just opened" % label, okb)
        if not seen:
            o.inconc("%s: no path declares a binder" % label)
        mirlib.check_translator(o, ex, label)

    opener(f_opend, "open_declaration", ["env", "defg", "decl"], "Iterator::next")
    opener(f_openr, "open_recursion", ["env", "rec"], "Recursion::binding(&rec)")
    for f, label, args in ((f_closed, "close_declaration", ["env", "defg"]), (f_closer, "close_recursion", ["env"])):
        ex = mirlib.executor([M])
        for p in ex.run(f, arg_names=args):
            if p.kind == "return":
                names = [e[1] for e in p.calls()]
                structural("%s: closes exactly one scope and opens none" % label, names.count("Env::close") == 1 and "Env::open" not in names and "Env::declare" not in names)

    # ---------------------------------------------------------------- resolve(): order and dispatch
    ex = mirlib.executor([M], max_paths=8000)
    outs = ex.run(f_resolve, arg_names=["mods", "loc"])
    mirlib.check_translator(o, ex, "resolve")
    iS = E.index("NodeCursor", "Start")
    iE = E.index("NodeCursor", "End")
    if iS is None or iE is None:
        o.inconc("NodeCursor variants not found")
    roles = {"open_declaration": 0, "define_variable": 0, "open_recursion": 0, "close_declaration": 0, "close_recursion": 0, "none": 0}
    ACTIONS = ("open_declaration", "define_variable", "open_recursion", "close_declaration", "close_recursion")
    order_ok = True
    depth_ok = True
    imports_first = True
    prologue_all = True
    n_prologue = 0
    for p in outs:
        if p.kind not in ("backedge", "return"):
            continue
        ev = p.events
        calls = p.calls()
        names = [e[1] for e in calls]
        # prologue order: built-ins, then imports, then this module's declarations, then the traversal
        idx = {k: [i for i, nme in enumerate(names) if nme == k] for k in ("import", "declare_import", "declare_variable", "NodeRef::traverse")}
        seq = [idx["import"], idx["declare_import"], idx["declare_variable"], idx["NodeRef::traverse"]]
        flat = [min(x) for x in seq if x]
        if flat != sorted(flat) or (idx["import"] and idx["import"][0] != names.index("import")) or \
           (any(idx[k] for k in ("declare_import", "declare_variable", "NodeRef::traverse")) and not idx["import"]):
            order_ok = False
        # a declaration of the module is declared only once every import has been: the path that reaches
        # declare_variable has seen the import iterator run dry (and not the other way round for declare_import)
        if idx["declare_variable"]:
            pi = [i for i, e in enumerate(calls) if e[1] == "Program::imports"]
            dry = False
            if pi:
                for i, e in enumerate(calls):
                    if pi[0] < i < idx["declare_variable"][0] and e[1].endswith("Iterator::next") and any(t == calls[pi[0]][3] or ms.show(t).startswith("FilterMap.IntoIterator::into_iter(Program::imports") for a in e[2] for t in ms.subterms(a)):
                        v0, _ = S.check("resolve: import iterator exhausted", S.pc(p.pc) + [S.i(ms.disc_of(e[3], E)) != 0])
                        dry = dry or v0 == "unsat"
                # the havocked loop iterator loses its textual link to Program::imports: accept "an iterator next() == None between the two"
                if not dry:
                    for i, e in enumerate(calls):
                        if pi[0] < i < idx["declare_variable"][0] and e[1].endswith("Iterator::next"):
                            v0, _ = S.check("resolve: an iterator exhausted before declarations", S.pc(p.pc) + [S.i(ms.disc_of(e[3], E)) != 0])
                            dry = dry or v0 == "unsat"
            if not dry:
                imports_first = False
        if idx["declare_import"] and idx["declare_variable"] and idx["declare_variable"][0] < idx["declare_import"][0]:
            imports_first = False
        # nothing opens or closes a scope between the built-ins and the module's own declarations
        if idx["declare_variable"] and idx["import"]:
            between = names[idx["import"][0]:idx["declare_variable"][0]]
            if any(b in ("Env::open", "Env::close", "open_declaration", "open_recursion", "close_declaration", "close_recursion") for b in between):
                depth_ok = False
        loops = [i for i, e in enumerate(ev) if e[0] == "loop"]
        if p.kind != "backedge" or not loops:
            continue
        tail = [e for e in ev[loops[-1] + 1:] if e[0] == "call"]
        tn = [e[1] for e in tail]
        if any(nme.endswith("Iterator::next") for nme in tn) and "NodeRef::traverse" not in names:
            # one arbitrary iteration of a prologue loop: the import / declaration the iterator offers is declared - every one
            # of them, whatever was declared before (two imports of one module under two qualifiers are two sets of names)
            nx0 = [e for e in tail if e[1].endswith("Iterator::next")][-1]
            item0 = ms.proj(ms.proj(nx0[3], ("v", "Some"), E), ("f", 0), E)
            decl0 = [e for e in tail if e[1] in ("declare_import", "declare_variable") and any(t == item0 for a in e[2] for t in ms.subterms(a))]
            prologue_all = prologue_all and len(decl0) == 1
            n_prologue += 1
        if not any(nme.endswith("Iterator::next") for nme in tn) or "NodeRef::traverse" not in names:
            continue
        nx = [e for e in tail if e[1].endswith("Iterator::next")][-1]
        item = ms.proj(ms.proj(nx[3], ("v", "Some"), E), ("f", 0), E)
        isStart = S.i(ms.disc_of(item, E)) == iS
        casts = {}
        for e in tail:
            m = re.match(r"^(Declaration|Variable|Recursion)\.AbstractSyntaxNode::cast$", e[1])
            if m:
                casts[m.group(1)] = S.i(ms.disc_of(e[3], E)) == 1
        act = [a for a in ACTIONS if a in tn]
        cond = S.pc(p.pc)
        F_ = z3.BoolVal(False)
        dS, vS, rS = casts.get("Declaration", F_), casts.get("Variable", F_), casts.get("Recursion", F_)
        want = {"open_declaration": z3.And(isStart, dS), "define_variable": z3.And(isStart, z3.Not(dS), vS),
                "open_recursion": z3.And(isStart, z3.Not(dS), z3.Not(vS), rS), "close_declaration": z3.And(z3.Not(isStart), dS),
                "close_recursion": z3.And(z3.Not(isStart), z3.Not(dS), rS)}
        if len(act) > 1:
            structural("resolve: one action per tree event", False)
            continue
        if act:
            roles[act[0]] += 1
            L.expect_unsat("resolve: %s runs exactly on its own tree event (%s)" % (act[0], {"open_declaration": "entering a declaration", "define_variable": "entering a variable",
                           "open_recursion": "entering a rec", "close_declaration": "leaving a declaration", "close_recursion": "leaving a rec"}[act[0]]),
                           cond + [z3.Not(want[act[0]])], on_sat)
            e = [x for x in tail if x[1] == act[0]][0]
            if act[0] in ("open_declaration", "define_variable", "open_recursion"):
                structural("resolve: %s receives the node of that tree event" % act[0], any(t[0] == "app" and t[1].endswith("::cast") for a in e[2] for t in ms.subterms(a)))
        else:
            roles["none"] += 1
            L.expect_unsat("resolve: a tree event is skipped only if it is none of declaration / variable / rec", cond + [z3.Or(list(want.values()))], on_sat)
    structural("resolve: built-ins are declared first, then imports, then the module's declarations, then the tree is traversed", order_ok)
    structural("resolve: every import is declared before the first declaration of the module is (a clash is then reported at the declaration, whatever the textual order)", imports_first)
    structural("resolve: built-ins, imports and the module's declarations go into the same outermost scope", depth_ok)
    structural("resolve: every import and every declaration the program offers is declared (no iteration of the two prologue loops skips its item)", prologue_all and n_prologue >= 2,
               "resolve: an iteration of a prologue loop does not declare the import / declaration it was offered" if n_prologue >= 2 else "resolve: prologue loops not found (%d)" % n_prologue)
    o.extra["resolve_dispatch_paths"] = roles
    if min(roles.values()) == 0:
        o.inconc("resolve: a dispatch role has no path (%s)" % roles)

    # ---------------------------------------------------------------- evaluator: dynamic scopes mirror the static ones
    ex = mirlib.executor([M])
    for p in ex.run(f_push, arg_names=["self", "scope"]):
        if p.kind == "return":
            pu = [e for e in p.calls() if e[1] == "Vec::push"]
            ok = len(pu) == 1 and any(t == ("sym", "scope") for t in ms.subterms(pu[0][2][1])) and not [e for e in p.calls() if e[1] == "Vec::pop"]
            structural("Context::push_scope: pushes the given scope on top of the stack", ok)
    ex = mirlib.executor([M])
    for p in ex.run(f_pop, arg_names=["self"]):
        if p.kind == "return":
            structural("Context::pop_scope: pops exactly the top scope", [e[1] for e in p.calls()] == ["Vec::pop"])
    application_lemmas(o, M, E, f_app, structural)
    ex = mirlib.executor([M])
    for p in ex.run(f_rec, arg_names=["ctx", "rec", "ann"]):
        if p.kind != "return":
            continue
        calls = p.calls()
        names = [e[1] for e in calls]
        if "eval_any" in names:
            ip, ib = names.index("Context::push_scope") if "Context::push_scope" in names else -1, names.index("eval_any")
            ins = [e for e in calls if e[1] == "HashMap::insert"]
            okr = 0 <= ip < ib and len(ins) == 1 and ms.show(ins[0][2][1]) == "Binding::ident(&Recursion::binding(&rec))" and "Expr::Recursion" in ms.show(ins[0][2][2]) and \
                any(t == ins[0][2][0] or ms.show(t).startswith("HashMap::insert#out0") for t in ms.subterms(calls[ip][2][1])) and "Recursion::rhs(&rec)" in ms.show(calls[ib][2][1])
            structural("eval_recursion: the rec binder is bound (to a recursion marker) in a fresh scope in which the body is evaluated", okr)
            if ms.show(p.ret).startswith("Result::Ok"):
                structural("eval_recursion: the scope is popped again", names.count("Context::pop_scope") == 1 and names.index("Context::pop_scope") > ib)
    ex = mirlib.executor([M])
    for p in ex.run(f_bind, arg_names=["ctx", "binding", "ann"]):
        if p.kind == "return":
            lk = [e for e in p.calls() if e[1] == "Context::lookup_binding"]
            okl = len(lk) == 1 and ms.show(lk[0][2][1]) == "&Binding::ident(&binding)" and \
                any(t == ms.proj(ms.proj(ms.proj(lk[0][3], ("v", "Some"), E), ("f", 0), E), ("f", 0), E) for t in ms.subterms(p.ret))
            structural("eval_binding: a parameter / rec binder evaluates to what lookup_binding finds for its own name", okl)

    o.samples = [{"query": q["name"], "verdict": q["verdict"]} for q in o.queries[:16]]

    # ---------------------------------------------------------------- replay on the real binaries
    import lspcorpus
    rdir = new_replay_dir("C08", "binding")
    wanted = {k: v for k, v in lspcorpus.PROGRAMS.items() if k in ("nested-same-name-binders", "shadowing-and-reference", "unqualified-import", "two-modules", "modules-in-sub-directories", "two-parameters-of-one-name")}
    saved = lspcorpus.PROGRAMS
    lspcorpus.PROGRAMS = wanted
    try:
        probs, detail = lspcorpus.run(os.path.join(rdir, "lsp"), want=("definition",))
    finally:
        lspcorpus.PROGRAMS = saved
    p2, d2 = run_eval_programs(rdir)
    probs += p2
    o.extra["real_lsp_definitions"] = detail
    o.extra["real_cli_shadowing_programs"] = d2
    with open(os.path.join(rdir, "cmd"), "w") as f:
        f.write("#!/bin/sh\ncd /verif && exec ./check C08 --replay %s\n" % rdir)
    # declarations vs. imports / built-ins (same scope): decided by the lemmas above, confirmed on the real CLI
    cli = build_cli()
    for name, files in SHADOW_OUTER.items():
        r = run_cli(cli, files, workdir=os.path.join(rdir, name), timeout=30)
        o.extra.setdefault("outer_scope_collisions", {})[name] = {"rc": r["rc"], "tail": r["out"][-100:]}
        if r["rc"] != 0:
            what = "%s: `%s` is rejected (%s) although the statement lets a declaration take precedence over an import / built-in" % (
                name, files["main.oal"].split("\n")[1 if name.endswith("import") else 0], "identifier already exists" if "already exists" in r["out"] else "exit %s" % r["rc"])
            k = F.match("C08", {"mode": "outer-scope-collision", "case": name})
            if k and depth_ok:
                o.known_finding(k.get("what", what))
            else:
                probs.append(what)
    r = run_cli(cli, DECL_BEFORE_IMPORT, workdir=os.path.join(rdir, "declaration-before-import"), timeout=30)
    o.extra.setdefault("outer_scope_collisions", {})["declaration-before-import"] = {"rc": r["rc"]}
    if crashed(r):
        probs.append("declaration-before-import: oal-cli dies (exit %s)" % r["rc"])
    elif r["rc"] == 0 and "imported" in (r["target"] or ""):
        probs.append("declaration-before-import: `let item = ..; use \"lib.oal\";` - the import silently replaces the module's own declaration of `item` (no error, the imported schema is emitted)")
    if bad:
        if probs:
            o.violation("identifiers do not bind lexically; lemma(s): %s; real binaries: %s" % ("; ".join(bad[:3]), "; ".join(probs[:3])), rdir)
        else:
            o.inconc("UNCONFIRMED: lemma(s) fail (%s) but the real oal-lsp / oal-cli resolve and evaluate every shadowing program as the statement demands" % "; ".join(bad[:3]))
    elif probs:
        o.oracle_only("real binaries deviate (%s) although every lemma holds" % "; ".join(probs[:3]), rdir)
    return o.finish()


def replay(path):
    rdir = new_replay_dir("C08", "binding-replay")
    p2, d2 = run_eval_programs(rdir)
    print(d2)
    print("problems:", p2)
    return 1 if p2 else 0
