"""C02 - the emitted document means what the program says (partial: the spec -> OpenAPI mapping).

Engine M + z3 over oal-openapi/src/lib.rs (and eval_program): each mapping step puts what it is
given where the OpenAPI model says it belongs, and no step discards what an earlier step produced:
 * `relation_path_item`: the operation of method m lands in the PathItem slot named m (slot names
   read from the openapiv3 crate's struct), every other slot is left as it was;
 * `xfer_responses` (one iteration): the response a (status, media) content is added to is the one
   already recorded for that status if there is one - for explicit statuses and for the default;
 * `value_schema`: each schema form goes to the emitter of the same form; description and title follow;
 * `object_type`: every property appears under its own name with its own schema, `required` lists
   exactly the properties flagged so; `prop_*_param`: location and required flag per parameter kind;
   `xfer_params` / `uri_params`: every declared property yields one parameter of the right location;
 * `domain_request`: a request body exists iff the domain has a schema, under the declared media type;
 * `eval_program`: one relation per `res` statement, in order; every finished reference becomes a component.
Replay oracle: programs with facts derived from their source (an independent statement of what the
document must contain) through the real oal-cli.
"""
import glob
import os
import re

import mirlib
import mirparse as mp
import mirsym as ms
import z3
from vcommon import Outcome, Findings, build_cli, run_cli, new_replay_dir, tier, crashed

ITEM = ("description", "an item")
FACTS = {
    "catalogue": {
        "files": {"main.oal":
                  "let id = 'id! int `description: \"the id\"`;\nlet hdr = { 'x-trace str, 'x-opt? num };\n"
                  "let item = { 'name! str `title: \"Name\"`, 'price num, 'tags [str], 'alt (str | num), 'both ({ 'a str } & { 'b? bool }), 'any (int ~ str) } `description: \"an item\"`;\n"
                  "# summary: \"list\", operationId: \"listItems\", tags: [items]\n"
                  "let list = get { 'page? int } -> <status=200, media=\"application/json\", headers=hdr, [item]> `description: \"ok\"` :: <status=4XX, { 'msg str }> :: <status=500, media=\"text/plain\", str>;\n"
                  "let create = post : <headers={ 'x-req! str }, media=\"application/xml\", item> `description: \"body\"` -> <status=201, item> :: <{ 'fallback bool }>;\n"
                  "res /items?{ 'limit? int, 'tag! str } on list, create;\n"
                  "res /items/{ id } on get -> <item>, delete -> <status=204>, put, patch : <item> -> <item>;\n"
                  "res /ping on head -> <>, options -> <>;\n"},
        "facts": [
            (["paths"], ("keys", ["/items", "/items/{id}", "/ping"])),
            (["paths", "/items"], ("keys", ["get", "post", "parameters"])),
            (["paths", "/items/{id}"], ("keys", ["get", "put", "delete", "patch", "parameters"])),
            (["paths", "/ping"], ("keys", ["head", "options"])),
            (["paths", "/items", "parameters"], ("params", [("query", "limit", False), ("query", "tag", True)])),
            (["paths", "/items/{id}", "parameters"], ("params", [("path", "id", True)])),
            (["paths", "/items/{id}", "parameters", 0, "schema", "type"], "integer"),
            (["paths", "/items/{id}", "parameters", 0, "schema", "description"], "the id"),
            (["paths", "/items", "get", "operationId"], "listItems"),
            (["paths", "/items", "get", "summary"], "list"),
            (["paths", "/items", "get", "tags"], ["items"]),
            (["paths", "/items", "get", "parameters"], ("params", [("query", "page", False)])),
            (["paths", "/items", "get", "responses"], ("keys", ["200", "4XX", "500"])),
            (["paths", "/items", "get", "responses", "200", "description"], "ok"),
            (["paths", "/items", "get", "responses", "200", "headers"], ("keys", ["x-trace", "x-opt"])),
            (["paths", "/items", "get", "responses", "200", "headers", "x-opt", "schema", "type"], "number"),
            (["paths", "/items", "get", "responses", "200", "content"], ("keys", ["application/json"])),
            (["paths", "/items", "get", "responses", "200", "content", "application/json", "schema", "type"], "array"),
            (["paths", "/items", "get", "responses", "200", "content", "application/json", "schema", "items", "description"], "an item"),
            (["paths", "/items", "get", "responses", "4XX", "content", "application/json", "schema", "properties", "msg", "type"], "string"),
            (["paths", "/items", "get", "responses", "500", "content"], ("keys", ["text/plain"])),
            (["paths", "/items", "get", "responses", "500", "content", "text/plain", "schema", "type"], "string"),
            (["paths", "/items", "get", "requestBody"], None),
            (["paths", "/items", "post", "parameters"], ("params", [("header", "x-req", True)])),
            (["paths", "/items", "post", "requestBody", "content"], ("keys", ["application/xml"])),
            (["paths", "/items", "post", "requestBody", "description"], "body"),
            (["paths", "/items", "post", "requestBody", "content", "application/xml", "schema", "description"], "an item"),
            (["paths", "/items", "post", "responses"], ("keys", ["201", "default"])),
            (["paths", "/items", "post", "responses", "default", "content", "application/json", "schema", "properties", "fallback", "type"], "boolean"),
            (["paths", "/items/{id}", "delete", "responses"], ("keys", ["204"])),
            (["paths", "/items/{id}", "delete", "responses", "204", "content"], None),
            (["paths", "/items/{id}", "put", "requestBody", "content"], ("keys", ["application/json"])),
            (["paths", "/items/{id}", "patch", "requestBody", "content", "application/json", "schema", "description"], "an item"),
            (["paths", "/items/{id}", "get", "requestBody"], None),
            (["paths", "/items/{id}", "get", "responses", "default", "content", "application/json", "schema", "type"], "object"),
            (["paths", "/items/{id}", "get", "responses", "default", "content", "application/json", "schema", "required"], ["name"]),
            (["paths", "/items/{id}", "get", "responses", "default", "content", "application/json", "schema", "properties"], ("keys", ["name", "price", "tags", "alt", "both", "any"])),
            (["paths", "/items/{id}", "get", "responses", "default", "content", "application/json", "schema", "properties", "name", "title"], "Name"),
            (["paths", "/items/{id}", "get", "responses", "default", "content", "application/json", "schema", "properties", "tags", "items", "type"], "string"),
            (["paths", "/items/{id}", "get", "responses", "default", "content", "application/json", "schema", "properties", "alt", "oneOf"], [{"type": "string"}, {"type": "number"}]),
            (["paths", "/items/{id}", "get", "responses", "default", "content", "application/json", "schema", "properties", "any", "anyOf"], [{"type": "integer"}, {"type": "string"}]),
            (["paths", "/items/{id}", "get", "responses", "default", "content", "application/json", "schema", "properties", "both", "allOf", 1, "properties", "b", "type"], "boolean"),
            (["components"], {}),
        ],
    },
    "references-and-uris": {
        "files": {"main.oal":
                  "let @pet = { 'name str, 'owner @person };\nlet @person = { 'pets [@pet], 'home uri };\nlet link = /pets/{ 'pid str };\n"
                  "let rel = link on get -> <@pet>;\nres rel;\nres /people on get -> <[@person]> :: <status=404, { 'see rel }>;\n"},
        "facts": [
            (["paths"], ("keys", ["/pets/{pid}", "/people"])),
            (["paths", "/pets/{pid}", "parameters"], ("params", [("path", "pid", True)])),
            (["paths", "/pets/{pid}", "get", "responses", "default", "content", "application/json", "schema", "$ref"], "#/components/schemas/pet"),
            (["paths", "/people", "get", "responses", "default", "content", "application/json", "schema", "items", "$ref"], "#/components/schemas/person"),
            (["paths", "/people", "get", "responses", "404", "content", "application/json", "schema", "properties", "see", "format"], "uri-reference"),
            (["components", "schemas"], ("keys", ["pet", "person"])),
            (["components", "schemas", "pet", "properties", "owner", "$ref"], "#/components/schemas/person"),
            (["components", "schemas", "person", "properties", "pets", "items", "$ref"], "#/components/schemas/pet"),
            (["components", "schemas", "person", "properties", "home", "format"], "uri-reference"),
        ],
    },
    "uris-built-by-concat": {
        "files": {"main.oal":
                  "let root = /;\nlet things = concat root /things;\nlet thing = concat things /{ 'id int };\nlet sub = concat (/a/) (/b/{ 'k str }/c);\nlet deep = concat (concat root /x) (/y?{ 'q str });\n"
                  "res things on get -> <[{ 'self thing }]>;\nres thing on get -> <{}>;\nres sub on get -> <{}>;\nres deep on get -> <{}>;\nres root on get -> <{}>;\n"},
        "facts": [
            (["paths"], ("keys", ["/things", "/things/{id}", "/a/b/{k}/c", "/x/y", "/"])),
            (["paths", "/things/{id}", "parameters"], ("params", [("path", "id", True)])),
            (["paths", "/a/b/{k}/c", "parameters"], ("params", [("path", "k", True)])),
            (["paths", "/x/y", "parameters"], ("params", [("query", "q", False)])),
            (["paths", "/things", "get", "responses", "default", "content", "application/json", "schema", "items", "properties", "self", "format"], "uri-reference"),
        ],
    },
    "same-parameter-name-at-path-and-operation-level": {
        "files": {"main.oal": "res /items/{ 'id int }?{ 'page int } on get { 'page! str, 'limit int } : <headers={ 'id! str, 'trace str }> -> <{ 'name str }>;\n"},
        "facts": [
            (["paths", "/items/{id}", "parameters"], ("params", [("path", "id", True), ("query", "page", False)])),
            (["paths", "/items/{id}", "get", "parameters"], ("params", [("query", "page", True), ("query", "limit", False), ("header", "id", True), ("header", "trace", False)])),
        ],
    },
    "contents-without-a-body": {
        "files": {"main.oal": "res /things on post : <{ 'n str }> -> <status=201, headers={ 'Location! uri, 'X-Id num }> :: <status=4XX, { 'm str }>,\n  delete -> <headers={ 'ETag str }> `description: \"gone\"`,\n  get -> <status=301, headers={ 'Location! uri }> :: <status=200, headers={ 'ETag str }, { 'n str }>;\n"},
        "facts": [
            (["paths", "/things", "post", "responses", "201", "headers"], ("keys", ["Location", "X-Id"])),
            (["paths", "/things", "post", "responses", "201", "headers", "Location", "required"], True),
            (["paths", "/things", "delete", "responses"], ("keys", ["204"])),
            (["paths", "/things", "delete", "responses", "204", "headers"], ("keys", ["ETag"])),
            (["paths", "/things", "delete", "responses", "204", "description"], "gone"),
            (["paths", "/things", "get", "responses", "301", "headers"], ("keys", ["Location"])),
            (["paths", "/things", "get", "responses", "200", "headers"], ("keys", ["ETag"])),
        ],
    },
    "arguments-that-name-the-callers-parameters": {
        "files": {"main.oal": "let pair a b = { 'first a, 'second b };\nlet swap a b = pair b a;\nlet twice a = pair a a;\nres /swapped on get -> <swap int str> :: <status=404, twice bool>;\n"},
        "facts": [
            (["paths", "/swapped", "get", "responses", "default", "content", "application/json", "schema", "properties", "first", "type"], "string"),
            (["paths", "/swapped", "get", "responses", "default", "content", "application/json", "schema", "properties", "second", "type"], "integer"),
            (["paths", "/swapped", "get", "responses", "404", "content", "application/json", "schema", "properties", "second", "type"], "boolean"),
        ],
    },
    # one rec, instantiated twice inside one other application: two schemas, each under its own name
    "a-rec-instantiated-twice-inside-another-application": {
        "files": {"main.oal": "let node x = rec y { 'value x, 'next [y] };\nlet pair a b = { 'left (node a), 'right (node b) };\nres /pairs on get -> <pair int str>;\n"},
        "facts": [
            (["components", "schemas"], ("count", 2)),
            (["paths", "/pairs", "get", "responses", "default", "content", "application/json", "schema", "properties", "left"], ("refers_to_schema_with_property_type", ("value", "integer"))),
            (["paths", "/pairs", "get", "responses", "default", "content", "application/json", "schema", "properties", "right"], ("refers_to_schema_with_property_type", ("value", "string"))),
        ],
    },
    "explicit-references-to-atomic-schemas": {
        "files": {"main.oal": "let @id = int `minimum: 1`;\nlet @code = str `pattern: \"[A-Z]+\"`;\nlet @self = /items/{ 'id @id };\nlet @item = { 'id! @id, 'code @code, 'self @self };\nres /items on get -> <[@item]>;\n"},
        "facts": [
            (["components", "schemas"], ("keys", ["id", "code", "self", "item"])),
            (["components", "schemas", "id", "minimum"], 1),
            (["components", "schemas", "code", "pattern"], "[A-Z]+"),
            (["components", "schemas", "item", "properties", "id", "$ref"], "#/components/schemas/id"),
        ],
    },
    "annotations-in-place": {
        "files": {"main.oal":
                  "let n = int `minimum: 1, maximum: 9, example: 5`;\nlet s = str `pattern: \"[a-z]+\", minLength: 2, maxLength: 8, format: \"slug\", enum: [ab, cd]`;\n"
                  "# description: \"the op\", summary: \"short\"\nlet op = get -> <{ 'n n `description: \"count\"`, 's s }> `description: \"resp\", examples: { one: \"one.json\" }`;\nres /a on op;\n"},
        "facts": [
            (["paths", "/a", "get", "description"], "the op"),
            (["paths", "/a", "get", "summary"], "short"),
            (["paths", "/a", "get", "responses", "default", "description"], "resp"),
            (["paths", "/a", "get", "responses", "default", "content", "application/json", "examples", "one", "externalValue"], "one.json"),
            (["paths", "/a", "get", "responses", "default", "content", "application/json", "schema", "properties", "n", "minimum"], 1),
            (["paths", "/a", "get", "responses", "default", "content", "application/json", "schema", "properties", "n", "maximum"], 9),
            (["paths", "/a", "get", "responses", "default", "content", "application/json", "schema", "properties", "n", "example"], 5),
            (["paths", "/a", "get", "responses", "default", "content", "application/json", "schema", "properties", "n", "description"], "count"),
            (["paths", "/a", "get", "responses", "default", "content", "application/json", "schema", "properties", "s", "pattern"], "[a-z]+"),
            (["paths", "/a", "get", "responses", "default", "content", "application/json", "schema", "properties", "s", "minLength"], 2),
            (["paths", "/a", "get", "responses", "default", "content", "application/json", "schema", "properties", "s", "maxLength"], 8),
            (["paths", "/a", "get", "responses", "default", "content", "application/json", "schema", "properties", "s", "format"], "slug"),
            (["paths", "/a", "get", "responses", "default", "content", "application/json", "schema", "properties", "s", "enum"], ["ab", "cd"]),
        ],
    },
    # where one key is given twice the pinned tree lets the annotation written closest to the value win: a terminal's own
    # inline annotation over what flows in from the enclosing declaration or the use site; the use of a name over the `#` line
    # of its declaration; the use of a parameter over the annotations of the argument bound to it. There is no written
    # specification of this precedence: the pinned behaviour is taken as the language's definition (DESIGN 3/C02).
    "annotation-precedence": {
        "files": {"main.oal":
                  "# title: \"Generic amount\"\nlet amount = num `title: \"Amount in cents\", minimum: 0`;\n"
                  "# description: \"declared\"\nlet label = str `maxLength: 20`;\n"
                  "let item x = { 'value x `title: \"Item value\"` };\n# title: \"Plain amount\"\nlet plain = num;\n"
                  "res /orders on get -> <{ 'total! amount, 'name label `description: \"used\"` }>;\nres /items on get -> <item plain>;\n"},
        "facts": [
            (["paths", "/orders", "get", "responses", "default", "content", "application/json", "schema", "properties", "total", "title"], "Amount in cents"),
            (["paths", "/orders", "get", "responses", "default", "content", "application/json", "schema", "properties", "total", "minimum"], 0),
            (["paths", "/orders", "get", "responses", "default", "content", "application/json", "schema", "properties", "name", "description"], "used"),
            (["paths", "/orders", "get", "responses", "default", "content", "application/json", "schema", "properties", "name", "maxLength"], 20),
            (["paths", "/items", "get", "responses", "default", "content", "application/json", "schema", "properties", "value", "title"], "Item value"),
        ],
    },
    "same-file-name-in-two-directories": {
        "files": {"main.oal": 'use "v1/model.oal" as a;\nuse "v2/model.oal" as b;\nres /a on get -> <a.tree>;\nres /b on get -> <b.tree>;\n',
                  "v1/model.oal": "let tree = { 'id int, 'kids [tree] };\n", "v2/model.oal": "let tree = { 'id str, 'kids [tree] };\n"},
        "facts": [
            (["paths", "/a", "get", "responses", "default", "content", "application/json", "schema"], ("refers_to_schema_with_property_type", ("id", "integer"))),
            (["paths", "/b", "get", "responses", "default", "content", "application/json", "schema"], ("refers_to_schema_with_property_type", ("id", "string"))),
            (["components", "schemas"], ("count", 2)),
        ],
    },
    "same-status-two-media": {
        "files": {"main.oal": "res /b on get -> <status=200, media=\"text/plain\", str> :: <status=200, media=\"application/json\", { 'a num }>;\n"},
        "facts": [(["paths", "/b", "get", "responses", "200", "content"], ("keys", ["text/plain", "application/json"]))],
    },
    # --- combinations in which something declared used to be dropped or conflated
    "default-status-two-media": {
        "files": {"main.oal": "res /a on get -> <media=\"text/plain\", str> :: <media=\"application/json\", { 'a num }>;\n"},
        "facts": [(["paths", "/a", "get", "responses", "default", "content"], ("keys", ["text/plain", "application/json"]))],
        "mode": "default-response-overwritten",
    },
    "same-path-two-resources": {
        "files": {"main.oal": "res /x on get -> <str>;\nres /x on put : <str> -> <num>;\n"},
        "facts": [(["paths", "/x"], ("haskeys", ["get", "put"]))],
        "mode": "same-path-overwritten",
    },
    "same-reference-name-in-two-modules": {
        "files": {"main.oal": 'use "m.oal" as m;\nlet @a = { \'main str };\nres /x on get -> <@a> :: <status=404, m.b>;\n', "m.oal": "let @a = { 'mod num };\nlet b = { 'inner @a };\n"},
        "facts": [(["paths", "/x", "get", "responses", "404", "content", "application/json", "schema", "properties", "inner"], ("refers_to_schema_with_property", "mod"))],
        "mode": "reference-name-shared-across-modules",
    },
}


def at(doc, path):
    cur = doc
    for seg in path:
        if isinstance(seg, int):
            cur = cur[seg] if isinstance(cur, list) and seg < len(cur) else None
        else:
            cur = cur.get(seg) if isinstance(cur, dict) else None
        if cur is None:
            return None
    return cur


def check_fact(doc, path, want):
    got = at(doc, path)
    where = "/".join(str(s) for s in path)
    if isinstance(want, tuple):
        kind, arg = want
        if kind == "keys":
            ks = sorted(got) if isinstance(got, dict) else None
            return None if ks == sorted(arg) else "%s has keys %s, the source declares %s" % (where, ks, sorted(arg))
        if kind == "haskeys":
            ks = set(got) if isinstance(got, dict) else set()
            return None if set(arg) <= ks else "%s has %s, the source declares %s" % (where, sorted(ks), sorted(arg))
        if kind == "params":
            ps = sorted((p.get("in"), p.get("name"), bool(p.get("required", False))) for p in (got or []))
            return None if ps == sorted(arg) else "%s are %s, the source declares %s" % (where, ps, sorted(arg))
        if kind == "count":
            n = len(got) if isinstance(got, (dict, list)) else None
            return None if n == arg else "%s has %s entries, the source declares %d" % (where, n, arg)
        if kind == "refers_to_schema_with_property_type":
            ref = (got or {}).get("$ref", "") if isinstance(got, dict) else ""
            sch = at(doc, ["components", "schemas", ref.rsplit("/", 1)[-1]]) if ref else got
            t = (((sch or {}).get("properties") or {}).get(arg[0]) or {}).get("type")
            return None if t == arg[1] else "%s refers to a schema whose '%s' is %r, the declaration it names says %r" % (where, arg[0], t, arg[1])
        if kind == "refers_to_schema_with_property":
            ref = (got or {}).get("$ref", "") if isinstance(got, dict) else ""
            sch = at(doc, ["components", "schemas", ref.rsplit("/", 1)[-1]]) if ref else got
            props = (sch or {}).get("properties") or {}
            return None if arg in props else "%s refers to a schema with properties %s, the declaration it names has '%s'" % (where, sorted(props), arg)
    if want == {}:
        return None if got in ({}, None) else "%s is %s, nothing was declared" % (where, str(got)[:60])
    return None if got == want else "%s is %r, the source says %r" % (where, got, want)


def run_facts(rdir):
    cli = build_cli()
    probs, detail = [], {}
    for name, spec in FACTS.items():
        r = run_cli(cli, spec["files"], workdir=os.path.join(rdir, name), timeout=60)
        detail[name] = {"rc": r["rc"], "facts": len(spec["facts"]), "failed": []}
        if r["rc"] != 0:
            probs.append((name, spec.get("mode"), "%s: the program is not compiled (exit %s)" % (name, r["rc"])))
            continue
        try:
            doc = mirlib.yaml_to_obj(r["target"] or "")
        except Exception as ex:
            probs.append((name, spec.get("mode"), "%s: output is not YAML" % name))
            continue
        for path, want in spec["facts"]:
            msg = check_fact(doc, path, want)
            if msg:
                detail[name]["failed"].append(msg[:160])
                probs.append((name, spec.get("mode"), "%s: %s" % (name, msg)))
    return probs, detail


def struct_field_names(struct, crate_glob):
    for root in glob.glob(os.path.expanduser("~/.cargo/registry/src/*/" + crate_glob)):
        for fn in glob.glob(os.path.join(root, "src", "**", "*.rs"), recursive=True):
            txt = open(fn, encoding="utf-8", errors="replace").read()
            m = re.search(r"pub struct %s\s*\{(.*?)\n\}" % struct, txt, re.S)
            if m:
                return re.findall(r"(?m)^\s*pub\s+(?:r#)?(\w+)\s*:", m.group(1))
    return None


def uri_append_lemmas(o, L, S, MC, E, structural, on_sat):
    """Uri::append (shared with C01: it unwraps the last segment of the left operand - a path that can become empty is a
    panic waiting for the next concat)."""
    # concat: Uri::append joins two paths without doubling the separator - the trailing empty segment of the left
    # operand is dropped exactly when there is one - and takes the parameters of the right operand
    try:
        fap = MC.sel("spec", "append", arg0=r"&mut .*Uri")
        o.functions.append(mirlib.func_ref(fap, "oal-compiler"))
        exa = mirlib.executor([MC])
        n_pop = n_keep = 0
        for p in exa.run(fap, arg_names=["self", "other"]):
            if p.kind != "return":
                continue
            calls = list(p.calls())
            last = [e for e in calls if e[1] in ("slice::last", "Vec::last")]
            pops = [e for e in calls if e[1] == "Vec::pop"]
            apps = [e for e in calls if e[1] == "Vec::append"]
            mypath, otherpath = ("fld", ("deref", ("sym", "self")), 0), ("fld", ("sym", "other"), 0)
            rhs = apps[0][2][1] if apps else None
            while rhs is not None and rhs[0] == "addr":
                rhs = rhs[1]
            shape = len(apps) == 1 and len(pops) <= 1 and rhs == otherpath and any(t == mypath for t in ms.subterms(apps[0][2][0])) and \
                all(any(t == mypath for t in ms.subterms(e[2][0])) for e in pops)
            structural("Uri::append: the right operand's segments - all of them, untouched - are appended to the left operand's (after at most one pop of the left)", shape)
            if not last:
                structural("Uri::append: the decision to drop a segment looks at the last segment of the left operand", False)
                continue
            seg = ms.proj(ms.proj(last[0][3], ("v", "Some"), E), ("f", 0), E)
            empty = ("app", "UriSegment::is_empty", (seg,))
            if pops:
                n_pop += 1
                L.expect_unsat("Uri::append: a segment is dropped only if it is the empty trailing one", S.pc(p.pc) + [z3.Not(S.b(empty))], on_sat)
            else:
                n_keep += 1
                L.expect_unsat("Uri::append: an empty trailing segment of the left operand is always dropped (no doubled separator)", S.pc(p.pc) + [S.b(empty)], on_sat)
            st = {e[2]: e[3] for e in p.events if e[0] == "store" and e[1] == ("sym", "self")}
            structural("Uri::append: the result has the right operand's parameters", st.get((("f", 1),)) == ("fld", ("sym", "other"), 1))
        mirlib.check_translator(o, exa, "Uri::append")
        if n_pop == 0 or n_keep == 0:
            o.inconc("Uri::append: expected a dropping and a keeping path, got %d/%d" % (n_pop, n_keep))
    except KeyError as exn:
        o.inconc(str(exn)[:120])



def check():
    o = Outcome("C02")
    E = mirlib.enums()
    F = Findings()
    try:
        MO = mirlib.module("oal-openapi")
        MC = mirlib.module("oal-compiler")
        f_rpi = MO.one(r"::relation_path_item$")
        f_xr = MO.one(r"::xfer_responses$")
        f_vs = MO.one(r"::value_schema$")
        f_ot = MO.one(r"::object_type$")
        f_dr = MO.one(r"::domain_request$")
        f_xp = MO.one(r"::xfer_params$")
        f_up = MO.one(r"::uri_params$")
        f_ml = MO.one(r"::method_label$")
        f_ep = MC.one(r"^(eval::)?eval_program$")
    except Exception as ex:
        o.inconc("MIR: %s" % str(ex)[-300:])
        return o.finish()
    o.functions += [mirlib.func_ref(f, "oal-openapi") for f in (f_rpi, f_xr, f_vs, f_ot, f_dr, f_xp, f_up, f_ml)] + [mirlib.func_ref(f_ep, "oal-compiler")]
    o.bounds = {"control": "all paths; loops one arbitrary iteration from an arbitrary state", "values": "unbounded"}
    o.assumptions = ["openapiv3's struct field order is read from the crate source in the cargo registry (the version Cargo.lock pins)",
                     "IndexMap::entry(k).or_insert(v) keeps an existing entry; Option::insert replaces, Option::get_or_insert(_with) keeps (library semantics, modelled in the query)",
                     "Builder::schema and the per-form emitters are uninterpreted in the callers' lemmas"]
    o.outside = ["the evaluator's translation of syntax into the spec (eval_*), except eval_program's bookkeeping", "annotation parsing and merging",
                 "equality of whole documents with a reference semantics (the oracle states facts for four programs, it is not a second translator)"]
    L = mirlib.Lemma(o)
    S = L.smt
    bad = {}          # lemma name -> mode (role of a known finding) or None

    def fail(name, mode=None):
        bad.setdefault(name, mode)

    def on_sat(name, model):
        fail(name)

    def structural(name, ok, mode=None):
        o.query(name, "mirsym/structural", "unsat" if ok else "violated", 0)
        if not ok:
            fail(name, mode)
        return ok

    # ---------------------------------------------------------------- method -> PathItem slot
    slots = struct_field_names("PathItem", "openapiv3-*")
    methods = E.table.get("Method")
    if not slots or not methods:
        o.inconc("cannot read PathItem's fields (%s) or Method's variants (%s)" % (bool(slots), bool(methods)))
    else:
        o.extra["path_item_slots"] = slots
        # labels of the methods, from method_label's own MIR
        labels = {}
        for i, m in enumerate(methods):
            ex = mirlib.executor([MO])
            for p in ex.run(f_ml, [("sym", "self"), ("variant", "Method", m, ())]):
                if p.kind == "return":
                    labels[m] = ms.show(p.ret).strip('"')
        ex = mirlib.executor([MO])
        seen = set()
        pi_local = [k for k, v in f_rpi.debug.items() if v == "path_item"]
        for p in ex.run(f_rpi, arg_names=["self", "rel"]):
            if p.kind != "backedge":
                continue
            nx = [e for e in p.calls() if e[1].endswith("Iterator::next")]
            if not nx:
                continue
            pair = ms.proj(ms.proj(nx[-1][3], ("v", "Some"), E), ("f", 0), E)
            md = None
            for a, op, v in p.pc:
                if op == "==" and isinstance(v, int) and a[0] == "disc" and ("deref", ms.proj(pair, ("f", 0), E)) in list(ms.subterms(a)) + [a[1]]:
                    md = v
            if md is None:
                for a, op, v in p.pc:
                    if op == "==" and isinstance(v, int) and not isinstance(v, bool) and "as Some).0.0" in ms.show(a):
                        md = v
            if md is None or md >= len(methods):
                continue
            m = methods[md]
            seen.add(m)
            val = [v for k, v in p.state.vals.items() if k in p.state.havocked and pi_local and (k[1] if isinstance(k, tuple) else k) == pi_local[0]]
            if not val:
                structural("relation_path_item: the path item is carried from one method to the next", False)
                continue
            val = val[0]
            changed = []
            for i in range(len(slots)):
                fv = ms.proj(val, ("f", i), E)
                if "Option::Some(openapiv3::Operation" in ms.show(fv)[:40]:
                    changed.append(i)
            want = slots.index(labels.get(m, m.lower())) if labels.get(m, m.lower()) in slots else None
            structural("relation_path_item: the operation of method %s is stored in the path item's `%s` slot and in no other" % (m, labels.get(m, m.lower())), changed == [want])
            if changed:
                opv = ms.proj(ms.proj(val, ("f", changed[0]), E), ("v", "Some"), E)
                txt = ms.show(opv)
                structural("relation_path_item (%s): the operation carries this transfer's parameters, request body and responses" % m,
                           all(("Builder::%s(self, " % fn) in txt and "as Some).0.1" in txt for fn in ("xfer_params", "xfer_request", "xfer_responses")))
                # ... the parameters untouched: the field is the very list xfer_params answered (nothing filtered out of it,
                # nothing merged into it - a parameter of the same name at path level is a different parameter)
                ops = [x for x in ms.subterms(opv) if x[0] == "aggr" and str(x[1]).endswith("Operation") and x[3] and "parameters" in x[3]]
                if ops:
                    pv = ops[0][2][list(ops[0][3]).index("parameters")]
                    structural("relation_path_item (%s): the operation's parameters are exactly what xfer_params answers for this transfer" % m,
                               pv[0] == "app" and pv[1] == "Builder::xfer_params")
        structural("relation_path_item: every HTTP method of the language has its slot", seen == set(methods))
        mirlib.check_translator(o, ex, "relation_path_item")
        ex = mirlib.executor([MO])
        for p in ex.run(f_rpi, arg_names=["self", "rel"]):
            if p.kind == "return":
                structural("relation_path_item: the item's own parameters are those of the relation's URI",
                           "Builder::uri_params(self, &*rel.0)" in ms.show(ms.proj(p.ret, ("f", slots.index("parameters")), E)))

    # ---------------------------------------------------------------- responses: nothing recorded for a status is thrown away
    ex = mirlib.executor([MO], max_paths=6000)
    roles = {"status": 0, "default": 0}
    for p in ex.run(f_xr, arg_names=["self", "xfer"]):
        if p.kind != "backedge":
            continue
        names = [e[1] for e in p.calls()]
        calls = p.calls()
        nx = [e for e in calls if e[1].endswith("Iterator::next")]
        if not nx:
            continue
        item = ms.proj(ms.proj(nx[-1][3], ("v", "Some"), E), ("f", 0), E)
        if "IndexMap::entry" in names:
            roles["status"] += 1
            en = [e for e in calls if e[1] == "IndexMap::entry"][0]
            hs = [e for e in calls if e[1] == "Builder::http_status_code"]
            oi = [e for e in calls if e[1].startswith("Entry::or_insert")]
            structural("xfer_responses: a content with a status goes to the response keyed by that status, created only if none exists yet",
                       len(hs) == 1 and en[2][1] == hs[0][3] and len(oi) == 1 and oi[0][2][0] == en[3])
        else:
            roles["default"] += 1
            # model: which response does this content go to when a default response already exists?
            old = z3.Const("old_default", S.V) if hasattr(S, "V") else None
            ins = [e for e in calls if e[1] in ("Option::insert", "Option::replace")]
            goi = [e for e in calls if e[1].startswith("Option::get_or_insert")]
            old_is_some, same = z3.Bool("old_default_is_some"), z3.Bool("uses_old_default")
            model = []
            kept_by_summary = any(u.startswith("Option::get_or_insert") for u in ex.summaries_used)
            if (goi or kept_by_summary) and not ins:
                model = [same == old_is_some]          # get_or_insert*: keeps what is there
            elif ins:
                model = [same == z3.BoolVal(False)]     # insert / replace: always a fresh response
            else:
                model = None
            if model is None:
                structural("xfer_responses: a content without a status goes to the default response", False)
            else:
                v, _ = S.check("xfer_responses: default response kept", model + [old_is_some, z3.Not(same)])
                o.query("xfer_responses: a content without a status is added to the default response already recorded, if there is one (a second media type does not discard the first)",
                        "mirsym/z3", v, 0)
                if v != "unsat":
                    fail("xfer_responses: a content without a status replaces the default response recorded so far (Option::insert)", "default-response-overwritten")
        # the content lands under its media type with its own schema
        # ... every content also brings its headers and its description: whether or not it has a body
        ch = [e for e in calls if e[1] == "Builder::content_headers"]
        structural("xfer_responses: every content of the iteration - with or without a body - hands its headers to the response", bool(ch) and
                   any(t == ms.proj(item, ("f", 1), E) or t == ("deref", ms.proj(item, ("f", 1), E)) for t in ms.subterms(ch[0][2][1])))
        mi = [e for e in calls if e[1] == "IndexMap::insert"]
        if mi:
            sc = [e for e in calls if e[1] == "Builder::schema"]
            structural("xfer_responses: the media-type entry holds the schema of this very content, keyed by its media type (or the default one)",
                       len(sc) == 1 and any(t == sc[0][3] for t in ms.subterms(mi[-1][2][2])) and
                       any(t[0] == "app" and t[1] == "Option::unwrap_or_else" for t in ms.subterms(mi[-1][2][1])))
    if min(roles.values()) == 0:
        o.inconc("xfer_responses: expected iterations with and without a status (%s)" % roles)
    mirlib.check_translator(o, ex, "xfer_responses")

    # ---------------------------------------------------------------- schema forms
    forms = E.table.get("SchemaExpr") or []
    WANT = {"Num": "number_schema", "Str": "string_schema", "Bool": "boolean_schema", "Int": "integer_schema", "Rel": "rel_schema", "Uri": "uri_schema",
            "Object": "object_schema", "Array": "array_schema"}
    OPS = {"Join": "join_schema", "Sum": "sum_schema", "Any": "any_schema"}
    ex = mirlib.executor([MO], max_paths=4000)
    got = {}
    for p in ex.run(f_vs, arg_names=["self", "s"]):
        if p.kind != "return":
            continue
        d = None
        for a, op, v in p.pc:
            if op == "==" and isinstance(v, int) and not isinstance(v, bool) and a[0] == "disc" and "s.0" in ms.show(a) and "as " not in ms.show(a):
                d = v
        if d is None or d >= len(forms):
            continue
        em = [e[1].split("::")[-1] for e in p.calls() if e[1].startswith("Builder::") and e[1].endswith("_schema")]
        got.setdefault(forms[d], set()).update(em)
        txt = ms.show(p.ret)
        structural("value_schema: description and title of the schema are those of the source schema", "s.1" in txt or "Option.Clone::clone" in txt)
    for fm, fn in WANT.items():
        structural("value_schema: a %s schema is emitted by %s" % (fm, fn), got.get(fm) == {fn})
    structural("value_schema: & / | / ~ are emitted as allOf / oneOf / anyOf", got.get("Op") == set(OPS.values()))
    for opn, fn in (("join_schema", "AllOf"), ("sum_schema", "OneOf"), ("any_schema", "AnyOf")):
        try:
            fo = MO.one(r"::%s$" % opn)
            exo = mirlib.executor([MO])
            oks = any(p.kind == "return" and re.search(r"\b%s\{" % fn, ms.show(p.ret)) and "slice::iter(schemas)" in ms.show(p.ret) for p in exo.run(fo, arg_names=["self", "schemas"]))
            structural("%s builds %s" % (opn, fn), oks)
        except KeyError as exn:
            o.inconc(str(exn)[:120])
    mirlib.check_translator(o, ex, "value_schema")

    # ---------------------------------------------------------------- object properties / required
    import iterchain
    try:
        ex = mirlib.executor([MO])
        rets = [p for p in ex.run(f_ot, arg_names=["self", "obj"]) if p.kind == "return"]
        txt = ms.show(rets[0].ret) if rets else ""
        structural("object_type: properties and required are both computed from the object's own property list", txt.count("obj.0") >= 2 or txt.count("*obj") >= 2)
        # closures: property -> (name, schema(p.schema)); required filter
        cl = [f for f in MO.funcs if re.search(r"::object_type::\{closure#\d+\}$", f.name)]
        seen_req = seen_prop = False
        for cf in cl:
            exc = mirlib.executor([MO])
            for p in exc.run(cf, arg_names=["c", "p"]):
                if p.kind != "return":
                    continue
                t = ms.show(p.ret)
                if "Builder::schema" in t:
                    seen_prop = True
                    structural("object_type: a property is emitted under its own name with the schema of its own type", "p.0" in t.replace("*p", "p") or "Ident.AsRef" in t)
                elif "Option::None" in t or "Option::Some" in t:
                    seen_req = True
            for p in exc.run(cf, arg_names=["c", "p"]):
                if p.kind == "return" and ms.show(p.ret).startswith("Option::Some"):
                    uo = [e for e in p.calls() if e[1] == "Option::unwrap_or"]
                    orr = [e for e in p.calls() if e[1] == "Option::or"]
                    if uo:
                        L.expect_unsat("object_type: a property is listed as required only if it (or its type) is flagged required", S.pc(p.pc) + [z3.Not(S.b(uo[0][3]))], on_sat)
                        structural("object_type: the flag is the property's own, else its type's, else false", len(orr) == 1 and uo[0][2][1] == ms.FALSE)
                elif p.kind == "return" and ms.show(p.ret).startswith("Option::None"):
                    uo = [e for e in p.calls() if e[1] == "Option::unwrap_or"]
                    if uo:
                        L.expect_unsat("object_type: a property is left out of required only if it is not flagged", S.pc(p.pc) + [S.b(uo[0][3])], on_sat)
        if not (seen_prop and seen_req):
            o.inconc("object_type: closures for properties / required not found (%s/%s)" % (seen_prop, seen_req))
    except Exception as exn:
        o.inconc("object_type: %s" % str(exn)[:160])

    # ---------------------------------------------------------------- parameters
    for fn, loc, req in (("prop_path_param", "Path", "True"), ("prop_query_param", "Query", None), ("prop_header_param", "Header", None)):
        try:
            fp = MO.one(r"::%s$" % fn)
            exo = mirlib.executor([MO])
            for p in exo.run(fp, arg_names=["self", "prop"]):
                if p.kind == "return":
                    t = ms.show(p.ret)
                    ppd = [e for e in p.calls() if e[1] == "Builder::prop_param_data"]
                    okk = ("Parameter::" + loc) in t[:40] and len(ppd) == 1 and ppd[0][2][1] == ("sym", "prop")
                    if req == "True":
                        okk = okk and ppd[0][2][2] == ms.TRUE
                    elif okk:
                        # the flag handed on is true exactly when the property's own `required` is Some(true) - however spelt
                        flag = ppd[0][2][2]
                        reqs = [t_ for t_ in ms.subterms(flag) if t_[0] == "fld" and t_[1] == ("deref", ("sym", "prop"))]
                        if len(set(reqs)) != 1:
                            okk = False
                        else:
                            rq = reqs[0]
                            pay = ms.proj(ms.proj(rq, ("v", "Some"), E), ("f", 0), E)
                            okk = L.expect_unsat("%s: the required flag is true exactly when the property says Some(true)" % fn,
                                                 S.pc(p.pc) + [z3.Or(S.i(ms.disc_of(rq, E)) == 0, S.i(ms.disc_of(rq, E)) == 1),
                                                               S.b(flag) != z3.And(S.i(ms.disc_of(rq, E)) == 1, S.b(pay))], on_sat)
                    structural("%s: a %s parameter for this very property, required %s" % (fn, loc.lower(), "always" if req else "iff the property is flagged required"), okk)
        except KeyError as exn:
            o.inconc(str(exn)[:120])
    for f, label, wants in ((f_xp, "xfer_params", {"prop_query_param": "xfer.", "prop_header_param": "xfer."}), (f_up, "uri_params", {"prop_path_param": "uri.", "prop_query_param": "uri."})):
        ex = mirlib.executor([MO], max_paths=4000)
        found = set()
        for p in ex.run(f, arg_names=["self", label.split("_")[0] if label != "uri_params" else "uri"]):
            if p.kind != "backedge":
                continue
            pu = [e for e in p.calls() if e[1] == "Vec::push"]
            loops = [i for i, e in enumerate(p.events) if e[0] == "loop"]
            tail = [e for e in p.events[loops[-1] + 1:] if e[0] == "call"] if loops else []
            tpu = [e for e in tail if e[1] in ("Vec::push", "collect::item")]      # loop body, or the item a pipeline collects
            mk = [e for e in tail if e[1].startswith("Builder::prop_")]
            if tpu:
                okk = len(tpu) == 1 and len(mk) == 1 and any(t == mk[0][3] for t in ms.subterms(tpu[0][2][1]))
                structural("%s: one iteration pushes exactly the parameter made from the property at hand" % label, okk)
                found.add(mk[0][1].split("::")[-1] if mk else "?")
        structural("%s: produces %s" % (label, " and ".join(sorted(wants))), found == set(wants))
        mirlib.check_translator(o, ex, label)

    # ---------------------------------------------------------------- request body
    ex = mirlib.executor([MO])
    for p in ex.run(f_dr, arg_names=["self", "domain"]):
        if p.kind == "return":
            t = ms.show(p.ret)
            structural("domain_request: a request body exists exactly when the domain has a schema (Option::map over it), under the declared media type or the default one",
                       t.startswith("Option::map(Option::as_ref(") and "Option::unwrap_or_else" in t)
    # ---------------------------------------------------------------- eval_program bookkeeping
    ex = mirlib.executor([MC], max_paths=4000)
    n_res = n_ref = 0
    for p in ex.run(f_ep, arg_names=["ctx", "program", "ann"]):
        if p.kind != "backedge":
            continue
        loops = [i for i, e in enumerate(p.events) if e[0] == "loop"]
        tail = [e for e in p.events[loops[-1] + 1:] if e[0] == "call"] if loops else []
        tn = [e[1] for e in tail]
        if "cast_relation" in tn:
            n_res += 1
            pu = [e for e in tail if e[1] == "Vec::push"]
            cr = [e for e in tail if e[1] == "cast_relation"]
            structural("eval_program: every `res` statement contributes exactly one relation, appended in source order", len(pu) == 1 and len(cr) == 1 and pu[0][2][1] == cr[0][3])
        elif "IndexMap::insert" in tn:
            n_ref += 1
            ins = [e for e in tail if e[1] == "IndexMap::insert"][0]
            cs = [e for e in tail if e[1] == "cast_schema"]
            structural("eval_program: every finished reference becomes a component under its own name", len(cs) == 1 and any(t == cs[0][3] for t in ms.subterms(ins[2][2])))
    if n_res == 0 or n_ref == 0:
        o.inconc("eval_program: expected a resource iteration and a reference iteration (%d/%d)" % (n_res, n_ref))

    # ---------------------------------------------------------------- annotation flow: who extends whom
    # Annotation::extend(receiver, argument): the argument's scalars replace the receiver's (deep_extend_value: `*prev = other`)
    FLOW = (("eval_terminal", ["ctx", "terminal", "ann"], "ann", "compose_annotations(Terminal::annotations(&terminal))",
             "a terminal's own inline annotations extend (and so take precedence over) what flows in"),
            ("eval_declaration", ["ctx", "decl", "ann"], "compose_annotations(Declaration::annotations(&decl))", "ann",
             "what flows in from the use of a name extends the declaration's own annotations"),
            ("eval_application", ["ctx", "app", "ann"], "compose_annotations(Declaration::annotations(", "ann",
             "what flows in from the application extends the applied declaration's own annotations"),
            ("eval_binding", ["ctx", "binding", "ann"], "Context::lookup_binding(ctx, &Binding::ident(&binding))", "ann",
             "what is written at the use of a parameter extends the annotations of the argument bound to it"))
    for fn, names, recv, arg, what in FLOW:
        try:
            ff = MC.one(r"^(eval::)?%s$" % fn)
        except KeyError as exn:
            o.inconc(str(exn)[:120])
            continue
        o.functions.append(mirlib.func_ref(ff, "oal-compiler"))
        exa = mirlib.executor([MC], max_paths=6000)
        seen = 0
        okf = True
        for p in exa.run(ff, arg_names=names):
            for e in p.calls():
                if e[1] != "Annotation::extend":
                    continue
                seen += 1
                r, a = ms.show(e[2][0]), ms.show(e[2][1])

                def is_in(txt, want):
                    return (want == "ann" and re.search(r"Rc\.AsRef::as_ref\(&ann\)", txt) is not None) or (want != "ann" and want in txt)
                if not (is_in(r, recv) and is_in(a, arg)) or (recv != "ann" and is_in(r, "ann")) or (arg != "ann" and is_in(a, "ann")):
                    okf = False
        structural("%s: %s" % (fn, what), okf and seen > 0)
    try:
        fdv = MC.one(r"^(annotation::)?deep_extend_value$")
        exa = mirlib.executor([MC])
        wins = False
        for p in exa.run(fdv, arg_names=["prev", "other"]):
            if p.kind == "return" and not [e for e in p.calls() if e[1] in ("deep_extend_mapping", "deep_extend_sequence")]:
                st = [e for e in p.events if e[0] == "store"]
                hv = list(p.state.heap.values())
                if any(v == ("sym", "other") for v in hv) or any(e[3] == ("sym", "other") for e in st):
                    wins = True
        structural("deep_extend_value: where both sides give a plain value the extending side replaces the extended one", wins)
    except KeyError as exn:
        o.inconc(str(exn)[:120])

    # what a function application denotes: the arguments are the caller's expressions, evaluated in the caller's context
    # (lemma shared with C08) - the document then describes what the source names, not a same-named binding of the callee
    try:
        import props.c08 as c08
        c08.application_lemmas(o, MC, E, MC.one(r"^(eval::)?eval_application$"), structural)
    except KeyError as exn:
        o.inconc(str(exn)[:120])

    uri_append_lemmas(o, L, S, MC, E, structural, on_sat)

    # every instantiation of a rec gets a name of its own - two schemas under one name means one of them is not in the document
    # (naming lemmas shared with C09)
    try:
        import props.c09 as c09
        c09.naming_lemmas(o, L, S, MC, E, (MC.one(r"^(eval::)?eval_recursion$"), MC.one(r"^eval::<impl[^>]*>::node_identifier$"), MC.one(r"^eval::<impl[^>]*>::push_scope$"),
                                          MC.sel("eval", "new", ret=r"eval::Context")), structural, on_sat)
    except KeyError as exn:
        o.inconc(str(exn)[:120])

    # a declared reference is in the document: whatever reference_schema points at, all_components registers (shared with C03)
    try:
        import props.c03 as c03
        c03.ref_closure_lemmas(o, L, S, MO, E, structural, on_sat)
    except Exception as exn:
        o.inconc("ref closure lemmas: %s" % str(exn)[:120])

    o.samples = [{"query": q["name"], "verdict": q["verdict"]} for q in o.queries[:16]]
    rdir = new_replay_dir("C02", "facts")
    probs, detail = run_facts(rdir)
    o.extra["real_cli_fact_programs"] = detail
    o.extra["facts_checked"] = sum(d["facts"] for d in detail.values())
    with open(os.path.join(rdir, "cmd"), "w") as f:
        f.write("#!/bin/sh\ncd /verif && exec ./check C02 --replay %s\n" % rdir)
    # known findings are keyed by role (mode); a lemma failure / oracle deviation of a listed mode is printed as KNOWN-FINDING
    unknown_bad = []
    for name, mode in bad.items():
        k = F.match("C02", {"mode": mode}) if mode else None
        confirmed = [pr for pr in probs if pr[1] == mode] if mode else []
        if k and confirmed:
            o.known_finding(k.get("what", name))
        else:
            unknown_bad.append(name)
    rest = []
    for pname, mode, msg in probs:
        k = F.match("C02", {"mode": mode}) if mode else None
        if k:
            if k.get("what") not in o.known:
                o.known_finding(k.get("what", msg))
        else:
            rest.append(msg)
    if unknown_bad:
        if rest or any(pr for pr in probs if pr[1] in [bad[n] for n in unknown_bad]):
            shown = rest or [pr[2] for pr in probs if pr[1] in [bad[n] for n in unknown_bad]]
            o.violation("the document does not contain what the source declares; lemma(s): %s; real oal-cli: %s" % ("; ".join(unknown_bad[:3]), "; ".join(shown[:3])), rdir)
        else:
            o.inconc("UNCONFIRMED: lemma(s) fail (%s) but every fact holds in what the real oal-cli emits" % "; ".join(unknown_bad[:3]))
    elif rest:
        o.oracle_only("real oal-cli: %s - although every lemma holds" % "; ".join(rest[:4]), rdir)
    return o.finish()


def replay(path):
    rdir = new_replay_dir("C02", "facts-replay")
    probs, detail = run_facts(rdir)
    print(detail)
    print("problems:", probs)
    return 1 if probs else 0
