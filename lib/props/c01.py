"""C01 - accepted programs never go wrong (bounded): "kind check protects cast" as SMT.

Tables are extracted from the MIR of oal-compiler on every run:
  * TagWrap::is_*  x  Tag variant        (what each kind predicate accepts)
  * cast_*         x  Expr variant       (where each cast panics)
  * eval_any / type_check / tag dispatch (node kind -> eval_* / check_* / Tag)
  * cast sites in eval_*  (which child feeds which cast)
  * guards in check_*     (which predicates the checker applies to that child's tag)
  * constant-tag equations in constrain()
z3 decides, per site, whether a producer exists whose tag passes the guard while the
cast panics on its value; every model is rendered as a program and run through the
real oal-cli; only a crash counts.
"""
import os
import re

import mirlib
import mirparse as mp
import mirsym as ms
import z3
from vcommon import Outcome, Findings, build_cli, run_cli, new_replay_dir, tier, log, panic_location, crashed

# ------------------------------------------------------------------------------------
# hand-written part: how to *write* a producer / a site as source text (cannot cause a
# false alarm: a program the real front end rejects never crashes the evaluator)

PRELUDE = "let fn1 x = x;\n"
PRODUCERS = [
    # id, node kind, sub-kind, snippet, tag override (for kinds whose tag is a unified variable)
    ("lit-string", "Literal", "String", '"t"', None),
    ("lit-number", "Literal", "Number", "7", None),
    ("lit-status", "Literal", "HttpStatus", "4XX", None),
    ("prim-num", "Primitive", "Num", "num", None),
    ("prim-str", "Primitive", "Str", "str", None),
    ("prim-bool", "Primitive", "Bool", "bool", None),
    ("prim-int", "Primitive", "Int", "int", None),
    ("prim-uri", "Primitive", "Uri", "uri", None),
    ("relation", "Relation", None, "(/p on get -> <>)", None),
    ("uri-template", "UriTemplate", None, "/p", None),
    ("object", "Object", None, "{}", None),
    ("content", "Content", None, "<>", None),
    ("transfer", "Transfer", None, "(get -> <>)", None),
    ("array", "Array", None, "[num]", None),
    ("op-join", "VariadicOp", "Join", "({ 'a num } & { 'b num })", None),
    ("op-any", "VariadicOp", "Any", "(num ~ str)", None),
    ("op-sum", "VariadicOp", "Sum", "(num | str)", "Primitive"),
    ("op-range", "VariadicOp", "Range", "(<> :: <>)", None),
    ("property-prim", "Property", None, "'q num", "Property[Primitive]"),
    ("property-obj", "Property", None, "'q {}", "Property[other]"),
    ("unary", "UnaryOp", None, "('q num !)", "Property[Primitive]"),
    ("lambda", "Declaration", "bindings", "fn1", "Func"),
    ("recursion", "Recursion", None, "(rec r { 'k [r] })", "Object"),
]

# site key (root accessor, sub) -> program template with HOLE
TEMPLATES = {
    ("Transfer::domain", None): "res / on put : HOLE -> <>;",
    ("Transfer::range", None): "res / on get -> HOLE;",
    ("Relation::uri", None): "res HOLE on get -> <>;",
    ("Relation::transfers", None): "res / on HOLE;",
    ("Content::body", None): "res / on get -> <HOLE>;",
    ("ContentMeta::rhs", "Media"): "res / on get -> <media=HOLE, {}>;",
    ("ContentMeta::rhs", "Headers"): "res / on get -> <headers=HOLE, {}>;",
    ("ContentMeta::rhs", "Status"): "res / on get -> <status=HOLE, {}>;",
    ("Array::inner", None): "res / on get -> <[HOLE]>;",
    ("Property::rhs", None): "res / on get -> <{ 'p HOLE }>;",
    ("Object::properties", None): "res / on get -> <{ HOLE }>;",
    ("VariadicOp::operands", "Join"): "res / on get -> <(HOLE & {})>;",
    ("VariadicOp::operands", "Any"): "res / on get -> <(HOLE ~ num)>;",
    ("VariadicOp::operands", "Sum"): "res / on get -> <(HOLE | num)>;",
    ("VariadicOp::operands", "Range"): "res / on get -> (HOLE :: <>);",
    ("UnaryOp::operand", None): "res / on get -> <{ (HOLE) ! }>;",
    ("UriVariable::inner", None): "res /a/{ HOLE } on get -> <>;",
    ("Resource::relation", None): "res HOLE;",
    ("Application::lambda", None): "res / on get -> <(HOLE num)>;",
    ("refs", None): "let @r = HOLE;\nres / on get -> <@r>;",
}
# the same sites with their optional neighbours present (a check that looks at a child only when a sibling is absent
# shows only here)
ALT_TEMPLATES = {
    ("Transfer::range", None): ["res / on put : <{}> -> HOLE;", "res / on get { 'q num } -> HOLE;", "res / on post { 'q num } : <{}> -> HOLE;"],
    ("Transfer::domain", None): ["res / on put { 'q num } : HOLE -> <>;"],
    ("Content::body", None): ["res / on get -> <status=200, media=\"text/plain\", headers={ 'h str }, HOLE>;"],
    ("ContentMeta::rhs", "Status"): ["res / on get -> <status=HOLE>;", "res / on get -> <media=\"a/b\", status=HOLE, {}>;"],
    ("ContentMeta::rhs", "Media"): ["res / on get -> <status=200, media=HOLE, {}>;"],
    ("ContentMeta::rhs", "Headers"): ["res / on get -> <headers=HOLE>;"],
    ("Relation::uri", None): ["res HOLE on get -> <>, put : <{}> -> <>;"],
    ("Property::rhs", None): ["res / on get -> <{ 'p! HOLE, 'q num }>;", "res / on get { 'p HOLE } -> <>;", "res /a?{ 'p HOLE } on get -> <>;"],
    ("Array::inner", None): ["res / on get -> <[[HOLE]]>;"],
    ("UriVariable::inner", None): ["res /a/{ HOLE }/b/{ 'k num } on get -> <>;"],
}
# the same site inside the body of a one-parameter function living in another module
XMOD = {
    ("Transfer::domain", None): ("let f x = put : x -> <>;", "res / on (f ARG);"),
    ("Transfer::range", None): ("let f x = get -> x;", "res / on (f ARG);"),
    ("Relation::uri", None): ("let f x = x on get -> <>;", "res (f ARG);"),
    ("Relation::transfers", None): ("let f x = / on x;", "res (f ARG);"),
    ("Content::body", None): ("let f x = <x>;", "res / on get -> (f ARG);"),
    ("ContentMeta::rhs", "Media"): ("let f x = <media=x, {}>;", "res / on get -> (f ARG);"),
    ("ContentMeta::rhs", "Headers"): ("let f x = <headers=x, {}>;", "res / on get -> (f ARG);"),
    ("ContentMeta::rhs", "Status"): ("let f x = <status=x, {}>;", "res / on get -> (f ARG);"),
    ("Array::inner", None): ("let f x = [x];", "res / on get -> <f ARG>;"),
    ("Property::rhs", None): ("let f x = { 'p x };", "res / on get -> <f ARG>;"),
    ("Object::properties", None): ("let f x = { x };", "res / on get -> <f ARG>;"),
    ("VariadicOp::operands", "Join"): ("let f x = x & {};", "res / on get -> <f ARG>;"),
    ("VariadicOp::operands", "Any"): ("let f x = x ~ num;", "res / on get -> <f ARG>;"),
    ("VariadicOp::operands", "Sum"): ("let f x = x | num;", "res / on get -> <f ARG>;"),
    ("VariadicOp::operands", "Range"): ("let f x = x :: <>;", "res / on get -> (f ARG);"),
    ("UnaryOp::operand", None): ("let f x = { x ! };", "res / on get -> <f ARG>;"),
    ("UriVariable::inner", None): ("let f x = /a/{ x };", "res (f ARG) on get -> <>;"),
    ("Resource::relation", None): None,
    ("Application::lambda", None): ("let f x = x num;", "res / on get -> <f ARG>;"),
    ("refs", None): None,
}

LITERAL_TOKEN = {"String": "Symbol", "Number": "Number", "HttpStatus": "HttpStatus"}


def abstract_tags(E):
    out = []
    for v in E.table["Tag"]:
        if v == "Property":
            out += ["Property[Primitive]", "Property[other]"]
        else:
            out.append(v)
    return out


def tag_value(t):
    if t == "Property[Primitive]":
        return ("variant", "Tag", "Property", (("box", ("variant", "Tag", "Primitive", ())),))
    if t == "Property[other]":
        return ("variant", "Tag", "Property", (("box", ("variant", "Tag", "Object", ())),))
    if t == "Func":
        return ("variant", "Tag", "Func", (("sym", "functag"),))
    if t == "Var":
        return ("variant", "Tag", "Var", (("sym", "tagid"),))
    return ("variant", "Tag", t, ())


def abstract_of_term(t):
    """A Tag term built by tag()/constrain() -> abstract tag name (or None)."""
    if t[0] != "variant" or t[1] != "Tag":
        return None
    if t[2] == "Property":
        inner = t[3][0] if t[3] else None
        while inner and inner[0] in ("box", "app") and inner[0] == "box":
            inner = inner[1]
        if inner and inner[0] == "app" and inner[2]:
            inner = inner[2][0]
        if inner and inner[0] == "variant" and inner[2] == "Primitive":
            return "Property[Primitive]"
        if inner and inner[0] == "variant" and inner[2] == "Var":
            return "Property[?]"
        return "Property[other]"
    return t[2]


class Tables:
    def __init__(self, M, E, o):
        self.M, self.E, self.o = M, E, o
        self.tags = abstract_tags(E)
        self.variants = [v for v in E.table["Expr"]]
        self.preds = {}
        self.casts = {}
        self.unknown = []

    def build(self):
        M, E = self.M, self.E
        inl = [r"typecheck::<impl[^>]*>::is_\w+$"]
        for f in M.find(r"typecheck::<impl[^>]*>::is_\w+$"):
            name = f.short.split("::")[-1]
            row = {}
            for t in self.tags:
                ex = ms.Executor([M], enums=E, inline=inl)
                outs = ex.run(f, [("addr", ("aggr", "TagWrap", (tag_value(t),), None))])
                rets = {ms.show(x.ret) for x in outs if x.kind == "return"}
                self.unknown += ex.unknown
                if rets == {"True"}:
                    row[t] = True
                elif rets == {"False"}:
                    row[t] = False
                else:
                    row[t] = None
            self.preds[name] = row
            self.o.functions.append(mirlib.func_ref(f, "oal-compiler"))
        inl = [r"is_schema_like$", r"is_content_like$", r"is_uri_like$", r"^(eval::)?cast_\w+$"]
        for f in M.find(r"^(eval::)?cast_\w+$"):
            name = f.short.split("::")[-1]
            row = {}
            for v in self.variants:
                ex = ms.Executor([M], enums=E, inline=inl)
                val = ("variant", "Expr", v, (("sym", "p0"), ("sym", "p1")))
                outs = ex.run(f, [("aggr", "tuple", (val, ("sym", "ann")), None)])
                self.unknown += ex.unknown
                kinds = set()
                for x in outs:
                    if x.kind == "diverge" and x.info.get("panic"):
                        kinds.add("panic")
                    elif x.kind == "return":
                        kinds.add("ret")
                    elif x.kind != "unreachable":
                        kinds.add(x.kind)
                row[v] = True if kinds == {"panic"} else (False if kinds == {"ret"} else None)
            self.casts[name] = row
            self.o.functions.append(mirlib.func_ref(f, "oal-compiler"))


def cast_kinds(p):
    """Node kinds whose `syn::K::cast(node)` succeeded on this path (if-let or .is_some())."""
    ks = []
    for a, op, v in p.pc:
        if op != "==":
            continue
        if v == 1 and a[0] == "disc" and a[1][0] == "app" and a[1][1].endswith("AbstractSyntaxNode::cast"):
            ks.append(a[1][1].split(".")[0])
        elif v is True and a[0] == "op" and a[1] == "Eq" and a[3] == ms.C("int", 1) and a[2][0] == "disc" and \
                a[2][1][0] == "app" and a[2][1][1].endswith("AbstractSyntaxNode::cast"):
            ks.append(a[2][1][1].split(".")[0])
    return ks


def dispatch(M, E, fname, callee_re):
    """Node kind -> callee for an if-let chain over `syn::X::cast(node)`."""
    f = M.one(fname)
    ex = ms.Executor([M], enums=E)
    out = {}
    for p in ex.run(f):
        ks = cast_kinds(p)
        ev = [e[1] for e in p.calls() if re.match(callee_re, e[1])]
        if ks and ev:
            out.setdefault(ks[-1], ev[0].split("::")[-1])
    return out, ex.unknown, f


ACCESSOR = re.compile(r"^[A-Z]\w*::[a-z_]\w*$")
NOT_ACCESSOR = re.compile(r"^(Rc|Box|Vec|Option|Result|String|Iterator|IntoIterator|Default|Clone|Expr|Error|AnnRef|Context|InferenceSet|TagWrap|Tag|FuncTag|Seq|NodeRef|Terminal::inner|Terminal::annotations)\b")


def root_accessor(term, path, param):
    """Name of the syntax accessor a node term was obtained from."""
    best = None
    for t in ms.subterms(term):
        if t[0] == "app" and ACCESSOR.match(t[1]) and not NOT_ACCESSOR.match(t[1]) and not t[1].endswith("::node"):
            best = t[1]          # innermost-last wins: the accessor applied to the root node
    if best:
        # prefer the outermost meaningful accessor
        for t in ms.subterms(term):
            if t[0] == "app" and ACCESSOR.match(t[1]) and not NOT_ACCESSOR.match(t[1]) and not t[1].endswith("::node"):
                return t[1]
    # element of a loop: the last accessor on the root parameter before the loop head
    loopsyms = [t for t in ms.subterms(term) if t[0] == "sym" and "#loop" in t[1]]
    if loopsyms:
        acc = None
        for e in path.events:
            if e[0] == "loop":
                break
            if e[0] == "call" and ACCESSOR.match(e[1]) and not NOT_ACCESSOR.match(e[1]):
                acc = e[1]
        # several loops in one function: take the accessor right before *this* loop
        m = re.search(r"#loop(\d+)_", loopsyms[0][1])
        if m:
            head = int(m.group(1))
            acc2 = None
            for e in path.events:
                if e[0] == "loop" and e[2] == head:
                    break
                if e[0] == "call" and ACCESSOR.match(e[1]) and not NOT_ACCESSOR.match(e[1]):
                    acc2 = e[1]
            acc = acc2 or acc
        return acc
    return None


def loop_accessor(term, path):
    """For an element of a loop: the accessor that produced the iterated collection."""
    loopsyms = [t for t in ms.subterms(term) if t[0] == "sym" and "#loop" in t[1]]
    if not loopsyms:
        return None
    m = re.search(r"#loop(\d+)_", loopsyms[0][1])
    head = int(m.group(1)) if m else None
    acc = None
    for e in path.events:
        if e[0] == "loop" and (head is None or e[2] == head):
            break
        if e[0] == "call" and ACCESSOR.match(e[1]) and not NOT_ACCESSOR.match(e[1]):
            acc = e[1]
    return acc


GUARD_ALIASES = {"refs": ["Declaration::rhs"]}


def sub_of(pc, E):
    """Sub-kind selectors found in a path condition."""
    subs = {}
    for a, op, v in pc:
        if a[0] == "disc" and a[1][0] == "app" and op == "==":
            f = a[1][1]
            if f == "ContentMeta::kind":
                subs["ContentMeta::kind"] = (E.table.get("ContentTagKind") or [None] * 9)[v]
            elif f == "VariadicOp::operator":
                subs["VariadicOp::operator"] = ("==", (E.table.get("VariadicOperator") or [None] * 9)[v])
        if a[0] == "op" and a[1] == "Eq" and op == "==":
            for side in (a[2], a[3]):
                if side[0] == "variant" and side[1] == "VariadicOperator":
                    subs["VariadicOp::operator"] = ("==" if v else "!=", side[2])
    return subs


def extract_sites(M, E, evdisp, unknown):
    """[(site dict)] from the eval_* functions."""
    sites = []
    seen = set()
    for K, fn in sorted(evdisp.items()):
        try:
            f = M.one(r"^(eval::)?%s$" % fn)
        except KeyError:
            continue
        ex = ms.Executor([M], enums=E)
        for p in ex.run(f):
            for e in p.calls():
                if not re.match(r"^(eval::)?cast_\w+$", e[1]):
                    continue
                arg = e[2][0]
                inner = [t for t in ms.subterms(arg) if t[0] == "app" and re.match(r"^(eval::)?eval_(any|terminal|object|variable)$", t[1])]
                loop_root = None
                if inner:
                    node = inner[0][2][1]
                    root = root_accessor(node, p, None)
                    loop_root = loop_accessor(node, p)
                else:
                    root = "refs" if fn == "eval_program" else None
                subs = sub_of(p.pc, E)
                sub = None
                if root == "ContentMeta::rhs":
                    sub = subs.get("ContentMeta::kind")
                elif root == "VariadicOp::operands":
                    sub = subs.get("VariadicOp::operator")
                cast = e[1].split("::")[-1]
                key = (fn, cast, root, sub)
                if key in seen:
                    continue
                seen.add(key)
                sites.append({"kind": K, "eval": fn, "cast": cast, "root": root, "sub": sub, "loop_root": loop_root,
                              "via": inner[0][1].split("::")[-1] if inner else "refs"})
        unknown += ex.unknown
    # expand operator != X into the remaining operators
    ops = E.table.get("VariadicOperator") or []
    out = []
    for s in sites:
        if isinstance(s["sub"], tuple):
            rel, name = s["sub"]
            for opn in ops:
                if (rel == "==" and opn == name) or (rel == "!=" and opn != name):
                    d = dict(s)
                    d["sub"] = opn
                    out.append(d)
        else:
            out.append(s)
    return out


def closure_fn(M, term):
    for t in ms.subterms(term):
        txt = None
        if t[0] == "aggr" and isinstance(t[1], str) and t[1].startswith("{closure@"):
            txt = t[1]
        elif t[0] == "c" and "{closure@" in str(t[2]):
            txt = str(t[2])[str(t[2]).index("{closure@"):]
        if txt:
            key = txt[len("{closure@"):].split("}")[0]
            cf = [f for f in M.funcs if "{closure#" in f.name and f.args and key in f.args[0][1]]
            if len(cf) == 1:
                return cf[0]
    return None


def pred_atoms(pc_and_ret):
    """[(pred name, tag-source term, expected bool)] from atoms `TagWrap::is_P(&get_tag(X)) == b`."""
    out = []
    for a, op, v in pc_and_ret:
        if a[0] == "app" and a[1].startswith("TagWrap::is_") and op == "==" and isinstance(v, bool):
            src = a[2][0]
            out.append((a[1].split("::")[-1], src, v))
    return out


def extract_guards(M, E, ckdisp, tables, unknown):
    """accessor root -> list of (sub, admitted tag set) derived from the Ok paths of check_*."""
    guards = {}

    def admitted_from_paths(paths, want_root, owner_pc=None):
        """paths: [(pc atoms incl. a pseudo-atom for a boolean return)]. Returns set of admitted tags
        for the accessor `want_root` (None if the accessor never occurs)."""
        adm = set()
        seen = False
        for atoms in paths:
            rel = [(pn, b) for (pn, src, b) in atoms if want_root in [t[1] for t in ms.subterms(src) if t[0] == "app"] or want_root == "<param>"]
            if rel:
                seen = True
            for t in tables.tags:
                if all(tables.preds.get(pn, {}).get(t) == b for pn, b in rel):
                    adm.add(t)
        return adm if seen else None

    for K, fn in sorted(ckdisp.items()):
        try:
            f = M.one(r"^(typecheck::)?%s$" % fn)
        except KeyError:
            continue
        ex = ms.Executor([M], enums=E)
        outs = ex.run(f)
        unknown += ex.unknown
        okpaths = []
        for p in outs:
            ok = p.kind == "backedge" or (p.kind == "return" and p.ret[0] == "variant" and p.ret[2] == "Ok")
            if not ok:
                continue
            okpaths.append(p)
        roots = set()
        for p in okpaths:
            for pn, src, b in pred_atoms(p.pc):
                r = root_accessor(src, p, None)
                if r:
                    roots.add(r)
            # closures given to all()/any()
            for e in p.calls():
                if e[1].endswith("Iterator::all"):
                    r = root_accessor(e[2][0], p, None)
                    if r:
                        roots.add(r)
        for r in roots:
            for p in okpaths:
                subs = sub_of(p.pc, E)
                sub = None
                if r == "ContentMeta::rhs":
                    sub = subs.get("ContentMeta::kind")
                elif r == "VariadicOp::operands":
                    sv = subs.get("VariadicOp::operator")
                    sub = sv[1] if sv and sv[0] == "==" else None
                atoms = [(pn, b) for pn, src, b in pred_atoms(p.pc) if root_accessor(src, p, None) == r]
                adm = None
                if atoms:
                    adm = {t for t in tables.tags if all(tables.preds.get(pn, {}).get(t) == b for pn, b in atoms)}
                for e in p.calls():
                    if e[1].endswith("Iterator::all") and root_accessor(e[2][0], p, None) == r:
                        # the path assumed all(..) == True ?
                        val = [v for a, op, v in p.pc if a == e[3] and op == "=="]
                        if val and val[0] is True:
                            cf = closure_fn(M, e[2][1])
                            if cf is not None:
                                adm2 = closure_admits(M, E, cf, tables, unknown)
                                adm = adm2 if adm is None else (adm & adm2)
                if adm is None and mandatory(r) and p.kind == "return":
                    # the child always exists (its accessor answers the node itself, not an Option) and this accepting path
                    # of the checker never looked at it: every kind is admitted here
                    adm = set(tables.tags)
                if adm is not None:
                    guards.setdefault(r, []).append((sub, adm, fn))
    return guards


_MAND = {}


def mandatory(root):
    """Does the syntax accessor `Node::child` always answer a node (true) or an Option / an iterator (false)?"""
    if root in _MAND:
        return _MAND[root]
    res = False
    try:
        MSy = mirlib.module("oal-syntax")
        node, acc = root.split("::")
        fs = [f for f in MSy.funcs if f.kind == "fn" and f.name.split("::")[-1] == acc and len(f.args) == 1 and (node + "<") in f.args[0][1]]
        if len(fs) == 1:
            ret = fs[0].ret.strip()
            res = not (ret.startswith(("std::option::Option<", "Option<", "impl ", "std::iter", "Box<dyn")) or "Iterator" in ret)
    except Exception:
        res = False
    _MAND[root] = res
    return res


def closure_admits(M, E, cf, tables, unknown):
    """Tags for which a `|o| pred(get_tag(o))`-style closure returns true."""
    ex = ms.Executor([M], enums=E)
    outs = [p for p in ex.run(cf) if p.kind == "return"]
    unknown += ex.unknown
    adm = set()
    for p in outs:
        atoms = [(pn, b) for pn, src, b in pred_atoms(p.pc)]
        r = p.ret
        for t in tables.tags:
            if not all(tables.preds.get(pn, {}).get(t) == b for pn, b in atoms):
                continue
            if r == ms.TRUE:
                # a branch that accepts without looking at the tag (e.g. a literal URI segment) does
                # not concern the child whose tag is tested elsewhere in the closure
                if not atoms and any(pred_atoms(q.pc) or (q.ret[0] == "app" and q.ret[1].startswith("TagWrap::is_")) for q in outs):
                    continue
                adm.add(t)
            elif r[0] == "app" and r[1].startswith("TagWrap::is_"):
                if tables.preds.get(r[1].split("::")[-1], {}).get(t):
                    adm.add(t)
    return adm


def extract_equations(M, E, tables, unknown):
    """accessor root -> [(sub, allowed abstract tags)] from `set.push(get_tag(X), <constant tag>, ..)` in constrain()."""
    eqs = {}
    try:
        f = M.one(r"^(inference::)?constrain$")
    except KeyError:
        return eqs
    ex = ms.Executor([M], enums=E, max_paths=6000)
    for p in ex.run(f):
        if p.kind not in ("backedge", "return"):
            continue
        subs = sub_of(p.pc, E)
        for e in p.calls():
            if not e[1].endswith("InferenceSet::push"):
                continue
            lhs, rhs = e[2][1], e[2][2]
            for a, b in ((lhs, rhs), (rhs, lhs)):
                ab = abstract_of_term(b)
                if ab is None or ab == "Var":
                    continue
                r = root_accessor(a, p, None)
                if not r:
                    continue
                sub = None
                if r == "ContentMeta::rhs":
                    sub = subs.get("ContentMeta::kind")
                elif r == "VariadicOp::operands":
                    sv = subs.get("VariadicOp::operator")
                    sub = sv[1] if sv and sv[0] == "==" else None
                allowed = {"Var"}
                if ab == "Property[?]":
                    allowed |= {"Property[Primitive]", "Property[other]"}
                else:
                    allowed.add(ab)
                eqs.setdefault(r, []).append((sub, allowed))
    unknown += ex.unknown
    return eqs


def producer_table(M, E, tables, evdisp, unknown):
    """(tag, variant) of each catalogued producer, read from tag()/literal_tag()/eval_*."""
    # tag table from one iteration of tag()
    tagtab = {}
    try:
        f = M.one(r"^(inference::)?tag$")
        ex = ms.Executor([M], enums=E, max_paths=6000)
        for p in ex.run(f):
            ks = cast_kinds(p)
            st = [e for e in p.calls() if e[1].endswith("set_tag")]
            if not ks or not st:
                continue
            K = ks[-1]
            if K == "Program":
                continue
            sub = sub_of(p.pc, E).get("VariadicOp::operator")
            tt = st[-1][2][1]
            ab = abstract_of_term(tt)
            if ab is None and tt[0] == "app":
                ab = "call:" + tt[1]
            tagtab[(K, sub[1] if sub else None)] = ab
        unknown += ex.unknown
        fl = M.one(r"^(inference::)?literal_tag$")
        for tv in ("HttpStatus", "Number", "Symbol"):
            ex = ms.Executor([M], enums=E)
            outs = [p for p in ex.run(fl, [("addr", ("variant", "TokenValue", tv, (("sym", "x"),)))]) if p.kind == "return"]
            if len(outs) == 1:
                tagtab[("Literal", tv)] = abstract_of_term(outs[0].ret)
    except KeyError as e:
        unknown.append(str(e))
    # value table from eval_*
    valtab = {}
    for K, fn in evdisp.items():
        try:
            f = M.one(r"^(eval::)?%s$" % fn)
        except KeyError:
            continue
        ex = ms.Executor([M], enums=E)
        for p in ex.run(f):
            if p.kind != "return" or p.ret[0] != "variant" or p.ret[2] != "Ok":
                continue
            val = ms.proj(p.ret[3][0], ("f", 0), E) if p.ret[3] else None
            if val is None or val[0] != "variant" or val[1] != "Expr":
                continue
            subs = sub_of(p.pc, E)
            sub = None
            sv = subs.get("VariadicOp::operator")
            if sv:
                sub = sv
            for a, op, v in p.pc:
                if a[0] == "disc" and a[1][0] == "app" and op == "==" and a[1][1] in ("Literal::kind", "Primitive::kind"):
                    nm = "LiteralKind" if a[1][1].startswith("Literal") else "PrimitiveKind"
                    sub = (E.table.get(nm) or [None] * 9)[v]
                if a[0] == "app" and a[1] == "Declaration::has_bindings" and op == "==" and v is True:
                    sub = "bindings"
            valtab.setdefault(K, []).append((sub, val[2]))
        unknown += ex.unknown
    prods = []
    for pid, K, sub, snippet, tag_override in PRODUCERS:
        # value
        variant = None
        for s, v in valtab.get(K, []):
            if s == sub or (isinstance(s, tuple) and ((s[0] == "==" and s[1] == sub) or (s[0] == "!=" and s[1] != sub))) or (s is None and sub is None):
                variant = v
                break
        if K == "Recursion":
            variant = "Reference"
        # tag
        if tag_override:
            tg = tag_override
        elif K == "Literal":
            tg = tagtab.get(("Literal", LITERAL_TOKEN.get(sub)))
        else:
            tg = tagtab.get((K, sub)) or tagtab.get((K, None))
        prods.append({"id": pid, "kind": K, "sub": sub, "snippet": snippet, "tag": tg, "variant": variant})
    return prods, tagtab, valtab


def site_guard(s, guards):
    """What reaches the cast: a kind passes if, in every check function that looks at this child, SOME accepting path
    admits it (paths of one function are alternatives, functions are conjuncts)."""
    per_fn = {}
    for rk in [s["root"], s.get("loop_root")] + GUARD_ALIASES.get(s["root"], []):
        for sub, adm, fn in guards.get(rk, []) if rk else []:
            if sub is None or sub == s["sub"]:
                per_fn.setdefault((rk, fn), set()).update(adm)
    g = None
    for adm in per_fn.values():
        g = set(adm) if g is None else g & adm
    return g


def cycle_admit(M, E, tables, unknown):
    """Abstract tags for which cycles_check marks a declaration of a definition cycle as a
    reference point (`is_recursive = true`) - per tag, by executing its MIR with get_tag overridden."""
    try:
        f = M.one(r"^(typecheck::)?cycles_check$")
    except KeyError as e:
        unknown.append(str(e))
        return None
    adm = set()
    for t in tables.tags:
        ex = ms.Executor([M], enums=E, inline=[r"typecheck::<impl[^>]*>::is_\w+$"], max_paths=4000)
        ex.call_hook = lambda callee, fs, args, t=t: ("aggr", "TagWrap", (tag_value(t),), None) if fs.endswith("typecheck::get_tag") else None
        hit = False
        for p in ex.run(f):
            for e in p.events:
                if e[0] == "store" and e[3] == ms.TRUE and "core_mut" in ms.show(e[1]):
                    hit = True
        unknown += ex.unknown
        if hit:
            adm.add(t)
    return adm


def render(site, prod, mode):
    key = (site["root"], site["sub"])
    hole = prod["snippet"]
    if mode == "direct":
        t = TEMPLATES.get(key)
        if not t:
            return None
        return {"main.oal": PRELUDE + prod.get("prelude", "") + t.replace("HOLE", hole) + "\n"}
    if mode.startswith("alt"):
        ts = ALT_TEMPLATES.get(key, [])
        k = int(mode[3:])
        if k >= len(ts):
            return None
        return {"main.oal": PRELUDE + prod.get("prelude", "") + ts[k].replace("HOLE", hole) + "\n"}
    if mode == "let":
        t = TEMPLATES.get(key)
        if not t:
            return None
        return {"main.oal": PRELUDE + prod.get("prelude", "") + "let v1 = " + hole + ";\n" + t.replace("HOLE", "v1") + "\n"}
    if mode == "xmod":
        x = XMOD.get(key)
        if not x:
            return None
        return {"m.oal": x[0] + "\n", "main.oal": 'use "m.oal";\n' + PRELUDE + prod.get("prelude", "") + x[1].replace("ARG", hole) + "\n"}
    return None


def check():
    o = Outcome("C01")
    E = mirlib.enums()
    F = Findings()
    thorough = tier() == "thorough"
    try:
        M = mirlib.module("oal-compiler")
        MO = mirlib.module("oal-openapi")
    except Exception as ex:
        o.inconc("MIR dump failed: %s" % str(ex)[-400:])
        return o.finish()
    unknown = []
    T = Tables(M, E, o)
    T.build()
    unknown += T.unknown
    evdisp, u1, f_any = dispatch(M, E, r"^(eval::)?eval_any$", r"^(eval::)?eval_\w+$")
    ckdisp, u2, f_tc = dispatch(M, E, r"^(typecheck::)?type_check$", r"^(typecheck::)?check_\w+$")
    unknown += u1 + u2
    o.functions += [mirlib.func_ref(f_any, "oal-compiler"), mirlib.func_ref(f_tc, "oal-compiler")]
    sites = extract_sites(M, E, evdisp, unknown)
    guards = extract_guards(M, E, ckdisp, T, unknown)
    eqs = extract_equations(M, E, T, unknown)
    prods, tagtab, valtab = producer_table(M, E, T, evdisp, unknown)
    cyc = cycle_admit(M, E, T, unknown)
    # a declaration that is its own alias evaluates to Reference(id, Recursion(id)); its tag is whatever its uses
    # force (a variable if nothing does). cycles_check must reject it unless it can be cut at a schema.
    for t in sorted(cyc or []):
        prods.append({"id": "alias-cycle[%s]" % t, "kind": "Declaration", "sub": "cycle", "snippet": "cyc1", "tag": t, "variant": "Recursion",
                      "prelude": "let cyc1 = cyc1;\n"})
    if unknown:
        o.inconc("MIR constructs the translator does not understand: %s" % "; ".join(sorted(set(unknown))[:4]))
    bad_tables = [("pred", k, t) for k, r in T.preds.items() for t, v in r.items() if v is None] + \
                 [("cast", k, t) for k, r in T.casts.items() for t, v in r.items() if v is None and t != "Reference"]
    if bad_tables:
        o.inconc("table entries that are neither true nor false on all paths: %s" % bad_tables[:5])
    missing = [p["id"] for p in prods if p["tag"] is None or p["variant"] is None]
    if missing:
        o.inconc("producers without a (tag, variant) read from MIR: %s" % missing)
    o.extra["tables"] = {
        "predicates": {k: sorted(t for t, v in r.items() if v) for k, r in T.preds.items()},
        "casts_panic_on": {k: sorted(t for t, v in r.items() if v) for k, r in T.casts.items()},
        "eval_dispatch": evdisp, "check_dispatch": ckdisp,
        "producers": [{k: p[k] for k in ("id", "tag", "variant")} for p in prods],
        "sites": [{k: s[k] for k in ("kind", "eval", "cast", "root", "sub", "via")} for s in sites],
        "guards": {r: [(s, sorted(a), fn) for s, a, fn in v] for r, v in guards.items()},
        "equations": {r: [(s, sorted(a)) for s, a in v] for r, v in eqs.items()},
        "cycles_check_marks_recursive": sorted(cyc) if cyc is not None else None,
    }
    o.assumptions = ["a pass-through node (Terminal, SubExpression, Variable, Declaration, Application, Binding) has the tag and the value of what it stands for",
                     "unresolved tag variables are treated separately (cross-module mode): within one module every tag is determined by unification",
                     "producer snippets and site templates are hand-written renderings; a rendering the real front end rejects is discarded (never an alarm)",
                     "Reference values are transparent for casts (they recurse into the referenced value)"]
    o.bounds = {"skeleton": "one consumer site fed directly, through a let-bound variable, or through the parameter of a one-parameter function of another module; "
                            "%d producers x %d sites" % (len(prods), len(sites)), "annotations": "none"}
    o.outside = ["programs deeper than the skeleton", "evaluation depth / termination (C09)", "emitter internals beyond the three unreachable!/expect sites",
                 "binding lookup (`binding should exist`) and definition lookup - resolver guarantees"]

    # ---- SMT ------------------------------------------------------------------------------
    import time as _t
    PS, pconst = z3.EnumSort("Producer", [p["id"] for p in prods]) if prods else (None, [])
    TS, tconst = z3.EnumSort("AbsTag", [re.sub(r"\W", "_", t) for t in T.tags])
    VS, vconst = z3.EnumSort("ExprVariant", T.variants)
    tix = {t: c for t, c in zip(T.tags, tconst)}
    vix = {v: c for v, c in zip(T.variants, vconst)}
    tagOf = z3.Function("tagOf", PS, TS)
    varOf = z3.Function("variantOf", PS, VS)
    base = []
    for p, c in zip(prods, pconst):
        if p["tag"] in tix and p["variant"] in vix:
            base += [tagOf(c) == tix[p["tag"]], varOf(c) == vix[p["variant"]]]
    cli = None
    candidates = spurious = 0
    genuine = []
    uncovered = []
    witnesses = {}
    rdir = None
    for s in sites:
        key = (s["root"], s["sub"])
        name = "%s/%s%s via %s" % (s["eval"], s["root"], ("[%s]" % s["sub"]) if s["sub"] else "", s["cast"])
        g = site_guard(s, guards)
        ge = None
        for rk in [s["root"], s.get("loop_root")] + GUARD_ALIASES.get(s["root"], []):
            for sub, allowed in eqs.get(rk, []) if rk else []:
                if sub is None or sub == s["sub"]:
                    ge = allowed if ge is None else ge & allowed
        guardf = z3.Function("guard_" + re.sub(r"\W", "_", name), TS, z3.BoolSort())
        panf = z3.Function("panics_" + s["cast"], VS, z3.BoolSort())
        cons = list(base)
        for t in T.tags:
            ok = (g is None or t in g) and (ge is None or t in ge)
            cons.append(guardf(tix[t]) == ok)
        for v in T.variants:
            cons.append(panf(vix[v]) == bool(T.casts.get(s["cast"], {}).get(v)))
        x = z3.Const("p", PS)
        solver = z3.Solver()
        solver.add(cons)
        usable = [(p, c) for p, c in zip(prods, pconst) if p["tag"] in tix and p["variant"] in vix and
                  (s["via"] != "eval_object" or p["variant"] == "Object")]
        solver.add(z3.Or([x == c for p, c in usable]) if usable else z3.BoolVal(False))
        solver.add(guardf(tagOf(x)), panf(varOf(x)))
        t0 = _t.time()
        models = []
        while solver.check() == z3.sat:
            m = solver.model()[x]
            models.append(str(m))
            solver.add(x != m)
        dt = _t.time() - t0
        q = o.query("site %s: no producer passes the guard and breaks the cast" % name, "tabsym/z3", "unsat" if not models else "sat", dt,
                    guard=sorted(g) if g is not None else "none (any tag)", equation=sorted(ge) if ge is not None else None,
                    models=models, nonvacuous=True)
        # coverage witness: an accepted program reaches the site
        wit = solver_w = None
        if key not in TEMPLATES and s["via"] != "eval_object":
            uncovered.append(name)
        for pid in models:
            prod = [p for p in prods if p["id"] == pid][0]
            for mode in ("direct", "let", "alt0", "alt1", "alt2"):
                files = render(s, prod, mode)
                if not files:
                    continue
                if cli is None:
                    cli = build_cli()
                    rdir = new_replay_dir("C01", "candidates")
                candidates += 1
                d = os.path.join(rdir, "%s--%s--%s" % (re.sub(r"\W+", "_", name), pid, mode))
                r = run_cli(cli, files, workdir=d, timeout=30)
                if r["rc"] in (0, 1):
                    spurious += 1
                    continue
                loc = panic_location(r["out"])
                fk = {"mode": "%s-as-%s" % (prod["variant"].lower(), (prod["tag"] or "").lower()), "site": "%s/%s" % (s["eval"], key[0] + ("[%s]" % key[1] if key[1] else ""))}
                k = F.match("C01", fk)
                what = "accepted program crashes the back end: %s fed with %s (%s): exit %s at %s" % (name, pid, files["main.oal"].strip().split("\n")[-1], r["rc"], loc)
                genuine.append(what)
                q.setdefault("crashes", []).append({"producer": pid, "mode": mode, "rc": r["rc"], "panic": loc, "key": fk})
                if k:
                    o.known_finding("%s [%s]" % (k.get("what", what), fk["site"]))
                else:
                    o.violation(what, d)
                break
    # ---- cross-module mode: a guard that accepts Var does not protect an imported function's body
    xmod_sites = []
    for s in sites:
        key = (s["root"], s["sub"])
        if not XMOD.get(key):
            continue
        pans = [p for p in prods if T.casts.get(s["cast"], {}).get(p["variant"])]
        if not pans:
            continue
        g = site_guard(s, guards)
        if g is not None and "Var" not in g:
            continue
        name = "%s/%s%s via %s" % (s["eval"], s["root"], ("[%s]" % s["sub"]) if s["sub"] else "", s["cast"])
        hit = None
        tried = 0
        for prod in pans[: (len(pans) if thorough else 4)]:
            files = render(s, prod, "xmod")
            if cli is None:
                cli = build_cli()
                rdir = new_replay_dir("C01", "candidates")
            candidates += 1
            tried += 1
            d = os.path.join(rdir, "xmod--%s--%s" % (re.sub(r"\W+", "_", name), prod["id"]))
            r = run_cli(cli, files, workdir=d, timeout=30)
            if r["rc"] not in (0, 1):
                hit = (prod, r, d)
                break
            spurious += 1
        o.query("cross-module: %s is protected when its child is a parameter of an imported function" % name, "tabsym/z3",
                "sat" if hit else "unsat", 0, tried=tried, nonvacuous=True)
        if hit:
            prod, r, d = hit
            fk = {"mode": "cross-module-generic"}
            k = F.match("C01", fk)
            what = "imported generic function: %s fed with %s through a parameter: exit %s at %s" % (name, prod["id"], r["rc"], panic_location(r["out"]))
            xmod_sites.append(name)
            if k:
                pass
            else:
                o.violation(what, d)
    if xmod_sites:
        k = F.match("C01", {"mode": "cross-module-generic"})
        if k:
            o.known_finding("%s [sites: %s]" % (k.get("what"), "; ".join(xmod_sites)))
    o.extra.update({"candidates_replayed": candidates, "spurious_candidates": spurious, "genuine_crashes": genuine[:20],
                    "sites_without_template": uncovered, "cross_module_sites": xmod_sites})

    # ---- coverage witnesses: every site template is reached by an accepted program ------------
    if thorough or os.environ.get("VERIF_REPLAY_ALWAYS"):
        if cli is None:
            cli = build_cli()
        wdir = new_replay_dir("C01", "witnesses")
        nowit = []
        for s in sites:
            key = (s["root"], s["sub"])
            if key not in TEMPLATES:
                continue
            okp = None
            for prod in prods:
                if T.casts.get(s["cast"], {}).get(prod["variant"]) is False:
                    files = render(s, prod, "direct")
                    r = run_cli(cli, files, workdir=os.path.join(wdir, re.sub(r"\W+", "_", "%s-%s-%s" % (s["eval"], key, prod["id"]))), timeout=30)
                    if r["rc"] == 0:
                        okp = prod["id"]
                        break
            if not okp:
                nowit.append("%s/%s" % (s["eval"], key))
        o.extra["sites_without_accepted_witness"] = nowit

    # the checker resolves names statically, the evaluator by name on a stack: they agree only if arguments are evaluated
    # in the caller's context (lemma shared with C08) - otherwise a value of another kind reaches a cast
    try:
        import props.c08 as c08
        app_bad = []

        def app_structural(name, ok, why=None):
            o.query(name, "mirsym/structural", "unsat" if ok else "violated", 0)
            if not ok:
                app_bad.append(why or name)
            return ok
        c08.application_lemmas(o, M, E, M.one(r"^(eval::)?eval_application$"), app_structural)
        # ... and the evaluator inlines whatever cycles_check did not mark: an edge missing from the definition graph is
        # an unbounded recursion (lemma shared with C09)
        import props.c09 as c09
        Lg = mirlib.Lemma(o)
        c09.graph_lemmas(o, Lg, Lg.smt, M, E, app_structural, lambda name, model: app_bad.append(name))
        # ... and the tables above stand for "unification = equality of kinds": one unification step accepts two
        # constant tags only if they are equal (lemmas shared with C07)
        # the digest of a node is the cache key of evaluated declarations: it must tell the nodes of two modules apart
        c09.digest_lemmas(o, app_structural)
        # what cycles_check lets through unmarked, the evaluator inlines without bound (lemmas shared with C09)
        c09.cycles_lemmas(o, Lg, Lg.smt, M, E, M.one(r"^(typecheck::)?cycles_check$"), app_structural, lambda name, model: app_bad.append(name))
        # Uri::append unwraps the last segment of its left operand: both operands keep all their segments but the one
        # trailing empty one (lemma shared with C02)
        import props.c02 as c02
        c02.uri_append_lemmas(o, Lg, Lg.smt, M, E, app_structural, lambda name, model: app_bad.append(name))
        import props.c07 as c07
        ubad = []
        c07.unify_step_lemmas(o, Lg, Lg.smt, M, E, ubad)
        for b_ in ubad:
            if b_[1] not in app_bad:
                app_bad.append(b_[1])
    except KeyError as exn:
        o.inconc(str(exn)[:160])
        app_bad = []
    # the checker accepts any number as a status; whether it is one is decided during evaluation by HttpStatus::try_from, whose
    # Err becomes a located error - for *every* u64, so it must never panic (Kani kernel shared with C03)
    try:
        import kanirun
        from vcommon import src_ref
        o.functions.append(src_ref("oal-syntax/src/atom.rs", "fn try_from(v: u64)"))
        o.bounds["HttpStatus::try_from (Kani)"] = "every u64"
        kanirun.decide(o, "kern", ["h_kernels::c03_http_status_try_from"], lambda h: "src/h_kernels.rs", timeout=600, findings=Findings())
    except Exception as exn:
        o.inconc("Kani kernel could not run: %s" % str(exn)[:120])
    emitter_lemmas(o, M, MO, app_bad)
    o.samples = [{"site": q["name"], "verdict": q["verdict"], "models": q.get("models")} for q in o.queries[:30]]
    return o.finish()


MUST_NOT_CRASH = {
    "recursive-relation-used-as-a-uri": "let a = (concat /x a) on get -> <{}>;\nres a;\n",
    "inline-rec-relation-used-as-a-uri": "res rec x ((concat /x x) on get -> <{ 'self x }>);\n",
    "recursive-relation-through-a-uri-function": "let f u = concat u /tail;\nlet a = (f a) on get -> <{}>;\nres a;\n",
    "recursive-content-used-as-a-schema": "let c = <{ 'again c }>;\nres / on get -> c;\n",
    "recursive-uri": "let u = concat /a u;\nres u on get -> <{}>;\n",
    "relation-where-a-schema-property-is-expected": "let r = /x on get -> <{}>;\nlet s = { 'r r, 'again? s };\nres / on get -> <s>;\n",
    "recursive-transfer-through-ranges": "let t = get -> <{}> :: t;\nres / on t;\n",
    "concat-of-root-and-root-as-a-left-operand": "let root = /;\nlet prefix = concat root /;\nlet mount p = concat prefix p;\nres (mount /items) on get -> <{}>;\nres (mount /items/{ 'id int }) on get -> <{}>;\n",
    "concat-with-trailing-and-leading-separators": "let a = concat (/a/) (/);\nlet b = concat a (/b/);\nlet c = concat (concat b /) (/c);\nres c on get -> <{}>;\n",
    "recursive-array-of-relations": "let r = /x on get -> <[r]>;\nres r;\n",
    # numbers that are no HTTP status, of every width, written in place and passed through a parameter
    "status-numbers-of-every-width": "let problem s = <status=s, { 'detail str }>;\nres /a on get -> <status=0, {}>;\nres /b on get -> problem 70000;\n",
    "status-number-beyond-16-bits": "res / on get -> <status=65536, {}>;\n",
    "status-number-beyond-32-bits": "let problem s = <status=s, {}>;\nres / on get -> problem 4294967496;\n",
    "status-number-at-the-top-of-64-bits": "res / on get -> <status=18446744073709551615, {}>;\n",
}


# two modules, each with a recursive declaration of another kind as its first statement: the names of their components are
# digests of (module, node) - whenever two such nodes sit at the same place of their trees only the module tells them apart.
# A family of shapes, so that some pairs do sit at the same place.
_HOME = "let home = / on get -> { 'self home };\nuse \"shapes.oal\" as s;\nres /tree on get -> <s.node>;\nres home;\n"
for _k, _shape in enumerate(("{ 'name! str, 'children [node] }", "{ 'name str, 'children [node] }", "{ 'children [node] }", "{ 'n num, 'm num, 'children [node] }", "[node]",
                             "{ 'name! str, 'kids [node], 'up? node }", "{ 'a { 'b [node] } }", "{ 'name! str `title: \"t\"`, 'children [node] }")):
    MUST_NOT_CRASH["two-modules-recursive-relation-and-schema-%d" % _k] = {"main.oal": _HOME, "shapes.oal": "let node = %s;\n" % _shape}
    MUST_NOT_CRASH["two-modules-recursive-schema-and-relation-%d" % _k] = {
        "main.oal": "let node = %s;\nuse \"links.oal\" as l;\nres /tree on get -> <node>;\nres l.home;\n" % _shape, "links.oal": "let home = / on get -> { 'self home };\n"}


def every_producer_in_every_site():
    """name -> program text: each catalogued producer written into each catalogued site (and its variants with the optional
    neighbours present), well typed or not. For C04: whatever the checker says, nothing may take a front end down."""
    out = {}
    for (root, sub), t in TEMPLATES.items():
        for k, tt in enumerate([t] + ALT_TEMPLATES.get((root, sub), [])):
            for pr in PRODUCERS:
                prod = {"snippet": pr[3], "prelude": ""}
                out["%s%s-%d-%s" % (root.replace("::", "."), ("." + sub) if sub else "", k, pr[0])] = PRELUDE + tt.replace("HOLE", pr[3]) + "\n"
    return out


EMITTER_PROGRAMS = {
    "alias-of-reference-in-recursive-component": "let @node = { 'value str, 'next link };\nlet link  = @node;\nres /nodes on get -> <[@node]>;\n",
    "rec-of-reference-and-rec-of-rec": "let @a = { 'n num };\nlet r = rec x @a;\nlet s = rec x (rec y { 'x? x, 'y? y });\nres /r on get -> <r> :: <status=404, s>;\n",
    "references-to-operators": "let @o = num | str;\nlet @j = { 'a num } & { 'b str };\nlet @s = { 'a num } ~ { 'b str };\nlet t = { 'o @o, 'j @j, 's @s, 'self? t };\n"
                               "let u = t | @j;\nlet w = [w] | [num];\nres /t on get -> <t> :: <status=404, u> :: <status=500, w>;\n",
    "alias-chains-uris-relations": "let a = b;\nlet b = c;\nlet c = { 'a? a, 'u uri, 'p @p };\nlet @p = num;\nlet @q = /x/{ 'id num };\nlet @rel = @q on get -> <c>;\n"
                                   "res @rel;\nres /c on get -> <{ 'rel @rel, 'q @q, 'p @p, 'c c }>;\n",
    "rec-inside-functions": "let f x = rec r { 'v x, 'next? r, 'alias g r };\nlet g y = y;\nlet h = f num;\nlet @k = h;\n"
                            "res /h on get -> <h> :: <status=404, @k> :: <status=500, f str>;\n",
}


_NESTING = {}


def nesting_kinds(MO, E):
    """SchemaExpr variants whose emitter (the function value_schema sends them to) can reach Builder::schema /
    reference_schema / value_schema again - read from the call graph of oal-openapi's MIR."""
    if "v" in _NESTING:
        return _NESTING["v"]
    import mirparse as mp
    short = {}
    for f in MO.funcs:
        short.setdefault(f.name.split("::")[-1], []).append(f)

    def callees(f):
        out = set()
        for b in f.blocks.values():
            if b.cleanup or not b.term:
                continue
            pt = mp.stmts_of(b)[1]
            if pt[0] == "call":
                nm = re.sub(r"::<.*$", "", str(pt[2])).split("::")[-1]
                if nm in short:
                    out.add(nm)
        for c in MO.funcs:
            if c.name.startswith(f.name + "::{closure"):
                out |= callees(c)
        return out
    reach = {}

    def closure(nm, seen):
        if nm in seen:
            return set()
        seen.add(nm)
        out = set()
        for f in short.get(nm, []):
            for c in callees(f):
                out.add(c)
                out |= closure(c, seen)
        return out
    res = []
    try:
        f_vs = MO.one(r"::value_schema$")
        ex = mirlib.executor([MO])
        for p in ex.run(f_vs, arg_names=["self", "s"]):
            if p.kind != "return":
                continue
            emit = [e[1].split("::")[-1] for e in p.calls() if e[1].startswith("Builder::") and e[1].endswith("_schema")]
            expr0 = ms.proj(("deref", ("sym", "s")), ("f", 0), E)
            dv = [v for a, op, v in p.pc if op == "==" and a == ms.disc_of(expr0, E)]
            if not emit or not dv:
                continue
            for em in emit:
                r = closure(em, set())
                if r & {"schema", "reference_schema", "value_schema"}:
                    for vname, idx in ((n, E.index("SchemaExpr", n)) for n in ("Num", "Str", "Bool", "Int", "Rel", "Uri", "Array", "Object", "Op", "Ref")):
                        if idx in dv and vname not in res:
                            res.append(vname)
    except Exception:
        pass
    _NESTING["v"] = res
    return res


def maybe_inline_lemmas(o, L, S, MO, E, on_sat):
    f_mi = MO.one(r"::maybe_inline$")
    REF, OPK = E.index("SchemaExpr", "Ref"), E.index("SchemaExpr", "Op")
    # maybe_inline: Some only for the six inlinable kinds (never Ref, never Op)
    ex = mirlib.executor([MO])
    for p in ex.run(f_mi, arg_names=["self", "name"]):
        if p.kind == "return" and p.ret[0] == "variant" and p.ret[2] == "Some":
            g = p.calls("IndexMap::get")
            if g:
                sch = ms.proj(ms.proj(ex.raw_deref(p.state, ms.proj(ms.proj(g[0][3], ("v", "Some"), E), ("f", 0), E)), ("v", "Schema"), E), ("f", 0), E)
                expr = ms.proj(sch, ("f", 0), E)
                L.expect_unsat("maybe_inline: Some(s) only when s is neither a Ref nor an Op", S.pc(p.pc) + [z3.Or(S.disc(S.v(expr)) == REF, S.disc(S.v(expr)) == OPK)], on_sat)
                # ... and, more to the point, only when the emitter of that kind emits no nested schema: an inlined
                # container on a cycle is an emitter that never reaches a $ref (a stack overflow, not a document)
                for vname in nesting_kinds(MO, E):
                    vi = E.index("SchemaExpr", vname)
                    if vi is not None:
                        L.expect_unsat("maybe_inline: never inlines a %s (its emitter goes on into nested schemas)" % vname, S.pc(p.pc) + [S.disc(S.v(expr)) == vi], on_sat)


def emitter_lemmas(o, M, MO, extra_bad=()):
    """value_schema's unreachable!() arms and the VariadicOp/Range split."""
    E = mirlib.enums()
    L = mirlib.Lemma(o)
    S = L.smt
    bad = list(extra_bad)

    def on_sat(name, model):
        bad.append(name)

    try:
        f_schema = MO.one(r"<impl at oal-openapi/src/lib\.rs[^>]*>::schema$")
        f_val = MO.one(r"::value_schema$")
        f_mi = MO.one(r"::maybe_inline$")
        f_var = M.one(r"^(eval::)?eval_variadic_operation$")
    except KeyError as e:
        o.inconc(str(e))
        return
    o.functions.extend([mirlib.func_ref(f_schema, "oal-openapi"), mirlib.func_ref(f_val, "oal-openapi"), mirlib.func_ref(f_mi, "oal-openapi")])
    REF = E.index("SchemaExpr", "Ref")
    OPK = E.index("SchemaExpr", "Op")
    # which discriminants make value_schema hit unreachable!()
    ex = mirlib.executor([MO])
    dead = []
    for p in ex.run(f_val, arg_names=["self", "s"]):
        if p.kind == "diverge" and p.info.get("panic"):
            dead.append(p)
    o.extra["value_schema_panic_paths"] = len(dead)
    # schema(): value_schema is only called when the expression is not a Ref
    ex = mirlib.executor([MO])
    for p in ex.run(f_schema, arg_names=["self", "s"]):
        vs = p.calls("Builder::value_schema")
        if vs:
            expr = ms.proj(("deref", ("sym", "s")), ("f", 0), E)
            L.expect_unsat("schema(): value_schema is never called on a SchemaExpr::Ref", S.pc(p.pc) + [S.disc(S.v(expr)) == REF], on_sat)
    maybe_inline_lemmas(o, L, S, MO, E, on_sat)
    # evaluator: Expr::VariadicOp is built only when the operator is not Range
    ex = mirlib.executor([M])
    n = 0
    for p in ex.run(f_var):
        if p.kind == "return" and p.ret[0] == "variant" and p.ret[2] == "Ok":
            val = ms.proj(p.ret[3][0], ("f", 0), E)
            if val[0] == "variant" and val[2] == "VariadicOp":
                n += 1
                sub = sub_of(p.pc, E).get("VariadicOp::operator")
                ok = sub is not None and sub == ("!=", "Range")
                o.query("eval_variadic_operation: Expr::VariadicOp is built only for an operator other than Range", "mirsym/structural", "unsat" if ok else "violated", 0)
                if not ok:
                    bad.append("Expr::VariadicOp built for operator Range")
    if n == 0:
        o.inconc("eval_variadic_operation: no path builds Expr::VariadicOp")
    # replay: programs that put every kind of value behind implicit / explicit / recursive references and
    # operators, run through the real oal-cli; an accepted program that kills the process is the violation
    cli = build_cli()
    rdir = new_replay_dir("C01", "emitter-programs")
    crashes, detail = [], {}
    for name, src in EMITTER_PROGRAMS.items():
        r = run_cli(cli, {"main.oal": src}, workdir=os.path.join(rdir, name), timeout=30)
        loc = panic_location(r["out"])
        detail[name] = {"rc": r["rc"], "panic": "%s:%s" % loc if loc else None}
        if crashed(r):
            crashes.append("%s: exit %s%s" % (name, r["rc"], (" (panicked at %s:%s)" % loc) if loc else ""))
    # every program the other checks know to be accepted (their oracle corpora): acceptance must mean "does not crash"
    import pool
    npool = 0
    for name, files in pool.programs().items():
        if name.startswith("c01/"):
            continue
        r = run_cli(cli, files, workdir=os.path.join(rdir, "pool-" + name.replace("/", "-")), timeout=30)
        npool += 1
        if crashed(r):
            loc = panic_location(r["out"])
            crashes.append("%s: exit %s%s" % (name, r["rc"], (" (panicked at %s:%s)" % loc) if loc else ""))
    # programs the pinned checker rejects - and must keep rejecting or handle: a relation or a content where a URI / schema
    # is demanded, inside a recursion. Whatever the verdict, dying after acceptance is the violation
    nrej = 0
    for name, src in MUST_NOT_CRASH.items():
        r = run_cli(cli, src if isinstance(src, dict) else {"main.oal": src}, workdir=os.path.join(rdir, "edge-" + name), timeout=30)
        nrej += 1
        if crashed(r):
            loc = panic_location(r["out"])
            crashes.append("%s: exit %s%s" % (name, r["rc"], (" (panicked at %s:%s)" % loc) if loc else ""))
    # every cyclic program C09 knows, whatever its verdict (a cycle that must be rejected and is not ends in a stack overflow)
    try:
        import props.c09 as c09p
        for name, (files9, want9, chk9) in c09p.PROGRAMS.items():
            r = run_cli(cli, files9, workdir=os.path.join(rdir, "cyclic-" + name), timeout=30)
            nrej += 1
            if crashed(r):
                loc = panic_location(r["out"])
                crashes.append("cyclic-%s: exit %s%s" % (name, r["rc"], (" (panicked at %s:%s)" % loc) if loc else ""))
    except Exception:
        pass
    o.extra["edge_programs_run"] = nrej
    with open(os.path.join(rdir, "cmd"), "w") as f:
        f.write("#!/bin/sh\n# each sub-directory holds one program; re-run: oal-cli -m main.oal -t out.yaml\ncd /verif && for d in %s/*/; do ./check C01 --replay $d; done\n" % rdir)
    o.extra["emitter_programs"] = detail
    o.extra["pool_programs_run"] = npool
    if bad:
        if crashes:
            o.violation("accepted program crashes the emitter; lemma(s): %s; real oal-cli: %s" % ("; ".join(bad[:3]), "; ".join(crashes[:3])), rdir)
        else:
            o.inconc("UNCONFIRMED emitter lemma(s) fail: %s (no emitter program crashes the real oal-cli)" % "; ".join(bad[:3]))
    elif crashes:
        o.oracle_only("accepted programs crash the back end (%s) although every emitter lemma holds" % "; ".join(crashes[:3]), rdir)


def replay(path):
    if "h_kernels" in os.path.basename(os.path.normpath(path)):
        import kanirun
        return kanirun.replay_saved(path)
    cli = build_cli()
    files = {}
    for n in os.listdir(path):
        if n.endswith(".oal"):
            files[n] = open(os.path.join(path, n)).read()
    if not files:
        print("no .oal files in", path)
        return 2
    r = run_cli(cli, files, workdir=os.path.join(path, "rerun"), timeout=30)
    print(r["out"][-1500:])
    print("exit", r["rc"])
    return 1 if r["rc"] not in (0, 1) else 0
