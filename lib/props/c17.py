"""C17 - go-to-definition and find-references mirror the compiler's binding relation (partial).

Engine M over oal-client/src/lsp/handlers.rs: `go_to_definition`, `find_definition`,
one iteration of `find_references`, `references`. Replay oracle: annotated programs
driven through the real oal-lsp (lib/lspcorpus.py).
"""
import os
import re

import mirlib
import mirsym as ms
import z3
from vcommon import Outcome, new_replay_dir, tier


def find_references_lemmas(o, L, S, E, ML, f_fr, structural, on_sat):
    """One iteration of find_references: what is recorded, when, and over which modules."""
    # find_references: one variable of one module
    ex = mirlib.executor([ML])
    n_push = n_skip = n_nocmp = 0
    for p in ex.run(f_fr, arg_names=["workspace", "folder", "definition"]):
        if p.kind != "backedge":
            continue
        cd = [e for e in p.calls() if e[1] == "Core::definition"]
        nx = [e for e in p.calls() if e[1].endswith("Iterator::next")]
        if not cd:
            # an iteration of the variable loop (its iterator just yielded a variable) must compare that
            # variable's definition slot with the requested definition; it may not skip it on other grounds
            if nx:
                v, _ = S.check("find_references: path visits a variable", S.pc(p.pc) + [S.disc(S.v(nx[-1][3])) == 1])
                if v == "sat":
                    n_nocmp += 1
            continue
        var = ms.proj(ms.proj(nx[-1][3], ("v", "Some"), E), ("f", 0), E)
        slot = ex.raw_deref(p.state, ms.proj(ms.proj(cd[0][3], ("v", "Some"), E), ("f", 0), E))
        same = S.v(ex.raw_deref(p.state, ("sym", "definition"))) == S.v(slot)
        pushes = [e for e in p.calls() if e[1] == "Vec::push"]
        cond = S.pc(p.pc)
        if pushes:
            n_push += 1
            nl = p.calls("node_location")
            vi = [e for e in p.calls() if e[1] == "Variable::identifier"]
            okk = len(nl) == 1 and len(vi) == 1 and vi[0][2][0] == ("addr", var) and any(t == vi[0][3] for t in ms.subterms(nl[0][2][1])) and \
                any(t == ms.proj(ms.proj(nl[0][3], ("v", "Ok"), E), ("f", 0), E) for t in ms.subterms(pushes[0][2][1]))
            structural("find_references: what is recorded is the location of that variable's identifier", okk)
            L.expect_unsat("find_references: a variable is recorded only if its definition slot equals the requested definition", cond + [z3.Not(same)], on_sat)
        else:
            n_skip += 1
            L.expect_unsat("find_references: a variable is skipped only if its definition slot differs", cond + [same], on_sat)
    structural("find_references: every variable of a module is compared with the requested definition (none is skipped on other grounds)", n_nocmp == 0)
    if n_push < 1 or n_skip < 1:
        o.inconc("find_references loop body: expected a recording and a skipping path (%d/%d)" % (n_push, n_skip))
    mirlib.check_translator(o, ex, "find_references")
    # every module of the folder is visited
    ex = mirlib.executor([ML])
    vis = False
    for p in ex.run(f_fr, arg_names=["workspace", "folder", "definition"]):
        if any(e[1] == "ModuleSet::modules" for e in p.calls()):
            vis = True
    structural("find_references: iterates over all modules of the folder", vis)



def identity_lemmas(o, L, S, E, on_sat):
    """Identity of definitions: the comparison find_references (and through it rename) relies on looks at every
    component of a definition (module locator AND node index: indices are only unique inside one module's arena).
    Returns False if the run became inconclusive."""
    # identity of definitions: the comparison find_references relies on looks at every component of a
    # definition (module locator AND node index: node indices are only unique inside one module's arena)
    try:
        MC = mirlib.module("oal-compiler")
        f_exeq = [f for f in MC.find(r"^definition::<impl[^>]*>::eq$") if [t.strip() for _, t in f.args] == ["&External", "&External"]]
        f_dfeq = [f for f in MC.find(r"^definition::<impl[^>]*>::eq$") if [t.strip() for _, t in f.args] == ["&Definition", "&Definition"]]
        f_exnew = [f for f in MC.find(r"^definition::<impl[^>]*>::new$") if f.ret.strip() == "External"]
        if len(f_exeq) != 1 or len(f_dfeq) != 1 or len(f_exnew) != 1:
            raise KeyError("External::eq / Definition::eq / External::new: %d/%d/%d" % (len(f_exeq), len(f_dfeq), len(f_exnew)))
    except Exception as ex:
        o.inconc("MIR: %s" % str(ex)[-300:])
        return False
    o.functions += [mirlib.func_ref(f, "oal-compiler") for f in (f_exeq[0], f_dfeq[0], f_exnew[0])]
    import mirparse as mp
    fields = None
    for b in f_exnew[0].blocks.values():
        ps, pt = mp.stmts_of(b)
        for st in ps:
            if st[0] == "assign" and st[2][0] == "aggr" and st[2][4] and "External" in str(st[2][2]):
                fields = list(st[2][4])
    if not fields:
        o.inconc("cannot read External's fields from External::new")
        return False
    o.extra["definition_components"] = fields
    A, B = ("deref", ("sym", "a")), ("deref", ("sym", "b"))
    ex = mirlib.executor([MC])
    n_true = 0
    for p in ex.run(f_exeq[0], arg_names=["a", "b"]):
        if p.kind != "return":
            continue
        if p.ret == ms.FALSE:
            continue
        n_true += 1
        for i, fn in enumerate(fields):
            L.expect_unsat("External::eq: two definitions compare equal only if their '%s' components are equal" % fn,
                           S.pc(p.pc) + [S.b(p.ret), S.v(ms.proj(A, ("f", i), E)) != S.v(ms.proj(B, ("f", i), E))], on_sat)
    if n_true == 0:
        o.inconc("External::eq: no path can answer true")
    mirlib.check_translator(o, ex, "External::eq")
    ex = mirlib.executor([MC])
    n_ext = 0
    for p in ex.run(f_dfeq[0], arg_names=["a", "b"]):
        if p.kind != "return" or p.ret == ms.FALSE:
            continue
        cond = S.pc(p.pc)
        L.expect_unsat("Definition::eq: definitions of different kinds (external / built-in) are never equal", cond + [S.b(p.ret), S.disc(S.v(A)) != S.disc(S.v(B))], on_sat)
        ea, eb = ms.proj(ms.proj(A, ("v", "External"), E), ("f", 0), E), ms.proj(ms.proj(B, ("v", "External"), E), ("f", 0), E)
        if any(a == "disc(*a) == 0" for a in mirlib.fmt_pc(p.pc).split(" & ")):
            n_ext += 1
            L.expect_unsat("Definition::eq: two external definitions are equal only if their External parts are", cond + [S.b(p.ret), S.v(ea) != S.v(eb)], on_sat)
    if n_ext == 0:
        o.inconc("Definition::eq: no External/External path")
    mirlib.check_translator(o, ex, "Definition::eq")

    return True


def location_lemmas(o, E, ML, structural):
    """Where an answer points: node_location reads the text of the node's own module, converts the node's own byte range on that
    text and pairs the result with that module's URL; the conversion itself is decided by Kani (range kernel of C16, below).
    Shared with C18 (the edits of a rename are such locations)."""
    try:
        f_nl = ML.one(r"^(lsp::handlers::)?node_location$")
    except KeyError as exn:
        o.inconc(str(exn)[:160])
        return
    o.functions.append(mirlib.func_ref(f_nl, "oal-client"))
    ex = mirlib.executor([ML])
    n = 0
    for p in ex.run(f_nl, arg_names=["workspace", "node"]):
        if p.kind != "return" or not (p.ret[0] == "variant" and p.ret[2] == "Ok"):
            continue
        n += 1
        sp = p.calls("NodeRef::span")
        rf = p.calls("Workspace::read_file")
        cv = p.calls("utf8_range_to_position")
        ln = [e for e in p.calls() if e[1] == "Location::new"]
        ok = len(sp) == 1 and len(rf) == 1 and len(cv) == 1 and len(ln) == 1
        if ok:
            span = ms.proj(ms.proj(sp[0][3], ("v", "Some"), E), ("f", 0), E)
            text = ms.proj(ms.proj(rf[0][3], ("v", "Ok"), E), ("f", 0), E)
            loc_of_span = [e for e in p.calls() if e[1] == "Span::locator" and any(t == span for t in ms.subterms(e[2][0]))]
            rng_of_span = [e for e in p.calls() if e[1] == "Span::range" and any(t == span for t in ms.subterms(e[2][0]))]
            ok = bool(loc_of_span) and bool(rng_of_span) and sp[0][2][0] in (("addr", ("sym", "node")), ("sym", "node")) and \
                any(t == loc_of_span[0][3] for t in ms.subterms(rf[0][2][1])) and \
                any(t == text for t in ms.subterms(cv[0][2][0])) and cv[0][2][1] == rng_of_span[0][3] and \
                ln[0][2][1] == cv[0][3] and any(t[0] == "app" and t[1] == "Locator::url" and any(u == x[3] for x in loc_of_span for u in ms.subterms(t)) for t in ms.subterms(ln[0][2][0])) and \
                any(t == ln[0][3] for t in ms.subterms(p.ret))
        structural("node_location: the node's own byte range, converted on the text of the node's own module, under that module's URL", ok)
    if n == 0:
        o.inconc("node_location: no Ok path")
    mirlib.check_translator(o, ex, "node_location")


def range_kernel(o):
    """utf8_range_to_position, decided by Kani/CBMC on the real unicode.rs: for every text of <= K scalar values and every span on
    character boundaries the range selects exactly the span's text in the client's document (harness c16_h4_range of C16)."""
    import kanirun
    from vcommon import src_ref, Findings
    k = 6 if tier() == "thorough" else 4
    # ... and the other direction: the cursor position of a request becomes the byte offset the handlers look nodes up at
    # (harness c16_h2_pos2off: every position, against a byte-level reference)
    hs = ["h_unicode::c16_h4_range_k%d" % k, "h_unicode::c16_h2_pos2off_k%d" % k]
    o.functions.append(src_ref("oal-client/src/lsp/unicode.rs", "fn utf8_range_to_position"))
    o.functions.append(src_ref("oal-client/src/lsp/unicode.rs", "fn position_to_utf8"))
    o.bounds["position conversions (Kani)"] = "every text of <= %d Unicode scalar values, every span on character boundaries, every (line, character); unwind 4K+2 with unwinding assertions" % k
    res = kanirun.decide(o, "kern", hs, lambda _h: "src/h_unicode.rs", timeout=1500 if tier() == "quick" else 3000, findings=Findings())
    undecided = [h for h, r in res.items() if r["verdict"] not in ("SUCCESSFUL", "FAILED")]
    if undecided and not o.violations:
        # code CBMC cannot digest within the limit: the harness conditions replayed natively over a small alphabet decide
        import props.c16 as c16
        dev, ndir = c16.native_replay(o, o.prop)
        if dev:
            o.violation("position conversion deviates from the byte-level reference (native replay; %s did not finish under Kani): %s" % (
                ", ".join(h.split("::")[-1] for h in undecided), "; ".join(dev[:3])), ndir)
    return res


def check():
    o = Outcome("C17")
    E = mirlib.enums()
    try:
        ML = mirlib.module("oal-client")
        f_goto = ML.one(r"^(lsp::handlers::)?go_to_definition$")
        f_fd = ML.one(r"^(lsp::handlers::)?find_definition$")
        f_fr = ML.one(r"^(lsp::handlers::)?find_references$")
        f_refs = ML.one(r"^(lsp::handlers::)?references$")
    except Exception as ex:
        o.inconc("MIR: %s" % str(ex)[-300:])
        return o.finish()
    o.functions += [mirlib.func_ref(f, "oal-client") for f in (f_goto, f_fd, f_fr, f_refs)]
    o.assumptions = ["syntax_at, the syntax accessors, Core::definition, External::node and node_location are uninterpreted",
                     "<Definition as PartialEq>::eq in the handlers is the equality whose own MIR is checked by the identity lemmas (every component compared)"]
    o.bounds = {"control": "all paths; loops: one arbitrary iteration from an arbitrary state", "values": "unbounded"}
    o.outside = ["that the definition slot holds the innermost binder (C08)", "range conversion on texts longer than the Kani bound"]
    L = mirlib.Lemma(o)
    S = L.smt
    bad = []

    def on_sat(name, model):
        bad.append(name)

    def structural(name, ok, why=None):
        o.query(name, "mirsym/structural", "unsat" if ok else "violated", 0)
        if not ok and (why or name) not in bad:
            bad.append(why or name)
        return ok

    # go_to_definition: the location of the variable's own definition slot, else an empty array
    ex = mirlib.executor([ML], max_paths=4000)
    n_hit = n_empty = 0
    for p in ex.run(f_goto, arg_names=["state", "params"]):
        if p.kind != "return":
            continue
        if p.ret[0] != "variant" or p.ret[2] != "Ok":
            continue
        nl = p.calls("node_location")
        if nl:
            n_hit += 1
            sa = [e for e in p.calls() if e[1] == "syntax_at"]
            cd = [e for e in p.calls() if e[1] == "Core::definition"]
            en = [e for e in p.calls() if e[1] == "External::node"]
            okk = len(sa) == 1 and len(cd) == 1 and len(en) == 1 and any(t == sa[0][3] for t in ms.subterms(cd[0][2][0])) and \
                any(t == cd[0][3] for t in ms.subterms(en[0][2][0])) and nl[0][2][1] == en[0][3] and \
                any(t == ms.proj(ms.proj(nl[0][3], ("v", "Ok"), E), ("f", 0), E) for t in ms.subterms(p.ret))
            structural("go_to_definition: answers with the location of the node in the definition slot of the variable under the cursor", okk)
            L.expect_unsat("go_to_definition: a location is returned only for an external definition of a variable found at the offset",
                           S.pc(p.pc) + [z3.Or(S.disc(S.v(sa[0][3])) != 1, S.disc(S.v(cd[0][3])) != 1)] if sa and cd else [z3.BoolVal(True)], on_sat)
        else:
            n_empty += 1
            structural("go_to_definition: otherwise the answer is the empty array", "Array" in ms.show(p.ret) and "Vec::new" in ms.show(p.ret))
    if n_hit == 0 or n_empty == 0:
        o.inconc("go_to_definition: expected a hit path and an empty path (%d/%d)" % (n_hit, n_empty))
    mirlib.check_translator(o, ex, "go_to_definition")

    # find_definition
    ex = mirlib.executor([ML])
    kinds = set()
    for p in ex.run(f_fd, arg_names=["tree", "index"]):
        if p.kind != "return":
            continue
        if p.ret[0] == "variant" and p.ret[2] == "Some":
            en = [e for e in p.calls() if e[1] == "External::new"]
            dc = [e for e in p.calls() if e[1].startswith("Declaration.") and e[1].endswith("::cast")]
            structural("find_definition: on a declaration's identifier the definition is that declaration", len(en) == 1 and len(dc) == 1 and
                       any(t == ms.proj(ms.proj(dc[0][3], ("v", "Some"), E), ("f", 0), E) for t in ms.subterms(en[0][2][0])))
            kinds.add("decl")
        elif p.ret[0] == "app" and "cloned" in p.ret[1]:
            cd = [e for e in p.calls() if e[1] == "Core::definition"]
            vc = [e for e in p.calls() if e[1].startswith("Variable.") and e[1].endswith("::cast")]
            structural("find_definition: on a variable's identifier the definition is the variable's own slot", len(cd) == 1 and len(vc) == 1 and
                       any(t == cd[0][3] for t in ms.subterms(p.ret)) and any(t == ms.proj(ms.proj(vc[0][3], ("v", "Some"), E), ("f", 0), E) for t in ms.subterms(cd[0][2][0])))
            kinds.add("var")
    if kinds != {"decl", "var"}:
        o.inconc("find_definition: expected a declaration path and a variable path, got %s" % sorted(kinds))
    mirlib.check_translator(o, ex, "find_definition")

    find_references_lemmas(o, L, S, E, ML, f_fr, structural, on_sat)
    location_lemmas(o, E, ML, structural)

    # syntax_at: the node under the cursor is the first node of the wanted kind whose span contains the offset - the
    # search runs over all descendants, casts, and tests containment; no other stage can end it early or drop a hit
    try:
        f_sa = [f for f in ML.funcs if f.kind == "fn" and f.name.split("::")[-1] == "syntax_at" and "{closure" not in f.name]
        if len(f_sa) != 1:
            raise KeyError("syntax_at: %d candidates" % len(f_sa))
        o.functions.append(mirlib.func_ref(f_sa[0], "oal-client"))
        exs = mirlib.executor([ML])
        rets = [p for p in exs.run(f_sa[0], arg_names=["tree", "index"]) if p.kind == "return"]
        mirlib.check_translator(o, exs, "syntax_at")
        oks = len(rets) >= 1
        for p in rets:
            txt = ms.show(p.ret)
            stages = re.findall(r"(?:Iterator|Option)::(\w+)\(", txt)
            closures = [c for M2 in [ML] for c in M2.funcs if c.name.startswith(f_sa[0].name + "::{closure")]
            contains = any(re.search(r"Range<usize>>::contains|RangeBounds<usize>>::contains|Range::<usize>::contains|::contains::<usize>", b.term or "") for c in closures for b in c.blocks.values())
            oks = oks and "descendants" in txt and sorted(stages) == ["filter_map", "find"] and contains and len(closures) == 1
        structural("syntax_at: descendants -> cast -> first node whose span's range contains the offset, and nothing else (no stage that stops the search early or discards the hit)", oks)
    except KeyError as exn:
        o.inconc(str(exn)[:160])

    # references(): definition found at the cursor, then find_references on it
    ex = mirlib.executor([ML], max_paths=4000)
    okr = False
    for p in ex.run(f_refs, arg_names=["state", "params"]):
        fd = p.calls("find_definition")
        fr = p.calls("find_references")
        if fd and fr and any(t == ms.proj(ms.proj(fd[0][3], ("v", "Some"), E), ("f", 0), E) for a in fr[0][2] for t in ms.subterms(a)):
            okr = True
    structural("references: looks up the definition under the cursor and collects the references to exactly that definition", okr)

    if not identity_lemmas(o, L, S, E, on_sat):
        return o.finish()

    range_kernel(o)
    o.samples = [{"query": q["name"], "verdict": q["verdict"]} for q in o.queries[:12]]
    import lspcorpus
    rdir = new_replay_dir("C17", "lsp-corpus")
    probs, detail = lspcorpus.run(rdir, want=("definition", "references"))
    with open(os.path.join(rdir, "cmd"), "w") as f:
        f.write("#!/bin/sh\ncd /verif && exec ./check C17 --replay %s\n" % rdir)
    o.extra["real_lsp_corpus"] = detail
    if bad:
        if probs:
            o.violation("definition/references do not mirror the binding relation; lemma(s): %s; real oal-lsp: %s" % ("; ".join(bad[:3]), "; ".join(probs[:3])), rdir)
        else:
            o.inconc("UNCONFIRMED: lemma(s) fail (%s) but the real oal-lsp answers as annotated on all programs" % "; ".join(bad[:3]))
    elif probs:
        o.oracle_only("real oal-lsp deviates (%s) although every lemma holds" % probs[:3], rdir)
    return o.finish()


def replay(path):
    if "h_unicode" in os.path.basename(os.path.normpath(path)):
        import kanirun
        return kanirun.replay_saved(path)
    if "native" in os.path.basename(os.path.normpath(path)):
        import props.c16 as c16
        return c16.replay(path)
    import lspcorpus
    probs, detail = lspcorpus.run(new_replay_dir("C17", "lsp-corpus"), want=("definition", "references"))
    print(detail)
    print("problems:", probs)
    return 1 if probs else 0
