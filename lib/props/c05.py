"""C05 - abstraction is free: naming, inlining, wrapping, reordering keep the output (partial).

Engine M + z3 over the pass-through forms that make the rewrites free:
 * evaluation: `eval_subexpression`, `eval_terminal`, `eval_variable`, `eval_declaration` (inlining
   path) and `eval_binding` hand the value of the inner / defining expression on unchanged;
 * inference: `constrain()` equates the tag of a parenthesised / terminal / variable /
   parameterless-declaration node with the tag of what it stands for, `tag()` gives those forms a fresh
   variable (no kind of their own), and `type_check` applies no check to them;
 * trivia: `Context::skip_trivia` skips exactly the tokens `Lexeme::is_trivia` names, and the lexer's
   `is_trivia` is exactly {Space, CommentLine, CommentBlock}.
Replay oracle: six programs x the rewrites of the statement (comments / whitespace, parentheses,
naming primitives, inlining, single-use function, renaming, permutations, moving a closed group of
declarations into a module) through the real oal-cli; documents compared up to generated names.
"""
import os
import re

import mirlib
import mirsym as ms
import rewrites as rw
import z3
from vcommon import Outcome, build_cli, run_cli, new_replay_dir, tier, crashed

BASE = {
    "schemas-and-operators": {
        "files": {"main.oal": "let id = int;\nlet name = str;\nlet person = { 'id id, 'name name, 'tags [str] };\nlet either = person | { 'error str };\n"
                              "let both = person & { 'age? num };\nres /people on get -> <[person]> :: <status=404, either>;\nres /people/{ 'id id } on put : <both> -> <person>;\n"},
        "inline": ["id", "name", "either"], "identity": ["person", "both"], "module": ["id", "name", "person"],
    },
    "functions": {
        "files": {"main.oal": "let item = { 'sku str };\nlet page x = { 'items [x], 'next? uri };\nlet wrap y = { 'data y };\nlet tag z = { 'tag z };\nlet paged = wrap (page item);\n"
                              "res /items on get -> <paged> :: <status=500, tag str>;\n"},
        "inline": ["item", "paged"], "identity": ["item", "paged"], "module": ["item", "page", "wrap"],
    },
    "forwarding-functions": {
        "files": {"main.oal": "let pair x y = { 'first x, 'second y };\nlet wrap v = pair int v;\nlet flip a b = pair b a;\nlet tagged item = pair uri item;\n"
                              "let both u w = { 'l wrap u, 'r flip w u };\nres /f on get -> <wrap str> :: <status=404, flip bool num> :: <status=500, tagged int> :: <status=501, both str bool>;\n"},
        "inline": [], "identity": [], "module": ["pair", "wrap", "flip"],
    },
    "recursion": {
        "files": {"main.oal": "let leaf = { 'v num };\nlet tree = { 'node leaf, 'kids [tree] };\nlet chain = rec n { 'next? n, 'leaf leaf };\nlet @named = { 'tree tree, 'chain chain };\n"
                              "res /t on get -> <tree> :: <status=404, @named>;\n"},
        "inline": ["leaf", "chain"], "identity": ["leaf"], "module": ["leaf", "tree"],
    },
    "rec-named-or-written-in-place": {
        "files": {"main.oal": "let r = rec x { 'k? x };\nlet a = { 'r r, 'b? b };\nlet b = { 'a? a, 'self? b };\nlet list = { 'payload (rec y { 'c? y }), 'next? list };\n"
                              "res / on get -> <a> :: <status=404, b>;\nres /lists on get -> <list>;\n"},
        "inline": ["r"], "identity": ["r"], "module": ["r"],
    },
    "rec-function-applied-twice-in-one-expression": {
        "files": {"main.oal": "let list x = rec r { 'item x, 'rest [r] };\nlet both = { 'ints (list int), 'strs (list str) };\nlet pair y = { 'l (list y), 'r (list bool) };\n"
                              "res /both on get -> <both> :: <status=404, pair num>;\n"},
        "inline": ["both"], "identity": ["both"], "module": ["list"],
    },
    "declarations-of-two-directories": {
        "files": {"main.oal": "let ident = str `format: \"uuid\"`;\nlet rootident = int `minimum: 1`;\nlet item = { 'id ident, 'n rootident };\nres /items on get -> <[item]> :: <status=404, rootident>;\n"},
        "inline": [], "identity": [], "module": ["ident"],
        # the same declarations moved into a module of a sub-directory that imports a sibling of its own, next to a file of
        # the same name in the main directory
        "extra": {"moved-into-a-sub-directory-with-an-import-of-its-own": {
            "main.oal": 'use "lib/api.oal" as api;\nuse "types.oal" as rt;\nres /items on get -> <[api.item]> :: <status=404, rt.ident>;\n',
            "types.oal": "let ident = int `minimum: 1`;\n",
            "lib/api.oal": 'use "types.oal" as t;\nuse "../types.oal" as rt;\nlet item = { \'id t.ident, \'n rt.ident };\n',
            "lib/types.oal": "let ident = str `format: \"uuid\"`;\n"}},
    },
    "an-operator-under-the-same-operator": {
        "files": {"main.oal": "let cat = { 'c str };\nlet dog = { 'd str };\nlet bird = { 'b str };\nlet other = dog ~ bird;\nlet any3 = cat ~ other;\nlet o2 = dog | bird;\nlet sum3 = cat | o2;\n"
                              "let j2 = dog & bird;\nlet all3 = cat & j2;\nres / on get -> <any3> :: <status=404, sum3> :: <status=500, all3>;\n"},
        "inline": ["other", "o2", "j2"], "identity": ["other", "o2"], "module": ["dog", "bird", "other"],
    },
    # parameters and a rec binder spelled like declarations of the module (and like the built-in function): the binder shadows them
    "binders-spelled-like-declarations": {
        "files": {"main.oal": "let item = { 'name str };\nlet page item = { 'data [item], 'count int };\nlet wrap concat = { 'w concat };\nlet chain = rec item { 'v num, 'next? item };\nlet both item page = { 'l item, 'r page };\nres /p on get -> <page int>;\nres /w on get -> <wrap bool>;\nres /c on get -> <chain>;\nres /i on get -> <item>;\nres /b on get -> <both str num>;\n"},
        "inline": [], "identity": [], "module": [],
        "extra": {"binders-given-fresh-names": {"main.oal": "let item = { 'name str };\nlet page elem = { 'data [elem], 'count int };\nlet wrap inner = { 'w inner };\nlet chain = rec link { 'v num, 'next? link };\nlet both left right = { 'l left, 'r right };\nres /p on get -> <page int>;\nres /w on get -> <wrap bool>;\nres /c on get -> <chain>;\nres /i on get -> <item>;\nres /b on get -> <both str num>;\n"}},
    },
    "two-recursive-schemas": {
        "files": {"main.oal": "let tree = { 'id int, 'kids [tree] };\nlet chain = { 'id str, 'rest [chain] };\nres /t on get -> <tree>;\nres /c on get -> <chain>;\n"},
        "inline": [], "identity": [], "module": ["tree"], "split": [["tree"], ["chain"]],
    },
    "contents-and-transfers": {
        "files": {"main.oal": "let body = { 'a str };\nlet ok = <status=200, media=\"application/json\", headers={ 'etag str }, body>;\nlet bad = <status=4XX, { 'msg str }>;\n"
                              "let read = get -> ok :: bad;\nlet write = put, patch : <body> -> ok :: bad;\nres /doc on read, write;\n"},
        "inline": ["body", "ok", "bad", "read"], "identity": ["body"], "module": ["body", "ok", "bad"],
    },
    "uris-and-relations": {
        "files": {"main.oal": "let key = 'k str;\nlet base = /v1/things;\nlet one = concat base /{ key };\nlet rel = one on get -> <{ 'self uri }>;\n"
                              "res rel;\nres /v1/search?{ 'q? str } on get -> <[{ 'k str }]>;\n"},
        "inline": ["base", "one", "rel"], "identity": [], "module": ["key", "base", "one"],
    },
    "annotations": {
        "files": {"main.oal": "let age = int `minimum: 0, maximum: 150`;\nlet p = { 'age age `description: \"years\"`, 'nick? str `pattern: \"[a-z]+\"` } `title: \"P\"`;\n"
                              "res /p on get -> <p> `description: \"the p\"`;\n"},
        "inline": ["age"], "identity": [], "module": ["age", "p"],
    },
}


def variants(name, spec):
    files = spec["files"]
    src = files["main.oal"]
    v = {}
    for st in ("block", "line", "space", "varied"):
        v["trivia-" + st] = {**files, "main.oal": rw.trivia(src, st)}
    v["parenthesised"] = {**files, "main.oal": rw.parenthesise(src)}
    v["primitives-named"] = {**files, "main.oal": rw.name_primitives(src)}
    v["renamed"] = {**files, "main.oal": rw.rename(src)}
    v["parameters-renamed-to-clash"] = {**files, "main.oal": rw.canonical_parameters(src)}
    for how in ("reversed", "rotated", "res-first"):
        v["permuted-" + how] = {**files, "main.oal": rw.permute(src, how)}
    if spec.get("inline"):
        v["inlined"] = {**files, "main.oal": rw.inline(src, spec["inline"])}
        for nm in spec["inline"]:
            v["inlined-" + nm] = {**files, "main.oal": rw.inline(src, [nm])}
    if spec.get("identity"):
        v["through-single-use-functions"] = {**files, "main.oal": rw.through_identity(src, spec["identity"])}
        ab = rw.abstract_primitive(src, spec["identity"])
        if ab != src:
            v["body-as-a-function-of-one-of-its-primitives"] = {**files, "main.oal": ab}
    if spec.get("module"):
        v["moved-to-module"] = rw.to_module(files, spec["module"])
        v["moved-to-qualified-module"] = rw.to_module(files, spec["module"], qualifier="zq")
    if spec.get("split"):
        # each group into a module of its own (the declarations then sit at the same position of their modules' trees)
        cur = dict(files)
        for i, group in enumerate(spec["split"]):
            cur = rw.to_module(cur, group, module="zzsplit%d.oal" % i)
        v["split-into-modules"] = cur
        cur = dict(files)
        for i, group in enumerate(spec["split"]):
            cur = rw.to_module(cur, group, module="dir%d/model.oal" % i)
        v["split-into-same-named-modules"] = cur
    v["renamed+reversed+trivia"] = {**files, "main.oal": rw.trivia(rw.permute(rw.rename(src), "reversed"), "block")}
    for k_, files_ in (spec.get("extra") or {}).items():
        v[k_] = files_
    return v


def run_rewrites(rdir):
    cli = build_cli()
    probs, detail = [], {}
    for name, spec in BASE.items():
        base = run_cli(cli, spec["files"], workdir=os.path.join(rdir, name, "original"), timeout=60)
        d = detail.setdefault(name, {"rc": base["rc"], "variants": {}})
        if base["rc"] != 0:
            probs.append("%s: the original program is not accepted (exit %s)" % (name, base["rc"]))
            continue
        try:
            want = rw.canonical(mirlib.yaml_to_obj(base["target"] or ""))
        except Exception as ex:
            probs.append("%s: output is not YAML (%s)" % (name, str(ex)[:60]))
            continue
        for vn, files in variants(name, spec).items():
            r = run_cli(cli, files, workdir=os.path.join(rdir, name, vn.replace("+", "-")), timeout=60)
            d["variants"][vn] = r["rc"]
            if crashed(r):
                probs.append("%s / %s: oal-cli dies (exit %s)" % (name, vn, r["rc"]))
            elif r["rc"] != 0:
                probs.append("%s / %s: the rewritten program is rejected (%s)" % (name, vn, re.sub(r"\x1b\[[0-9;]*m", "", r["out"]).strip().split("\n")[0][:80]))
            else:
                try:
                    got = rw.canonical(mirlib.yaml_to_obj(r["target"] or ""))
                except Exception as ex:
                    probs.append("%s / %s: output is not YAML" % (name, vn))
                    continue
                if got != want:
                    probs.append("%s / %s: a different document (%s)" % (name, vn, "; ".join(rw.diff_paths(want, got)[:2])))
    return probs, detail


def check():
    o = Outcome("C05")
    E = mirlib.enums()
    try:
        M = mirlib.module("oal-compiler")
        MM = mirlib.module("oal-model")
        MS = mirlib.module("oal-syntax")
    except Exception as ex:
        o.inconc("MIR: %s" % str(ex)[-300:])
        return o.finish()
    o.bounds = {"control": "all paths of the pass-through functions; loops one arbitrary iteration", "values": "unbounded"}
    o.assumptions = ["eval_any, the syntax accessors, Annotation::extend / compose_annotations are uninterpreted",
                     "an empty annotation list composes to the neutral annotation (library behaviour of serde_yaml mappings)"]
    o.outside = ["that two whole compilations agree (only sampled by the replay oracle)", "annotation algebra", "the order of components / paths inside the YAML maps"]
    L = mirlib.Lemma(o)
    S = L.smt
    bad = []

    def on_sat(name, model):
        if name not in bad:
            bad.append(name)

    def structural(name, ok, why=None):
        o.query(name, "mirsym/structural", "unsat" if ok else "violated", 0)
        if not ok and (why or name) not in bad:
            bad.append(why or name)
        return ok

    # ---------------------------------------------------------------- evaluation pass-through
    def passthrough(pat, label, args, inner_pat, what):
        try:
            f = M.one(pat)
        except KeyError as ex:
            o.inconc(str(ex)[:200])
            return
        o.functions.append(mirlib.func_ref(f, "oal-compiler"))
        ex = mirlib.executor([M])
        n = 0
        for p in ex.run(f, arg_names=args):
            if p.kind != "return":
                continue
            ea = [e for e in p.calls() if e[1] in ("eval_any", "eval_terminal")]
            if len(ea) == 1 and p.ret == ea[0][3]:
                n += 1
                okk = ea[0][2][0] == ("sym", "ctx") and re.search(inner_pat, ms.show(ea[0][2][1])) and ea[0][2][2] == ("sym", "ann")
                structural("%s: %s" % (label, what), bool(okk))
        if n == 0:
            structural("%s: %s" % (label, what), False, "%s has no path that hands the inner value on unchanged" % label)
        mirlib.check_translator(o, ex, label)

    passthrough(r"^(eval::)?eval_subexpression$", "eval_subexpression", ["ctx", "expr", "ann"], r"SubExpression::inner\(&expr\)",
                "a parenthesised expression evaluates to exactly what its inside evaluates to, under the same annotation")
    # eval_variable (external definition): the value of the defining node, same annotation
    try:
        f = M.one(r"^(eval::)?eval_variable$")
        o.functions.append(mirlib.func_ref(f, "oal-compiler"))
        ex = mirlib.executor([M])
        n = 0
        for p in ex.run(f, arg_names=["ctx", "variable", "ann"]):
            if p.kind != "return":
                continue
            ea = [e for e in p.calls() if e[1] == "eval_any"]
            if len(ea) == 1 and p.ret == ea[0][3]:
                n += 1
                en = [e for e in p.calls() if e[1] == "External::node"]
                structural("eval_variable: a use of a declared name evaluates to what its definition node evaluates to, under the use's annotation",
                           len(en) == 1 and ea[0][2][1] == en[0][3] and ea[0][2][2] == ("sym", "ann") and "Core::definition" in [e[1] for e in p.calls()])
        if n == 0:
            structural("eval_variable: external definitions are evaluated in place", False)
    except KeyError as exn:
        o.inconc(str(exn)[:200])
    # eval_declaration: the inlining path
    try:
        f = M.one(r"^(eval::)?eval_declaration$")
        o.functions.append(mirlib.func_ref(f, "oal-compiler"))
        ex = mirlib.executor([M], max_paths=4000)
        n = 0
        for p in ex.run(f, arg_names=["ctx", "decl", "ann"]):
            if p.kind != "return":
                continue
            ea = [e for e in p.calls() if e[1] == "eval_any"]
            if len(ea) == 1 and p.ret == ea[0][3]:
                n += 1
                ext = [e for e in p.calls() if e[1] == "Annotation::extend"]
                structural("eval_declaration: a plain `let` (no parameters, not a reference, not a recursion point) evaluates to its right-hand side; "
                           "the annotation handed down is the declaration's own extended by the use's",
                           "Declaration::rhs(&decl)" in ms.show(ea[0][2][1]) and len(ext) == 1 and "compose_annotations(Declaration::annotations(&decl))" in ms.show(ext[0][2][0]) and
                           "ann" in ms.show(ext[0][2][1]) and not [e for e in p.calls() if e[1] == "IndexMap::insert"])
        if n == 0:
            structural("eval_declaration: plain declarations are inlined", False)
    except KeyError as exn:
        o.inconc(str(exn)[:200])
    # eval_binding: a parameter evaluates to the argument bound to it
    try:
        f = M.one(r"^(eval::)?eval_binding$")
        ex = mirlib.executor([M])
        for p in ex.run(f, arg_names=["ctx", "binding", "ann"]):
            if p.kind == "return" and ms.show(p.ret).startswith("Result::Ok"):
                lk = [e for e in p.calls() if e[1] == "Context::lookup_binding"]
                structural("eval_binding: a parameter evaluates to the very value that was bound to it (only the annotation is extended)",
                           len(lk) == 1 and ms.proj(ms.proj(p.ret, ("v", "Ok"), E), ("f", 0), E)[0] == "aggr" and
                           ms.proj(ms.proj(ms.proj(p.ret, ("v", "Ok"), E), ("f", 0), E), ("f", 0), E) == ms.proj(ms.proj(ms.proj(lk[0][3], ("v", "Some"), E), ("f", 0), E), ("f", 0), E))
    except KeyError as exn:
        o.inconc(str(exn)[:200])

    # a single-use function applied to an expression, and renaming of parameters, are free only if the arguments are
    # evaluated where they are written: in the caller's context (shared with C08)
    try:
        import props.c08 as c08
        c08.application_lemmas(o, M, E, M.one(r"^(eval::)?eval_application$"), structural)
        # naming a rec with let or writing it in place is free only if the references that follow it in the same
        # declaration still reach the definition graph (shared with C09)
        import props.c09 as c09
        c09.graph_lemmas(o, L, S, M, E, structural, on_sat)
        # ... on an import meaning the same wherever the importing module lives (shared with C08)
        c08.declare_import_lemma(o, M, E, M.one(r"^(resolve::)?declare_import$"), structural)
        # ... and on every instantiation of a rec getting a name of its own (shared with C09)
        c09.naming_lemmas(o, L, S, M, E, (M.one(r"^(eval::)?eval_recursion$"), M.one(r"^eval::<impl[^>]*>::node_identifier$"), M.one(r"^eval::<impl[^>]*>::push_scope$"),
                                         M.sel("eval", "new", ret=r"eval::Context")), structural, on_sat)
        # ... and on a binder shadowing whatever else has its name: both lookups answer with the innermost scope (shared with C08)
        c08.lookup_lemmas(o, L, S, M, E, on_sat, 4 if tier() == "quick" else 6)
    except KeyError as exn:
        o.inconc(str(exn)[:200])

    # ---------------------------------------------------------------- inference: transparent forms have no kind of their own
    try:
        f_con = M.one(r"^inference::constrain$|^(inference::)?constrain$")
        f_tag = M.one(r"^inference::tag$|^(inference::)?tag$")
        o.functions += [mirlib.func_ref(f_con, "oal-compiler"), mirlib.func_ref(f_tag, "oal-compiler")]
    except KeyError as exn:
        o.inconc(str(exn)[:200])
        f_con = f_tag = None
    if f_con is not None:
        ex = mirlib.executor([M], max_paths=20000)
        eqs = {}
        for p in ex.run(f_con):
            if p.kind not in ("return", "backedge"):
                continue
            casts = [e for e in p.calls() if e[1].endswith(".AbstractSyntaxNode::cast")]
            some = None
            for e in casts:
                v, _ = S.check("constrain: cast", S.pc(p.pc) + [S.i(ms.disc_of(e[3], E)) == 1])
                v0, _ = S.check("constrain: cast none", S.pc(p.pc) + [S.i(ms.disc_of(e[3], E)) != 1])
                if v == "sat" and v0 == "unsat":
                    some = e[1].split(".")[0]
            if some is None:
                continue
            for e in p.calls():
                if e[1] == "InferenceSet::push":
                    eqs.setdefault(some, set()).add((ms.show(e[2][1])[:120], ms.show(e[2][2])[:120]))
        mirlib.check_translator(o, ex, "constrain")
        o.extra["equations_of_transparent_forms"] = {k: sorted(v)[:4] for k, v in eqs.items() if k in ("SubExpression", "Terminal", "Variable", "Declaration")}

        def has_eq(kind, inner):
            return any("get_tag" in a and inner in b or "get_tag" in b and inner in a for a, b in eqs.get(kind, ()))
        structural("constrain: a parenthesised expression has the kind of its inside (one equation: tag(node) = tag(inner))", has_eq("SubExpression", "SubExpression::inner"))
        structural("constrain: a terminal has the kind of its inside", has_eq("Terminal", "Terminal::inner"))
        # a use of a name: tag() gives the variable node the tag of its definition node outright
        exv = mirlib.executor([M], max_paths=20000)
        okv = False
        for p in exv.run(f_tag):
            if p.kind not in ("return", "backedge"):
                continue
            vc = [e for e in p.calls() if e[1] == "Variable.AbstractSyntaxNode::cast"]
            st = [e for e in p.calls() if e[1].endswith("set_tag")]
            if vc and st:
                v1, _ = S.check("tag: variable path", S.pc(p.pc) + [S.i(ms.disc_of(vc[-1][3], E)) != 1])
                if v1 == "unsat" and any("get_tag(External::node(" in ms.show(e[2][1]) for e in st):
                    okv = True
        structural("tag: a use of a declared name is given the very tag of its definition node (no kind of its own)", okv)
        structural("constrain: a parameterless declaration has the kind of its right-hand side", has_eq("Declaration", "Declaration::rhs"))

    # ---------------------------------------------------------------- trivia
    try:
        f_skip = MM.one(r"grammar::<impl[^>]*>::skip_trivia$")
        o.functions.append(mirlib.func_ref(f_skip, "oal-model"))
        ex = mirlib.executor([MM])
        n_adv = n_stop = 0
        for p in ex.run(f_skip, arg_names=["self", "s"]):
            tr = [e for e in p.calls() if e[1].endswith("Lexeme::is_trivia")]
            adv = [e for e in p.calls() if e[1].endswith("::advance")]
            cond = S.pc(p.pc)
            if p.kind == "backedge":
                n_adv += 1
                if tr:
                    L.expect_unsat("skip_trivia: the cursor moves on only over a token the lexicon calls trivia", cond + [z3.Not(S.b(tr[-1][3]))], on_sat)
                structural("skip_trivia: moves on by exactly one token", len(adv) == 1)
            elif p.kind == "return":
                n_stop += 1
                if tr:
                    L.expect_unsat("skip_trivia: stops at the first token that is not trivia", cond + [S.b(tr[-1][3])], on_sat)
                structural("skip_trivia: returns the cursor it stopped at, without advancing past it", not adv)
        if n_adv == 0 or n_stop == 0:
            o.inconc("skip_trivia: expected an advancing and a stopping path (%d/%d)" % (n_adv, n_stop))
        # every token the parser reads goes through skip_trivia first (pop / peek are reached via it)
        users = []
        for f in MM.funcs:
            for b in f.blocks.values():
                if b.term and "skip_trivia" in b.term and not f.name.endswith("skip_trivia"):
                    users.append(f.short)
        o.extra["callers_of_skip_trivia"] = sorted(set(users))
        structural("grammar: the token-reading primitives skip trivia before they look at a token", len(set(users)) >= 1)
    except KeyError as exn:
        o.inconc(str(exn)[:200])
    # the lexer's trivia set
    try:
        E2 = E
        kinds = E2.table.get("TokenKind")
        f_it = [f for f in MS.find(r"lexer::<impl[^>]*>::is_trivia$", nargs=1) if f.args[0][1].strip().startswith("&")][0]
        triv = set()
        for k in kinds or []:
            ex = ms.Executor([MS], enums=E2, inline=[r"lexer::<impl[^>]*>::is_comment$"])
            outs = ex.run(f_it, [("addr", ("variant", "TokenKind", k, ()))])
            rets = {ms.show(x.ret) for x in outs if x.kind == "return"}
            if rets == {"True"}:
                triv.add(k)
            elif rets != {"False"}:
                triv.add("?" + k)
        o.extra["trivia_token_kinds"] = sorted(triv)
        structural("lexer: the trivia tokens are exactly Space, CommentLine and CommentBlock", triv == {"Space", "CommentLine", "CommentBlock"},
                   "lexer trivia set is %s" % sorted(triv))
    except Exception as exn:
        o.inconc("lexer is_trivia table: %s" % str(exn)[:160])

    o.samples = [{"query": q["name"], "verdict": q["verdict"]} for q in o.queries[:16]]
    rdir = new_replay_dir("C05", "rewrites")
    probs, detail = run_rewrites(rdir)
    o.extra["real_cli_rewrites"] = detail
    o.extra["rewritten_programs"] = sum(len(d.get("variants", {})) for d in detail.values())
    with open(os.path.join(rdir, "cmd"), "w") as f:
        f.write("#!/bin/sh\ncd /verif && exec ./check C05 --replay %s\n" % rdir)
    if bad:
        if probs:
            o.violation("a meaning-preserving rewrite changes the outcome; lemma(s): %s; real oal-cli: %s" % ("; ".join(bad[:3]), "; ".join(probs[:3])), rdir)
        else:
            o.inconc("UNCONFIRMED: lemma(s) fail (%s) but every rewritten program compiles to the same document on the real oal-cli" % "; ".join(bad[:3]))
    elif probs:
        o.oracle_only("real oal-cli: %s - although every lemma holds" % "; ".join(probs[:4]), rdir)
    return o.finish()


def replay(path):
    rdir = new_replay_dir("C05", "rewrites-replay")
    probs, detail = run_rewrites(rdir)
    print(detail)
    print("problems:", probs)
    return 1 if probs else 0
