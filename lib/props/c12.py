"""C12 - parser memoisation is invisible and keeps parsing linear (partial: the memo protocol).

Engine M over `memoize`, `Context::{lookup, cache, without_cache}` (oal-model/src/grammar.rs)
and the two `memoize` call sites in oal-syntax/src/parser.rs.
Replay oracle: the real parser run with and without its memo table on a corpus
(drivers/parsedrv): identical trees/errors, and token reads growing linearly with nesting.
"""
import os
import re

import mirlib
import mirsym as ms
import z3
from vcommon import Outcome, CACHE, REPO, VERIF, run, new_replay_dir, tier

CORPUS = {
    "simple": "let a = { 'x num };\nres / on get -> <a>; // c\n",
    "nested-objects": "let a = { 'p { 'q [ { 't num } ] } };\nres /x/{ 'id int } on get, put : <a> -> <status=200, a> :: <status=4XX, {}>;\n",
    "operators": "let a = num | str | bool;\nlet b = { 'x a } & { 'y (a ~ int) };\nlet f x y = x & y;\nres / on get -> <f b {}>;\n",
    "backtracking-terms": "let a = ((num));\nlet b = ( { 'k ( [ (str) ] ) } );\nres / on get -> <(a)> :: <(b)>;\n",
    "syntax-error-late": "let a = { 'x num };\nres / on get -> <a> :: ;\n",
    "syntax-error-nested": "let a = { 'p { 'q ( } };\n",
    "lexical-error": "let a = { 'x num };\nres / on get -> <a>; §\n",
    "annotations": "# description: \"d\"\nlet a = num `minimum: 0`;\nres / on get -> <a> `description: \"x\"`;\n",
}


def nested(d):
    return "let a = " + "(" * d + "num" + ")" * d + ";\nres / on get -> <a>;\n"


def build_parsedrv():
    import shutil
    import vcommon
    d = vcommon.crate_src("drivers/parsedrv")
    lock = os.path.join(REPO, "Cargo.lock")
    if os.path.exists(lock):
        shutil.copyfile(lock, os.path.join(d, "Cargo.lock"))
    tdir = os.path.join(CACHE, "drv-target")
    rc, out, t = run(["cargo", "build", "--offline"], cwd=d, timeout=1500, extra_env={"CARGO_TARGET_DIR": tdir})
    if rc != 0:
        raise RuntimeError("parsedrv build failed:\n" + out[-3000:])
    return os.path.join(tdir, "debug", "parsedrv")


def parse_out(out):
    d = {}
    for line in out.split("\n"):
        if line.startswith(("memo ", "nomemo ", "tokens ")):
            k = line.split()[0]
            d[k] = dict(x.split("=", 1) for x in line.split()[1:] if "=" in x)
            if k == "tokens":
                d[k]["n"] = line.split()[1]
        elif line.startswith("same="):
            d["same"] = line.strip() == "same=true"
    return d


FORMS = {"transfer": "get -> {}", "transfer-full": "patch, put : { 'a num } -> <status=200, {}> :: <status=4XX>", "primitive": "num", "object": "{ 'a num, 'b? str }",
         "array": "[num]", "uri": "/a/{ 'id int }/b", "application": "f x y", "recursion": "rec x { 'next x }", "group": "(num)", "alternative": "a | b",
         "join": "a & { 'c num }", "content": "<status=200>", "content-body": "<media=\"text/plain\", str>", "variable": "q.v", "literal": "\"lit\"",
         "property": "'p num", "annotated": "num `minimum: 0`"}
POSITIONS = {"sole-meta": "<headers=%s>", "first-meta": "<headers=%s, media=\"a/b\">", "last-meta": "<status=200, headers=%s>", "meta-then-body": "<headers=%s, {}>",
             "body": "<%s>", "body-after-meta": "<status=200, %s>", "property": "{ 'p %s }", "second-property": "{ 'p num, 'q %s }", "element": "[%s]", "group": "(%s)",
             "argument": "f %s", "second-argument": "f a %s", "left-operand": "%s | b", "right-operand": "a & %s", "range": "get -> %s", "domain": "put : %s -> {}",
             "second-range": "get -> {} :: %s", "rec-body": "rec x %s"}


def forms_in_positions():
    """Every expression form in every syntactic position, as a declaration and as the right-hand side of a resource: small texts
    in which each position's back-tracking (a content tried with and without a body, an application tried before a term, ...)
    meets each form's first token. Well formed or not, the tree and the errors must not depend on the memo table."""
    out = {}
    for pn, pos in POSITIONS.items():
        for fn, form in FORMS.items():
            out["form/%s/%s" % (pn, fn)] = "let a = %s;\nres /r on get -> %s;\n" % (pos % form, pos % form)
    return out


def long_flat_files():
    """Long files without nesting: one position per file, 360 declarations cycling through the forms - whatever a parse leaves
    behind in the context (a counter, a budget, a table that fills up) has time to add up, and the plain parse is still cheap."""
    out = {}
    forms = list(FORMS.values())
    for pn, pos in POSITIONS.items():
        out["flat/%s" % pn] = "".join("let v%d = %s;\n" % (i, pos % forms[i % len(forms)]) for i in range(360))
    return out


def pool_texts():
    out = {}
    try:
        import pool
        for k, files in pool.programs().items():
            for fn, text in files.items():
                out["pool/%s/%s" % (k, fn)] = text
    except Exception:
        pass
    return out


def run_corpus(tag="memo"):
    drv = build_parsedrv()
    rdir = new_replay_dir("C12", tag)
    mism, detail = [], {}
    texts = dict(CORPUS)
    # without the memo table the parser is exponential in the nesting depth: keep the comparison shallow
    for d in (2, 4):
        texts["nested-%d" % d] = nested(d)
    texts.update(forms_in_positions())
    texts.update(pool_texts())
    texts.update(long_flat_files())
    for name, text in texts.items():
        with open(os.path.join(rdir, name.replace("/", "_") + ".oal"), "w") as f:
            f.write(text)
        rc, out, t = run([drv], stdin=text, timeout=120, mem_gb=4)
        r = parse_out(out)
        detail[name] = {"rc": rc, "same": r.get("same"), "reads_memo": r.get("memo", {}).get("reads"), "reads_nomemo": r.get("nomemo", {}).get("reads"),
                        "hits": r.get("memo", {}).get("hits")}
        if rc != 0 or "same" not in r:
            mism.append("%s: parser driver died (rc=%s)" % (name, rc))
        elif not r["same"]:
            mism.append("%s: tree/errors differ with and without the memo table" % name)
    # token reads with the memo table grow linearly with the nesting depth (sampled, replay oracle only)
    reads = {}
    for d in (8, 16, 32, 64):
        rc, out, t = run([drv], stdin=nested(d), timeout=60, mem_gb=4, extra_env={"PARSEDRV_MEMO_ONLY": "1"})
        r = parse_out(out)
        try:
            reads[d] = int(r.get("memo", {}).get("reads"))
        except (TypeError, ValueError):
            mism.append("nested-%d: parser driver died (rc=%s)" % (d, rc))
    detail["reads_by_depth"] = reads
    # ... and the memo table keeps working however much was parsed before: the marginal cost of a nested
    # declaration at the end of a long file is its stand-alone cost
    nest = "let z = " + "(" * 7 + "num" + ")" * 7 + ";\n"
    prefix = "".join("let v%d = { 'a num, 'b [str] };\n" % i for i in range(8000))      # far more results than any fixed-size table holds
    rr = {}
    for nm, text in (("nest", nest), ("prefix", prefix), ("prefix+nest", prefix + nest)):
        rc, out, t = run([drv], stdin=text, timeout=180, mem_gb=6, extra_env={"PARSEDRV_MEMO_ONLY": "1"})
        r = parse_out(out)
        try:
            rr[nm] = int(r.get("memo", {}).get("reads"))
        except (TypeError, ValueError):
            mism.append("long file (%s): parser driver died or timed out (rc=%s)" % (nm, rc))
    detail["reads_long_file"] = rr
    if len(rr) == 3 and rr["prefix+nest"] - rr["prefix"] > 3 * rr["nest"] + 50:
        mism.append("token reads for a nested declaration explode after a long prefix (the memo table stops working): %s" % rr)
    # ... also when the innermost level is malformed, so that every enclosing level fails too: a failed production
    # must be remembered just like a successful one (unclosed / empty nests of depth 3, 5, 7)
    for shape, mk in (("unclosed-parens", lambda d: "let a = " + "(" * d + "num;\n"), ("empty-parens", lambda d: "let a = " + "(" * d + ")" * d + ";\n"),
                      ("unclosed-mixed", lambda d: "let a = " + "".join("([{<"[i % 2] for i in range(d)) + " 'p num;\n"),
                      # well-formed, but every level abandons one alternative after composing nodes (a content with meta-data and no body)
                      ("meta-only-contents", lambda d: "res / on get -> " + "<headers={ 'next " * d + "<status=204>" + " }>" * d + ";\n"),
                      ("nests-inside-a-rec-body", lambda d: "let a = rec x " + "{ 'p [" * d + "x" + "] }" * d + ";\n"),
                      ("meta-only-contents-with-a-repetition-in-a-later-entry", lambda d: "res / on get -> " + "<headers=" * d + "<status=204>" + ", media={ 'a num, 'b num }>" * d + ";\n"),
                      ("applications-with-two-arguments-nested", lambda d: "let a = " + "(f (" * d + "x" + ") y)" * d + ";\n"),
                      ("contents-with-bodies", lambda d: "res / on get -> " + "<status=200, { 'next " * d + "<status=204, {}>" + " }>" * d + ";\n")):
        rr = {}
        for d in (3, 5, 7):
            rc, out, t = run([drv], stdin=mk(d), timeout=120, mem_gb=6, extra_env={"PARSEDRV_MEMO_ONLY": "1"})
            r = parse_out(out)
            try:
                rr[d] = int(r.get("memo", {}).get("reads"))
            except (TypeError, ValueError):
                mism.append("%s depth %d: parser driver died or timed out (rc=%s)" % (shape, d, rc))
        detail["reads_" + shape] = rr
        if len(rr) == 3:
            i1, i2 = rr[5] - rr[3], rr[7] - rr[5]
            if i2 > 2 * max(1, i1) + 50:
                mism.append("token reads explode on malformed nested input (%s): %s" % (shape, rr))
    if len(reads) == 4:
        inc = [reads[16] - reads[8], (reads[32] - reads[16]) / 2.0, (reads[64] - reads[32]) / 4.0]
        if max(inc) > 1.5 * max(1, min(inc)):
            mism.append("token reads do not grow linearly with nesting depth: %s" % reads)
    # the same through the public entry point (oal_syntax::parse inside the playground's compile): a text of some fifty
    # tokens nested 20 deep is answered at once when work is linear - and not within half a minute when it is not
    try:
        from vcommon import build_wasmdrv, run_wasm
        wdrv = build_wasmdrv()
        for shape, text in (("parens", "let a = " + "(" * 20 + "num" + ")" * 20 + ";\n"), ("arrays", "let a = " + "[" * 20 + "num" + "]" * 20 + ";\nres / on get -> <a>;\n")):
            w = run_wasm(wdrv, text, timeout=30)
            detail["entry-point-short-deep-" + shape] = {"rc": w["rc"], "status": w["status"]}
            if w["rc"] != 0 or w["status"] is None:
                mism.append("short text nested 20 deep (%s): the public entry point does not answer within 30 s (rc=%s): the work is not linear in the number of tokens" % (shape, w["rc"]))
    except Exception as exn:
        mism.append("entry-point measurement could not run: %s" % str(exn)[:100])
    with open(os.path.join(rdir, "cmd"), "w") as f:
        f.write("#!/bin/sh\ncd /verif && exec ./check C12 --replay %s\n" % rdir)
    return mism, rdir, detail


def memo_lemmas(o, L, S, E, MM, MS, fs, structural, on_sat, bad):
    """The memo protocol, step by step (shared with C04: a parser that stops remembering is a parser that hangs on
    nested input)."""
    f_memo, f_look, f_cache, f_wo, f_new = fs
    # field order of Context from its constructor
    import mirparse as mp
    names = None
    for b in f_new.blocks.values():
        ps, pt = mp.stmts_of(b)
        for st in ps:
            if st[0] == "assign" and st[2][0] == "aggr" and st[2][4] and "no_cache" in st[2][4]:
                names = list(st[2][4])
    if not names:
        o.inconc("cannot read Context's field order")
        return
    i_nc, i_cache = names.index("no_cache"), names.index("cache")

    # memoize
    ex = mirlib.executor([MM])
    outs = [p for p in ex.run(f_memo, arg_names=["t", "c", "s", "p"]) if p.kind == "return"]
    mirlib.check_translator(o, ex, "memoize")
    n_hit = n_miss = 0
    for p in outs:
        lk = p.calls("Context::lookup")
        cond = S.pc(p.pc)
        if len(lk) != 1 or lk[0][2][1:] != (("sym", "t"), ("sym", "s")):
            structural("memoize: looks (tag, cursor) up exactly once", False)
            continue
        hit = S.disc(S.v(lk[0][3])) == 1
        pcalls = [e for e in p.calls() if re.match(r"^(copy|move) _\d+$", e[1])]
        cc = p.calls("Context::cache")
        if pcalls:
            n_miss += 1
            L.expect_unsat("memoize: the production runs only on a miss", cond + [hit], on_sat)
            okm = len(pcalls) == 1 and pcalls[0][2][1] == ("sym", "s") and len(cc) == 1 and cc[0][2][1:3] == (("sym", "t"), ("sym", "s")) and \
                any(t == pcalls[0][3] for t in ms.subterms(cc[0][2][3])) and p.ret == pcalls[0][3] and \
                p.events.index(cc[0]) > p.events.index(pcalls[0])
            structural("memoize (miss): runs the production at the same cursor, stores its result - success or failure - under (tag, cursor), returns it", okm)
        else:
            n_hit += 1
            L.expect_unsat("memoize: without running the production only on a hit", cond + [z3.Not(hit)], on_sat)
            okh = not cc and p.ret == ms.proj(ms.proj(lk[0][3], ("v", "Some"), E), ("f", 0), E)
            structural("memoize (hit): returns the stored result, stores nothing", okh)
    if n_hit < 1 or n_miss < 1:
        o.inconc("memoize: expected a hit path and a miss path (%d/%d)" % (n_hit, n_miss))

    # lookup / cache use the same key and honour no_cache
    SELF = ("deref", ("sym", "self"))
    nocache = ms.proj(SELF, ("f", i_nc), E)
    table = ("addr", ms.proj(SELF, ("f", i_cache), E))
    keys = {}
    allkeys = {"lookup": set(), "cache": set()}
    ex = mirlib.executor([MM])
    for p in ex.run(f_look, arg_names=["self", "p", "s"]):
        if p.kind != "return":
            continue
        cond = S.pc(p.pc)
        g = [e for e in p.calls() if e[1] == "HashMap::get"]
        if g:
            L.expect_unsat("lookup: the table is consulted only when caching is on", cond + [S.b(nocache)], on_sat)
            keys["lookup"] = g[0][2][1]
            allkeys["lookup"] |= {x[2][1] for x in g}
            if p.ret[0] == "variant" and p.ret[2] == "None":
                # written with `?`: a miss answers None - and only a miss
                L.expect_unsat("lookup: None from a consulted table only on a miss", cond + [S.disc(S.v(g[0][3])) != 0], on_sat)
                okl = g[0][2][0] == table
            else:
                okl = g[0][2][0] == table and any(t == g[0][3] for t in ms.subterms(p.ret))
            structural("lookup: answers with the entry of its own table", okl)
        else:
            L.expect_unsat("lookup: answers None without consulting the table only when caching is off", cond + [z3.Not(S.b(nocache))], on_sat)
            structural("lookup (caching off): returns None", p.ret[0] == "variant" and p.ret[2] == "None")
    ex = mirlib.executor([MM])
    for p in ex.run(f_cache, arg_names=["self", "p", "s", "r"]):
        if p.kind != "return":
            continue
        cond = S.pc(p.pc)
        ins = [e for e in p.calls() if e[1] == "HashMap::insert"]
        if ins:
            L.expect_unsat("cache: stores only when caching is on", cond + [S.b(nocache)], on_sat)
            keys["cache"] = ("addr", ins[0][2][1])
            allkeys["cache"] |= {("addr", x[2][1]) for x in ins}
            structural("cache: stores the given result in its own table", ins[0][2][0] == table and ins[0][2][2] == ("sym", "r"))
        else:
            L.expect_unsat("cache: skips storing only when caching is off", cond + [z3.Not(S.b(nocache))], on_sat)
    structural("lookup and cache use the same key (cursor, tag)", keys.get("lookup") is not None and keys.get("lookup") == keys.get("cache"),
               "lookup key %s vs cache key %s" % (ms.show(keys.get("lookup"))[:60] if keys.get("lookup") else None, ms.show(keys.get("cache"))[:60] if keys.get("cache") else None))
    # ... one key, on every path of both, and it is made of the cursor and the production's tag (a result filed under less
    # than (cursor, tag) is answered to a production that never computed it)
    onekey = allkeys["lookup"] == allkeys["cache"] and len(allkeys["lookup"]) == 1 and \
        all(any(t == ("sym", a) for t in ms.subterms(k)) for k in allkeys["lookup"] for a in ("s", "p"))
    structural("lookup and cache: one key on every path of both, built from the cursor and the tag", onekey,
               "the memo table is read under %s and written under %s" % (sorted(ms.show(k)[:50] for k in allkeys["lookup"]), sorted(ms.show(k)[:50] for k in allkeys["cache"])))
    ex = mirlib.executor([MM])
    for p in ex.run(f_wo, arg_names=["self"]):
        if p.kind == "return":
            okw = ms.proj(p.ret, ("f", i_nc), E) == ms.TRUE and all(ms.proj(p.ret, ("f", i), E) == ms.proj(("sym", "self"), ("f", i), E) for i in range(len(names)) if i != i_nc)
            structural("without_cache: switches caching off and changes nothing else", okw)
    ex = mirlib.executor([MM])
    for p in ex.run(f_new):
        if p.kind == "return":
            structural("Context::new: caching is on by default", ms.proj(p.ret, ("f", i_nc), E) == ms.FALSE)
    # call sites: each memoised production uses its own tag
    tags = []
    for f in MS.funcs:
        exs = None
        for b in f.blocks.values():
            if b.term and re.search(r"\bmemoize::<", b.term):
                exs = mirlib.executor([MS])
                break
        if exs is None:
            continue
        for p in exs.run(f):
            for e in p.calls():
                if e[1].endswith("memoize"):
                    tags.append((f.short, ms.show(e[2][0]), ms.show(e[2][3])[:60]))
    tags = sorted(set(tags))
    o.extra["memoised_productions"] = tags
    structural("parser: every memoize call site uses a tag of its own", len({t[1] for t in tags}) == len({t[0] for t in tags}) and len(tags) >= 2)
    # the entry point parses with the table on: the context handed to parse_program is Context::new(tokens) itself, and
    # nothing in oal-syntax ever calls the switch that turns caching off
    try:
        f_parse = MS.one(r"^parse$")
        o.functions.append(mirlib.func_ref(f_parse, "oal-syntax"))
        exq = mirlib.executor([MS])
        seen_pp, okp = 0, True
        for p in exq.run(f_parse, arg_names=["loc", "input"]):
            calls = list(p.calls())
            if any(e[1].endswith("without_cache") for e in calls):
                okp = False
            for e in calls:
                if e[1] == "parse_program":
                    seen_pp += 1
                    news = [x for x in calls if x[1] == "Context::new"]
                    ctx = e[2][0]
                    while ctx[0] == "addr":
                        ctx = ctx[1]
                    while ctx[0] == "out":          # head() and the like borrow the context before the parser gets it
                        ctx = ctx[3][ctx[2]]
                        while ctx[0] == "addr":
                            ctx = ctx[1]
                    if len(news) != 1 or ctx != news[0][3]:
                        okp = False
        mirlib.check_translator(o, exq, "oal_syntax::parse")
        # ... and the switch itself is written by without_cache (and the constructor) only
        writers = []
        for fm in MM.funcs:
            if not fm.args or "grammar::Context<" not in fm.args[0][1]:
                continue
            for bb in fm.blocks.values():
                if bb.cleanup:
                    continue
                for st in mp.stmts_of(bb)[0]:
                    if st[0] == "assign" and st[1][0] == "place" and st[1][1] == 1 and len(st[1][2]) == 2 and st[1][2][0] == ("deref",) and st[1][2][1][:2] == ("f", i_nc):
                        writers.append(fm.short)
        # ... and the table only grows: no Context method clears, removes or drains it
        shrinkers = []
        for fm in MM.funcs:
            if not fm.args or "grammar::Context<" not in fm.args[0][1]:
                continue
            for bb in fm.blocks.values():
                if bb.cleanup or not bb.term:
                    continue
                pt = mp.stmts_of(bb)[1]
                if pt[0] == "call" and re.search(r"HashMap::<.*>::(clear|remove|remove_entry|retain|drain|extract_if|shrink_to|shrink_to_fit)(::<.*>)?$", str(pt[2])):
                    shrinkers.append(fm.short)
        structural("Context: nothing ever takes an entry out of the memo table (no clear / remove / retain / drain in any Context method)", not shrinkers,
                   "Context: %s takes entries out of the memo table" % ", ".join(sorted(set(shrinkers))))
        # ... and a production can change nothing of the context but the tree (through compose) and the memo table (through
        # cache): no Context method assigns a field of its own - state that a production touches on a miss and a hit skips
        # (a depth counter, a budget) makes the memoised parser differ from the plain one
        fieldw = {}
        for fm in MM.funcs:
            if not fm.args or "grammar::Context<" not in fm.args[0][1] or fm.short.endswith("::new"):
                continue
            for bb in fm.blocks.values():
                if bb.cleanup:
                    continue
                for st in mp.stmts_of(bb)[0]:
                    if st[0] == "assign" and st[1][0] == "place" and st[1][1] == 1 and len(st[1][2]) >= 2 and st[1][2][0] == ("deref",) and st[1][2][1][0] == "f":
                        k = st[1][2][1][1]
                        if k != i_nc:
                            fieldw.setdefault(names[k] if k < len(names) else str(k), set()).add(fm.short)
        structural("Context: no method assigns a field of the context (the tree and the memo table change through compose / cache only)", not fieldw,
                   "Context: state outside the memo protocol is written by %s" % "; ".join("%s <- %s" % (k, ", ".join(sorted(v))) for k, v in sorted(fieldw.items())))
        # ... and a memoised production is its memoize call and nothing else: the function hands the context to memoize only
        lone = True
        who = []
        for f in MS.funcs:
            if not any(b.term and re.search(r"\bmemoize::<", b.term) for b in f.blocks.values()):
                continue
            exs2 = mirlib.executor([MS])
            an = ["a%d" % k for k in range(len(f.args))]
            ci = [k for k, a in enumerate(f.args) if "Context<" in a[1]]
            if len(ci) != 1:
                continue
            an[ci[0]] = "c"
            for p2 in exs2.run(f, arg_names=an):
                if p2.kind not in ("return",):
                    continue
                others = [e for e in p2.calls() if not e[1].endswith("memoize") and any(t == ("sym", "c") for a in e[2] for t in ms.subterms(a))]
                mz = [e for e in p2.calls() if e[1].endswith("memoize")]
                if others or len(mz) != 1 or p2.ret != mz[0][3]:
                    lone = False
                    who.append(f.short)
        structural("parser: a memoised production is its memoize call and nothing else (nothing touches the context before or after it)", lone,
                   "parser: %s does more with the context than calling memoize" % ", ".join(sorted(set(who))))
        o.extra["no_cache_writers"] = sorted(set(writers))
        structural("Context: the caching switch is written by without_cache only (nothing turns it off for a part of the input)", set(writers) <= {"grammar::without_cache"},
                   "Context: %s writes the caching switch" % ", ".join(sorted(set(writers) - {"grammar::without_cache"})))
        txt = open(MS.path).read()
        users = sorted(set(m.group(1) for m in re.finditer(r"^fn ([^\n(]+)\(.*?^\}", txt, re.M | re.S) if re.search(r"without_cache(::<[^>]*>)?\(", m.group(0))))
        structural("oal_syntax::parse: the parser runs on Context::new(tokens) with the memo table on (nothing in oal-syntax switches it off)", okp and seen_pp >= 1 and not users,
                   "oal_syntax::parse: the memo table can be switched off before parsing (%s)" % (", ".join(users)[:80] or "in parse"))
    except KeyError as exn:
        o.inconc(str(exn)[:160])



def check():
    o = Outcome("C12")
    E = mirlib.enums()
    try:
        MM = mirlib.module("oal-model")
        MS = mirlib.module("oal-syntax")
        f_memo = MM.one(r"^(grammar::)?memoize$")
        f_look = MM.one(r"grammar::<impl[^>]*>::lookup$")
        f_cache = MM.one(r"grammar::<impl[^>]*>::cache$")
        f_wo = MM.one(r"grammar::<impl[^>]*>::without_cache$")
        f_new = MM.sel("grammar", "new", ret=r"grammar::Context<")
    except Exception as ex:
        o.inconc("MIR: %s" % str(ex)[-300:])
        return o.finish()
    o.functions += [mirlib.func_ref(f, "oal-model") for f in (f_memo, f_look, f_cache, f_wo, f_new)]
    o.assumptions = ["HashMap::get/insert are uninterpreted; a production function is a deterministic function of (context, cursor)",
                     "the replay compares Debug dumps of the finalized trees and error counts"]
    o.bounds = {"control": "all paths of memoize/lookup/cache/without_cache, values unbounded"}
    o.outside = ["that production functions are pure up to the arena (node indices of a discarded attempt are reused)", "the linear-work clause (only sampled by the replay oracle)",
                 "which productions are memoised"]
    L = mirlib.Lemma(o)
    S = L.smt
    bad = []

    def on_sat(name, model):
        bad.append(name)

    def structural(name, ok, why=None):
        o.query(name, "mirsym/structural", "unsat" if ok else "violated", 0)
        if not ok and (why or name) not in bad:
            bad.append(why or name)
        return ok

    memo_lemmas(o, L, S, E, MM, MS, (f_memo, f_look, f_cache, f_wo, f_new), structural, on_sat, bad)

    o.samples = [{"query": q["name"], "verdict": q["verdict"]} for q in o.queries[:14]]
    mism, rdir, detail = run_corpus()
    o.extra["memo_vs_nomemo"] = detail
    if bad:
        if mism:
            o.violation("parser memoisation is visible; lemma(s): %s; real parser: %s" % ("; ".join(bad[:3]), "; ".join(mism[:3])), rdir)
        else:
            o.inconc("UNCONFIRMED: lemma(s) fail (%s) but the real parser builds the same trees with and without the memo table on %d texts" % ("; ".join(bad[:3]), len(detail)))
    elif mism:
        o.oracle_only("real parser differs with/without memo (%s) although every lemma holds" % mism[:3], rdir)
    return o.finish()


def replay(path):
    mism, rdir, detail = run_corpus()
    for k, v in detail.items():
        print(k, v)
    print("mismatches:", mism)
    return 1 if mism else 0
