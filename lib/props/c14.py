"""C14 - a base description is preserved; only paths and schema components are replaced.

Engine M: symbolic execution of the MIR of `Builder::new`, `Builder::with_base`,
`Builder::into_openapi` (oal-openapi) and of `run` (oal-cli) with every callee
uninterpreted; frame queries per field are decided by z3 (cvc5 re-check in thorough).
"""
import os
import re

import mirlib
import mirparse as mp
import mirsym as ms
import z3
from vcommon import Outcome, Findings, build_cli, run_cli, new_replay_dir, tier, log

PROGRAM = 'let @thing = { \'id! int, \'name str };\nres /things/{ \'id int } on get -> <@thing>;\n'

BASE_YAML = """openapi: 3.0.1
info:
  title: Base title
  description: base description
  version: 9.9.9
  contact:
    name: someone
servers:
- url: https://example.org/v1
  description: production
- url: https://example.org/v2/
  description: with a trailing slash
- url: /
- url: '{scheme}://example.org:{port}/base/'
  variables:
    scheme:
      enum:
      - https
      - http
      default: https
      description: the scheme
    port:
      default: '443'
      description: the port
paths:
  x-paths-ext: inside the paths object
  /from-base:
    get:
      responses:
        '200':
          description: from base
  /:
    delete:
      operationId: stale-delete-root
      responses:
        '204':
          description: from base, under a path the programs define themselves
  /things/{id}:
    delete:
      operationId: stale-delete-thing
      responses:
        '204':
          description: from base
  /items:
    delete:
      operationId: stale-delete-items
      responses:
        '204':
          description: from base
  /items/{id}:
    summary: from base
components:
  schemas:
    fromBase:
      type: string
  responses:
    NotFound:
      description: not found
  parameters:
    limit:
      name: limit
      in: query
      schema:
        type: integer
      style: form
  examples:
    ex1:
      value: 1
  requestBodies:
    body1: {}
  headers:
    X-Rate:
      style: simple
      schema:
        type: integer
  securitySchemes:
    apiKey:
      type: apiKey
      name: X-API-Key
      in: header
  links:
    link1:
      operationId: op
  callbacks:
    cb1: {}
  x-comp-ext: 42
security:
- apiKey: []
tags:
- name: base-tag
  description: a tag
externalDocs:
  url: https://example.org/docs
x-top-ext: hello
"""


def places_in(x, acc):
    if isinstance(x, (tuple, list)):
        if x and x[0] == "place" and len(x) == 3 and isinstance(x[1], int):
            acc.append(x)
            return
        for y in x:
            places_in(y, acc)


def norm_ty(t):
    t = t.strip()
    while True:
        t2 = re.sub(r"^&(?:'\w+ )?(?:mut )?", "", t).strip()
        if t2 == t:
            break
        t = t2
    return t


def builder_reads(M, ex, roots):
    """Transitive set of `Builder` field indices read by `roots` (and what they reach)."""
    seen = {}
    work = list(roots)
    reads = {}
    escapes = []
    closure_fns = {}
    for f in M.funcs:
        if "{closure#" in f.name and f.args:
            m = re.search(r"\{closure@([^}]+)\}", f.args[0][1])
            if m:
                closure_fns[m.group(1)] = f
    while work:
        f = work.pop()
        if f.name in seen:
            continue
        seen[f.name] = f
        idxs = set()
        for b in f.blocks.values():
            if b.cleanup:
                continue
            ps, pt = mp.stmts_of(b)
            acc = []
            places_in(ps, acc)
            places_in(pt, acc)
            for pl in acc:
                ty = f.locals.get(pl[1], "")
                for p in pl[2]:
                    if p[0] == "deref":
                        ty = norm_ty(ty) if ty.startswith("&") else re.sub(r"^(?:std::boxed::)?Box<(.*)>$", r"\1", ty)
                    elif p[0] == "f":
                        if norm_ty(ty) == "Builder" or ty.strip() == "Builder":
                            idxs.add(p[1])
                        ty = p[2] if len(p) > 2 else ""
            # successors in the call graph
            if pt[0] == "call":
                tgt = ex.resolve(pt[2], len(pt[3]))
                if tgt is not None:
                    work.append(tgt)
                else:
                    # a Builder passed to a function outside the dump would escape the analysis
                    for a in pt[3]:
                        if a[0] in ("copy", "move") and not a[1][2] and norm_ty(f.locals.get(a[1][1], "")) == "Builder":
                            escapes.append((f.short, pt[2]))
            for st in ps:
                if st[0] == "assign" and st[2][0] == "aggr" and st[2][2] and st[2][2].startswith("{closure@"):
                    key = st[2][2][len("{closure@"):].rstrip("}")
                    cf = closure_fns.get(key)
                    if cf:
                        work.append(cf)
        reads[f.name] = idxs
    allidx = set()
    for v in reads.values():
        allidx |= v
    return allidx, sorted(seen), escapes


def field_names(M, struct):
    """Field order of `struct` from the first struct aggregate in the dump."""
    for f in M.funcs:
        for b in f.blocks.values():
            ps, pt = mp.stmts_of(b)
            for st in ps:
                if st[0] == "assign" and st[2][0] == "aggr" and st[2][1] == "struct" and st[2][4]:
                    if mp.strip_generics(st[2][2]).split("::")[-1] == struct:
                        return list(st[2][4])
    return None


def check():
    o = Outcome("C14")
    E = mirlib.enums()
    try:
        M = mirlib.module("oal-openapi")
        MC = mirlib.module("oal-cli")
    except Exception as ex:
        o.inconc("MIR dump failed: %s" % str(ex)[-400:])
        return o.finish()
    ex = mirlib.executor([M])
    try:
        f_new = M.one(r"<impl at oal-openapi/src/lib\.rs[^>]*>::new$")
        f_with = M.one(r"::with_base$")
        f_into = M.one(r"::into_openapi$")
        f_paths = M.one(r"::all_paths$")
        f_comps = M.one(r"::all_components$")
        f_default = M.one(r"::default_base$")
    except KeyError as e:
        o.inconc("cannot locate Builder functions in the MIR dump: %s" % e)
        return o.finish()
    o.functions = [mirlib.func_ref(f, "oal-openapi") for f in (f_new, f_with, f_into, f_paths, f_comps, f_default)]
    top = field_names(M, "OpenAPI")
    comp = field_names(M, "Components")
    bfields = field_names(M, "Builder")
    if not top or not comp or not bfields or "paths" not in top or "components" not in top or "schemas" not in comp \
            or "base" not in bfields or "spec" not in bfields:
        o.inconc("cannot read field orders of OpenAPI/Components/Builder from MIR aggregates: %s %s %s" % (top, comp, bfields))
        return o.finish()
    i_paths, i_comp, i_schemas = top.index("paths"), top.index("components"), comp.index("schemas")
    i_base, i_spec = bfields.index("base"), bfields.index("spec")

    # ---- read set of all_paths / all_components ------------------------------------
    rd, reached, escapes = builder_reads(M, ex, [f_paths, f_comps])
    o.extra["builder_read_set"] = {"fields_read": sorted(bfields[i] for i in rd if i < len(bfields)),
                                   "functions_scanned": len(reached), "escapes": escapes}
    base_dependent = (i_base in rd) or bool(escapes)

    def abstract_self(t):
        """Builder::all_paths(&self) -> Builder::all_paths(self.<fields read>)"""
        if not isinstance(t, tuple) or not t:
            return t
        if t[0] == "app" and t[1] in ("Builder::all_paths", "Builder::all_components") and len(t[2]) == 1:
            slf = t[2][0]
            slf = slf[1] if slf[0] == "addr" else ("deref", slf)
            if base_dependent:
                return ("app", t[1], (abstract_self(slf),))
            return ("app", t[1], tuple(abstract_self(ms.proj(slf, ("f", i), E)) for i in sorted(rd)))
        if t[0] in ("c", "sym"):
            return t
        return tuple(abstract_self(x) if isinstance(x, tuple) else x for x in t)

    # ---- compose new -> with_base -> into_openapi ------------------------------------
    def compose(spec, base):
        outs = ex.run(f_new, [spec])
        rets = [x for x in outs if x.kind == "return"]
        if len(rets) != 1:
            return None
        b0 = ex.export(rets[0].state, rets[0].ret)
        results = []
        if base is not None:
            outs = ex.run(f_with, [b0, base])
            rets = [x for x in outs if x.kind == "return"]
            if len(rets) != 1:
                return None
            b0 = ex.export(rets[0].state, rets[0].ret)
        for x in ex.run(f_into, [b0]):
            if x.kind == "return":
                results.append((x.pc, abstract_self(ex.export(x.state, x.ret))))
            elif x.kind == "unreachable":
                continue
            elif x.kind == "backedge":
                # a loop inside into_openapi: what an iteration writes is havocked at the loop head, so the paths that
                # return afterwards carry an arbitrary value in every field a loop can touch - the frame queries then
                # fail for exactly those fields
                o.extra.setdefault("loops_in_into_openapi", 0)
                o.extra["loops_in_into_openapi"] += 1
                continue
            else:
                results.append((x.pc, None))
        return results

    spec = ("sym", "spec")
    base = ("sym", "base")
    base2 = ("sym", "base2")
    with_b = compose(spec, base)
    with_b2 = compose(spec, base2)
    no_b = compose(spec, None)
    if not mirlib.check_translator(o, ex, "Builder::{new,with_base,into_openapi}") or not with_b or not no_b or not with_b2:
        if not o.inconclusive:
            o.inconc("unexpected shape of Builder::new/with_base (not a single return path)")
        return o.finish()
    L = mirlib.Lemma(o)
    S = L.smt
    o.assumptions = ["the base's `components` field is an Option (discriminant in {0,1})", "the base YAML used for the real-CLI round trip is in serde's canonical form (defaults such as `style: form` spelled out), because YAML (de)serialisation is outside the claim", "calls are uninterpreted functions of their arguments (same symbol for the same callee)",
                     "library summaries: " + ", ".join(sorted(ex.summaries_used)),
                     "Builder::all_paths/all_components are abstracted to functions of the Builder fields their call graph reads (%s)" %
                     o.extra["builder_read_set"]["fields_read"],
                     "field orders of OpenAPI / Components / Builder are read from MIR aggregate expressions"]
    o.bounds = {"values": "unbounded (arbitrary spec and base values)", "control": "each function body executed once; all non-cleanup paths"}
    o.outside = ["what all_paths/all_components compute (C02/C03)", "YAML (de)serialisation of the base in the CLI", "panics inside callees"]
    bad_fields = []

    def on_sat(name, model):
        bad_fields.append(name)

    def paths_ok(results, label):
        good = True
        for pc, r in results:
            if r is None:
                o.inconc("%s: into_openapi has a non-returning path (%s)" % (label, mirlib.fmt_pc(pc)))
                good = False
        return good

    if not (paths_ok(with_b, "with base") and paths_ok(no_b, "no base")):
        return o.finish()

    want_paths = abstract_self(("app", "Builder::all_paths", (("addr", ("aggr", "Builder", (spec, ("sym", "anybase")), None)),)))
    want_comps = abstract_self(("app", "Builder::all_components", (("addr", ("aggr", "Builder", (spec, ("sym", "anybase")), None)),)))
    if base_dependent:
        # the program-derived parts depend on the base: the independence query below will show it
        pass
    Vdefault = ("app", "Default::default<openapiv3::Components>", ())

    # with base: every path of into_openapi
    for pc, r in with_b:
        cond = S.pc(pc)
        tag = "base=Some" if pc else "base"
        for i, nm in enumerate(top):
            got = ms.proj(r, ("f", i), E)
            if i == i_paths:
                if not base_dependent:
                    L.expect_unsat("with-base: out.paths == all_paths(spec)", cond + [S.v(got) != S.v(want_paths)], on_sat)
            elif i == i_comp:
                bc = ms.proj(base, ("f", i_comp), E)
                # typing assumption: base.components is an Option (discriminant 0 or 1)
                cond = cond + [z3.Or(S.i(ms.disc_of(bc, E)) == 0, S.i(ms.disc_of(bc, E)) == 1)]
                L.expect_unsat("with-base: out.components is Some", cond + [S.i(ms.disc_of(got, E)) != 1], on_sat)
                body = ms.proj(ms.proj(got, ("v", "Some"), E), ("f", 0), E)
                bbody = ms.proj(ms.proj(bc, ("v", "Some"), E), ("f", 0), E)
                for j, cn in enumerate(comp):
                    g = ms.proj(body, ("f", j), E)
                    if j == i_schemas:
                        if not base_dependent:
                            L.expect_unsat("with-base: out.components.schemas == all_components(spec).schemas",
                                           cond + [S.v(g) != S.v(ms.proj(want_comps, ("f", i_schemas), E))], on_sat)
                    else:
                        L.expect_unsat("with-base(components=Some): out.components.%s == base.components.%s" % (cn, cn),
                                       cond + [S.i(ms.disc_of(bc, E)) == 1, S.v(g) != S.v(ms.proj(bbody, ("f", j), E))], on_sat)
                        L.expect_unsat("with-base(components=None): out.components.%s == Components::default().%s" % (cn, cn),
                                       cond + [S.i(ms.disc_of(bc, E)) == 0, S.v(g) != S.v(ms.proj(Vdefault, ("f", j), E))], on_sat)
            else:
                L.expect_unsat("with-base: out.%s == base.%s" % (nm, nm),
                               cond + [S.v(got) != S.v(ms.proj(base, ("f", i), E))], on_sat)
        L.expect_sat("with-base path feasible", cond)

    # two-run independence: same program, two arbitrary bases
    for (pc1, r1) in with_b:
        for (pc2, r2) in with_b2:
            cond = S.pc(pc1) + S.pc(pc2)
            p1, p2 = ms.proj(r1, ("f", i_paths), E), ms.proj(r2, ("f", i_paths), E)
            L.expect_unsat("two bases, same program: paths equal", cond + [S.v(p1) != S.v(p2)], on_sat)
            s1 = ms.proj(ms.proj(ms.proj(ms.proj(r1, ("f", i_comp), E), ("v", "Some"), E), ("f", 0), E), ("f", i_schemas), E)
            s2 = ms.proj(ms.proj(ms.proj(ms.proj(r2, ("f", i_comp), E), ("v", "Some"), E), ("f", 0), E), ("f", i_schemas), E)
            L.expect_unsat("two bases, same program: schema components equal", cond + [S.v(s1) != S.v(s2)], on_sat)

    # no base: default_base with the same two replacements
    for pc, r in no_b:
        cond = S.pc(pc)
        dflt = None
        for a in ms.apps(r, "Builder::default_base"):
            dflt = a
        if dflt is None:
            o.inconc("no-base path does not start from Builder::default_base")
            continue
        for i, nm in enumerate(top):
            got = ms.proj(r, ("f", i), E)
            if i == i_paths:
                if not base_dependent:
                    L.expect_unsat("no-base: out.paths == all_paths(spec)", cond + [S.v(got) != S.v(want_paths)], on_sat)
            elif i == i_comp:
                body = ms.proj(ms.proj(got, ("v", "Some"), E), ("f", 0), E)
                g = ms.proj(body, ("f", i_schemas), E)
                if not base_dependent:
                    L.expect_unsat("no-base: out.components.schemas == all_components(spec).schemas",
                                   cond + [S.v(g) != S.v(ms.proj(want_comps, ("f", i_schemas), E))], on_sat)
            else:
                L.expect_unsat("no-base: out.%s == default_base().%s" % (nm, nm),
                               cond + [S.v(got) != S.v(ms.proj(dflt, ("f", i), E))], on_sat)

    # ---- the CLI hands the base to the builder -----------------------------------------
    cli_lemma(o, L, MC)

    o.samples = [{"query": q["name"], "verdict": q["verdict"]} for q in o.queries[:12]]
    o.extra["field_orders"] = {"OpenAPI": top, "Components": comp, "Builder": bfields}
    o.extra["paths_executed"] = ex.paths

    # ---- replay / translator validation on the real CLI --------------------------------
    need_replay = True   # the real-CLI round trip is cheap: always run it as translator validation
    if need_replay:
        diffs, rdir, detail = real_cli_roundtrip(o)
        o.extra["real_cli_roundtrip"] = {"diffs": diffs, "detail": detail}
        if bad_fields:
            if diffs:
                o.violation("base not preserved; solver: %s; real oal-cli --base differs at: %s" % (bad_fields[:4], diffs[:6]), rdir)
            else:
                o.inconc("UNCONFIRMED: solver found a frame violation (%s) that the real oal-cli round trip does not show" % bad_fields[:4])
        elif diffs:
            # solver says the frame property holds but the real binary disagrees: the encoding misses something
            o.oracle_only("real oal-cli --base output differs from base at %s although all queries are unsat" % diffs[:6], rdir)
    return o.finish()


def cli_lemma(o, L, MC):
    """`run`: with a base configured, into_openapi receives with_base(new(spec), <parsed base>)."""
    E = mirlib.enums()
    S = L.smt
    exc = mirlib.executor([MC])
    try:
        f_run = MC.one(r"^run$")
    except KeyError as e:
        o.inconc("cannot locate run in oal-cli MIR: %s" % e)
        return
    o.functions.append(mirlib.func_ref(f_run, "oal-cli"))
    outs = exc.run(f_run)
    mirlib.check_translator(o, exc, "oal-cli run")
    n_ok = 0
    for x in outs:
        if x.kind != "return":
            continue
        d = ms.disc_of(x.ret, E)
        if d != ms.C("int", 0):
            continue
        n_ok += 1
        into = x.calls("Builder::into_openapi")
        if len(into) != 1:
            o.inconc("run: Ok path with %d into_openapi calls" % len(into))
            continue
        barg = into[0][2][0]
        cond = S.pc(x.pc)
        # which branch: did the path see a configured base?
        wb = x.calls("Builder::with_base")
        newc = x.calls("Builder::new")
        basecfg = [e for e in x.calls() if e[1] == "Config::base"]
        if not basecfg or len(newc) != 1:
            o.inconc("run: Ok path without Config::base / Builder::new")
            continue
        cfg = ms.proj(ms.proj(basecfg[0][3], ("v", "Ok"), E), ("f", 0), E)
        is_some = S.i(ms.disc_of(cfg, E)) == 1
        if wb:
            want = wb[0][3]
            L.expect_unsat("run(Ok, base configured): into_openapi gets with_base(new(spec), parsed base)",
                           cond + [S.v(barg) != S.v(want)])
            fr = x.calls("from_reader")
            ok = bool(fr) and wb[0][2][0] == newc[0][3]
            if ok:
                parsed = ms.proj(ms.proj(fr[0][3], ("v", "Ok"), E), ("f", 0), E)
                L.expect_unsat("run(Ok, base configured): with_base gets the parsed base file",
                               cond + [S.v(wb[0][2][1]) != S.v(parsed)])
            else:
                o.inconc("run: with_base is not applied to Builder::new(spec) and a from_reader result")
            L.expect_unsat("run(Ok): with_base only when a base is configured", cond + [z3.Not(is_some)])
        else:
            L.expect_unsat("run(Ok, no with_base): no base was configured", cond + [is_some])
            L.expect_unsat("run(Ok, no base): into_openapi gets new(spec)", cond + [S.v(barg) != S.v(newc[0][3])])
    if n_ok == 0:
        o.inconc("run: no Ok-returning path found (vacuous)")
    o.extra["run_ok_paths"] = n_ok


PROGRAM_NOREFS = "res /plain on get -> <{ 'n num }>;\nres /other/{ 'id int } on delete -> <>;\n"


PROGRAM_URIS = ("let item = /items/{ 'id int };\nlet @page = { 'first item, 'tags [str] `title: \"t\"` };\n"
                "res item on get -> <{ 'self item, 'next /items/{ 'id int }?{ 'after str } }>;\nres /pages on get -> <@page>;\n")


PROGRAM_ANNOTATED = ("let item = { 'id! int, 'name str };\n# summary: \"list items\", tags: [inventory, internal], operationId: \"list-items\"\nlet list = get -> <[item]>;\n"
                     "# summary: \"read one item\", tags: [inventory, base-tag], description: \"d\"\nlet read = get -> <item>;\n"
                     "res /items on list;\nres /items/{ 'id int } on read;\n")


def base_variants():
    """(name, yaml text): the full base, one without `components`, one whose components has no `schemas`."""
    full = BASE_YAML
    i = full.index("components:")
    j = full.index("security:\n- apiKey")
    no_comp = full[:i] + full[j:]
    k = full.index("\n  schemas:") + 1
    l = full.index("\n  responses:\n    NotFound") + 1
    no_schemas = full[:k] + full[l:]
    # every optional top-level field left out: what the base does not say, the output must not say either
    m = full.index("servers:")
    n = full.index("paths:")
    minimal = full[:m] + full[n:i] if m < n < i else None
    out = [("full", full), ("no-components", no_comp), ("no-schemas", no_schemas)]
    if minimal:
        out.append(("minimal", minimal))
    # one component section at a time (the base's only components are its links / callbacks / examples / ...): a merge that
    # decides by hand which sections count must not lose the ones it forgot
    cstart = full.index("components:")
    cend = full.index("security:\n- apiKey")
    body = full[cstart + len("components:\n"):cend]
    import re as _re
    sections = _re.split(r"(?m)^(?=  [A-Za-z-]+:)", body)
    sections = [x for x in sections if x.strip()]
    for sec in sections:
        nm = sec.strip().split(":")[0]
        if nm in ("schemas", "securitySchemes"):
            continue            # schemas come from the program; security schemes are referred to by `security`
        out.append(("only-" + nm, full[:cstart] + "components:\n" + sec + full[cend:].replace("security:\n- apiKey: []\n", "")))
    return out


def real_cli_roundtrip(o):
    """Compile programs (with and without named schemas) against base variants with the real oal-cli;
    list fields where the output differs from the base / from the base-less output."""
    try:
        cli = build_cli()
    except Exception as ex:
        return None, None, "oal-cli build failed: %s" % str(ex)[-300:]
    rdir = new_replay_dir("C14", "base-roundtrip")
    with open(os.path.join(rdir, "cmd"), "w") as f:
        f.write("#!/bin/sh\ncd /verif && exec ./check C14 --replay %s\n" % rdir)
    diffs = []
    n = 0
    progs = [("refs", {"main.oal": PROGRAM}, None), ("norefs", {"main.oal": PROGRAM_NOREFS}, None), ("uris", {"main.oal": PROGRAM_URIS}, None),
             ("annotated", {"main.oal": PROGRAM_ANNOTATED}, None)]
    try:
        import pool
        # every accepted program the checks know, against the full base
        progs += [("pool-" + k.replace("/", "-"), files, ("full",)) for k, files in sorted(pool.programs().items())]
    except Exception:
        pass
    for pname, files0, only in progs:
        res2 = run_cli(cli, files0, workdir=os.path.join(rdir, pname + "-nobase"))
        if only and res2["rc"] != 0:
            continue                  # not accepted on this tree: nothing to compare
        if res2["rc"] != 0:
            diffs.append("%s: <oal-cli rejects the program without a base rc=%s>" % (pname, res2["rc"]))
            continue
        nob = mirlib.yaml_to_obj(res2["target"]) if res2["target"] else {}
        for bname, btext in base_variants():
            if only and bname not in only:
                continue
            tag = "%s/%s" % (pname, bname)
            # generated component names hash the module's locator: compile with and without the base in the same directory
            res2 = run_cli(cli, files0, workdir=os.path.join(rdir, pname + "-" + bname))
            nob = mirlib.yaml_to_obj(res2["target"]) if res2["target"] else {}
            res = run_cli(cli, dict(files0, **{"base.yaml": btext}), base="base.yaml", workdir=os.path.join(rdir, pname + "-" + bname))
            n += 1
            if res["rc"] != 0 or not res["target"]:
                diffs.append("%s: <oal-cli failed rc=%s>" % (tag, res["rc"]))
                continue
            out = mirlib.yaml_to_obj(res["target"])
            base = mirlib.yaml_to_obj(btext)
            for k in sorted(set(base) | set(out)):
                if k in ("paths", "components"):
                    continue
                if base.get(k) != out.get(k):
                    diffs.append("%s: %s" % (tag, k))
            bc, oc = base.get("components") or {}, out.get("components") or {}
            for k in sorted(set(bc) | set(oc)):
                if k == "schemas":
                    continue
                if bc.get(k) != oc.get(k):
                    diffs.append("%s: components.%s" % (tag, k))
            if out.get("paths") != nob.get("paths"):
                diffs.append("%s: paths (differ from the base-less output)" % tag)
            if (oc.get("schemas") or {}) != ((nob.get("components") or {}).get("schemas") or {}):
                diffs.append("%s: components.schemas (differ from the base-less output)" % tag)
    return diffs, rdir, "%d compilations compared field by field" % n


def replay(path):
    o = Outcome("C14")
    diffs, rdir, detail = real_cli_roundtrip(o)
    print("diffs:", diffs, detail)
    return 1 if diffs else 0
