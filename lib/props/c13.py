"""C13 - front ends agree, and the CLI writes the target only on success.

Engine M over the MIR of oal-cli's `run`/`main`, oal-client's `Processor::{load,eval}`
and `ProcLoader::{parse,compile}`, oal-wasm's `process`/`compile` and
`WebLoader::{parse,compile}`; calls into the compiler, file system and serde are
uninterpreted with symbolic Ok/Err outcomes. Decided over all paths by z3.
"""
import os
import re

import mirlib
import mirsym as ms
import z3
from vcommon import Outcome, build_cli, run_cli, new_replay_dir, tier, log, REPO

WRITE = "DefaultFileSystem.FileSystem::write_file"
PURE = re.compile(r"^(Level\.PartialOrd::le|log::max_level|max_level|Arguments::|Argument::|__private_api::|log::|rt::Argument|fmt::)")


def returns(outs):
    return [x for x in outs if x.kind == "return"]


def feasible(S, cons):
    v, m = S.check("feasibility", cons)
    return v == "sat"


def fallible_calls(path, E):
    """Calls whose Result/Option discriminant the path inspected (through `?` or match)."""
    atoms = set()
    for a, op, v in path.pc:
        for t in ms.subterms(a):
            if t[0] == "disc":
                atoms.add(t[1])
    out = []
    for i, e in enumerate(path.events):
        if e[0] == "call" and e[3] in atoms:
            out.append((i, e))
    return out


def check():
    o = Outcome("C13")
    E = mirlib.enums()
    try:
        MC = mirlib.module("oal-cli")
        ML = mirlib.module("oal-client")
        MW = mirlib.module("oal-wasm")
    except Exception as ex:
        o.inconc("MIR dump failed: %s" % str(ex)[-400:])
        return o.finish()
    L = mirlib.Lemma(o)
    S = L.smt
    bad = []

    def on_sat(name, model):
        bad.append(name)

    o.assumptions = ["calls are uninterpreted functions of their arguments; a callee's own effects are outside the claim",
                     "Vec::pop returns None exactly when the vector is empty (library contract)",
                     "Result/Option discriminants are 0/1 as rustc lays them out (Ok=0, Err=1, None=0, Some=1)"]
    o.bounds = {"values": "unbounded", "control": "every non-cleanup path of each function body, executed once (no loops in these functions)"}
    o.outside = ["text of diagnostics", "LSP publishes >= 1 diagnostic iff the others fail", "clap/toml option parsing",
                 "environment differences of the loaders (is_valid/load)", "what the compiler phases do internally"]

    # ------------------------------------------------------------------ 1. main
    ex = mirlib.executor([MC])
    try:
        f_main = MC.one(r"^main$")
        f_run = MC.one(r"^run$")
    except KeyError as e:
        o.inconc(str(e))
        return o.finish()
    o.functions += [mirlib.func_ref(f_main, "oal-cli"), mirlib.func_ref(f_run, "oal-cli")]
    outs = ex.run(f_main)
    n_succ = 0
    for p in returns(outs):
        cond = S.pc(p.pc)
        rc = p.calls("run")
        txt = ms.show(p.ret)
        if txt.endswith("ExitCode::SUCCESS"):
            n_succ += 1
            if len(rc) != 1:
                bad.append("main: SUCCESS without exactly one run()")
                o.query("main: SUCCESS path calls run once", "mirsym/structural", "violated", 0)
                continue
            L.expect_unsat("main: SUCCESS => run returned Ok", cond + [S.i(ms.disc_of(rc[0][3], E)) != 0], on_sat)
        elif txt.endswith("ExitCode::FAILURE"):
            if rc:
                L.expect_unsat("main: FAILURE after run => run returned Err", cond + [S.i(ms.disc_of(rc[0][3], E)) != 1], on_sat)
        else:
            o.inconc("main returns something other than ExitCode::SUCCESS/FAILURE: %s" % txt)
    if n_succ == 0:
        o.inconc("main: no SUCCESS path (vacuous)")
    mirlib.check_translator(o, ex, "main")

    # ------------------------------------------------------------------ 2/3. run
    ex = mirlib.executor([MC])
    outs = ex.run(f_run)
    mirlib.check_translator(o, ex, "run")
    n_ok = n_err = 0
    samples = []
    for p in returns(outs):
        cond = S.pc(p.pc)
        d = S.i(ms.disc_of(p.ret, E))
        wf = p.calls(WRITE)
        tgt = [e for e in p.calls("Config::target")]
        if feasible(S, cond + [d == 0]):
            n_ok += 1
            if len(wf) != 1:
                bad.append("run: Ok path with %d write_file calls" % len(wf))
                o.query("run: Ok path has exactly one write_file", "mirsym/structural", "violated", 0, path=mirlib.fmt_pc(p.pc)[:300])
                continue
            w = wf[0]
            L.expect_unsat("run: Ok => write_file returned Ok", cond + [d == 0, S.i(ms.disc_of(w[3], E)) != 0], on_sat)
            into = p.calls("Builder::into_openapi")
            tos = p.calls("serde_yaml::to_string")
            if len(into) == 1 and len(tos) == 1:
                yaml = ms.proj(ms.proj(tos[0][3], ("v", "Ok"), E), ("f", 0), E)
                L.expect_unsat("run: Ok => written buffer is to_string(into_openapi(..)) of this run",
                               cond + [d == 0, z3.Or(S.v(w[2][2]) != S.v(yaml), S.v(tos[0][2][0]) != S.v(("addr", into[0][3])))], on_sat)
            else:
                bad.append("run: Ok path without exactly one into_openapi/to_string")
                o.query("run: Ok path serialises one document", "mirsym/structural", "violated", 0)
            if tgt:
                loc = ms.proj(ms.proj(tgt[0][3], ("v", "Ok"), E), ("f", 0), E)
                L.expect_unsat("run: Ok => write_file goes to the configured target",
                               cond + [d == 0, S.v(w[2][1]) != S.v(("addr", loc))], on_sat)
            iw = p.events.index(w)
            for i, e in fallible_calls(p, E):
                if e is w:
                    continue
                L.expect_unsat("run: Ok => %s returned Ok/Some" % e[1], cond + [d == 0, S.i(ms.disc_of(e[3], E)) != 0], on_sat)
                if i > iw:
                    bad.append("run: fallible step %s after write_file" % e[1])
                    o.query("run: no fallible step after write_file", "mirsym/structural", "violated", 0, step=e[1])
            if len(samples) < 3:
                samples.append({"path": "run Ok", "calls": [e[1] for e in p.calls() if not PURE.match(e[1])]})
        if feasible(S, cond + [d == 1]):
            n_err += 1
            if wf:
                if len(wf) != 1:
                    bad.append("run: Err path with %d write_file calls" % len(wf))
                L.expect_unsat("run: Err after write_file => write_file itself failed",
                               cond + [d == 1, S.i(ms.disc_of(wf[0][3], E)) != 1], on_sat)
            if len(samples) < 8:
                samples.append({"path": "run Err", "calls": [e[1] for e in p.calls() if not PURE.match(e[1])][-4:]})
        # the target locator must not flow anywhere but write_file and formatting
        if tgt:
            loc = ms.proj(ms.proj(tgt[0][3], ("v", "Ok"), E), ("f", 0), E)
            for e in p.calls():
                if e[1] in (WRITE, "Config::target") or PURE.match(e[1]):
                    continue
                if any(loc == t for a in e[2] for t in ms.subterms(a)):
                    bad.append("run: target locator passed to %s" % e[1])
                    o.query("run: target only flows into write_file", "mirsym/structural", "violated", 0, callee=e[1])
    for p in outs:
        if p.kind == "diverge" and p.info.get("panic"):
            o.extra.setdefault("run_panic_paths", []).append(p.info.get("callee"))
    if n_ok == 0 or n_err == 0:
        o.inconc("run: no Ok or no Err path (vacuous): ok=%d err=%d" % (n_ok, n_err))
    o.extra["run_paths"] = {"ok": n_ok, "err": n_err, "total": len(outs)}

    # ------------------------------------------------------------------ 4. loaders
    def loader_lemmas(M, crate, pat_parse, pat_compile, label):
        exl = mirlib.executor([M])
        try:
            fp = M.one(pat_parse)
            fc = M.one(pat_compile)
        except KeyError as e:
            o.inconc("%s: %s" % (label, e))
            return
        o.functions.extend([mirlib.func_ref(fp, crate), mirlib.func_ref(fc, crate)])
        seen_ok = False
        for p in returns(exl.run(fp)):
            cond = S.pc(p.pc)
            d = S.i(ms.disc_of(p.ret, E))
            pe = p.calls("oal_syntax::parse")
            pops = [e for e in p.calls() if e[1].endswith("Vec::pop")]
            if len(pe) != 1:
                bad.append("%s::parse: %d calls of oal_syntax::parse" % (label, len(pe)))
                continue
            if not feasible(S, cond + [d == 0]):
                continue
            seen_ok = True
            errs = ms.proj(pe[0][3], ("f", 1), E)
            tree = ms.proj(pe[0][3], ("f", 0), E)
            if len(pops) != 1 or pops[0][2][0] != ("addr", errs):
                bad.append("%s::parse: Ok path does not inspect the error vector of oal_syntax::parse" % label)
                o.query("%s::parse: Ok path pops the error vector" % label, "mirsym/structural", "violated", 0)
                continue
            L.expect_unsat("%s::parse: Ok => error vector was empty (pop == None)" % label,
                           cond + [d == 0, S.i(ms.disc_of(pops[0][3], E)) != 0], on_sat)
            got = ms.proj(ms.proj(p.ret, ("v", "Ok"), E), ("f", 0), E)
            want = ms.proj(ms.proj(tree, ("v", "Some"), E), ("f", 0), E)
            L.expect_unsat("%s::parse: Ok => returns the tree of oal_syntax::parse" % label,
                           cond + [d == 0, z3.Or(S.i(ms.disc_of(tree, E)) != 1, S.v(got) != S.v(want))], on_sat)
        if not seen_ok:
            o.inconc("%s::parse has no Ok path (vacuous)" % label)
        seen_ok = False
        for p in returns(exl.run(fc)):
            cond = S.pc(p.pc)
            d = S.i(ms.disc_of(p.ret, E))
            cc = p.calls("compile::compile")
            if len(cc) != 1:
                bad.append("%s::compile: %d calls of compile::compile" % (label, len(cc)))
                continue
            r = S.i(ms.disc_of(cc[0][3], E))
            L.expect_unsat("%s::compile: Ok <=> compile::compile Ok" % label,
                           cond + [z3.Or(z3.And(d == 0, r != 0), z3.And(d == 1, r != 1))], on_sat)
            seen_ok = seen_ok or feasible(S, cond + [d == 0])
        if not seen_ok:
            o.inconc("%s::compile has no Ok path (vacuous)" % label)
        mirlib.check_translator(o, exl, label)

    loader_lemmas(ML, "oal-client", r"cli::<impl at oal-client/src/cli/mod\.rs[^>]*>::parse$", r"cli::<impl at oal-client/src/cli/mod\.rs[^>]*>::compile$", "ProcLoader")
    loader_lemmas(MW, "oal-wasm", r"^<impl at oal-wasm/src/lib\.rs[^>]*>::parse$", r"^<impl at oal-wasm/src/lib\.rs[^>]*>::compile$", "WebLoader")

    # Processor::eval: Ok <=> eval::eval Ok, and the spec is passed through
    exl = mirlib.executor([ML])
    try:
        fe = ML.one(r"cli::<impl at oal-client/src/cli/mod\.rs[^>]*>::eval$")
        fl = ML.sel("cli", "load", arg0=r"&Processor")
        o.functions.extend([mirlib.func_ref(fe, "oal-client"), mirlib.func_ref(fl, "oal-client")])
        for p in returns(exl.run(fe)):
            cond = S.pc(p.pc)
            d = S.i(ms.disc_of(p.ret, E))
            ev = p.calls("eval::eval")
            if len(ev) != 1:
                bad.append("Processor::eval: %d calls of eval::eval" % len(ev))
                continue
            r = S.i(ms.disc_of(ev[0][3], E))
            L.expect_unsat("Processor::eval: Ok <=> eval::eval Ok", cond + [z3.Or(z3.And(d == 0, r != 0), z3.And(d == 1, r != 1))], on_sat)
            L.expect_unsat("Processor::eval: Ok carries the evaluated spec",
                           cond + [d == 0, S.v(ms.proj(ms.proj(p.ret, ("v", "Ok"), E), ("f", 0), E)) !=
                                   S.v(ms.proj(ms.proj(ev[0][3], ("v", "Ok"), E), ("f", 0), E))], on_sat)
        for p in returns(exl.run(fl)):
            cond = S.pc(p.pc)
            d = S.i(ms.disc_of(p.ret, E))
            ld = p.calls("module::load")
            if len(ld) != 1:
                bad.append("Processor::load: %d calls of module::load" % len(ld))
                continue
            r = S.i(ms.disc_of(ld[0][3], E))
            L.expect_unsat("Processor::load: Ok <=> module::load Ok", cond + [z3.Or(z3.And(d == 0, r != 0), z3.And(d == 1, r != 1))], on_sat)
            L.expect_unsat("Processor::load: Ok carries the loaded module set",
                           cond + [d == 0, S.v(ms.proj(ms.proj(p.ret, ("v", "Ok"), E), ("f", 0), E)) !=
                                   S.v(ms.proj(ms.proj(ld[0][3], ("v", "Ok"), E), ("f", 0), E))], on_sat)
        mirlib.check_translator(o, exl, "Processor")
    except KeyError as e:
        o.inconc(str(e))

    # ------------------------------------------------------------------ 5. CLI vs playground
    relational(o, L, MC, ML, MW, bad, on_sat)

    # ------------------------------------------------------------------ 6. "written" means: the target holds exactly the document
    file_content_lemma(o, L, ML, bad, on_sat)

    # ------------------------------------------------------------------ 7. which file is the target: both configuration routes
    config_lemmas(o, L, ML, bad, on_sat)

    # ------------------------------------------------------------------ 8. "the same sources" of the language server: its open buffers over
    # the files on disk, and a closed buffer is the file again (store lemmas of C15)
    try:
        import importlib
        c15 = importlib.import_module("props.c15")

        def structural(name, ok, why=None):
            o.query(name, "mirsym/structural", "unsat" if ok else "violated", 0)
            if not ok and (why or name) not in bad:
                bad.append(why or name)
            return ok
        c15.store_lemmas(o, ML, E, structural)
        c15.diagnostics_loop_lemma(o, ML, E, structural)
    except KeyError as e:
        o.inconc(str(e)[:160])

    o.samples = samples + [{"query": q["name"], "verdict": q["verdict"]} for q in o.queries[:6]]
    # ------------------------------------------------------------------ replay on the real CLI
    if True:   # the real-binary oracle is cheap: always run it (replay of a failing lemma, or translator validation)
        mism, rdir, detail = real_cli_matrix()
        o.extra["real_cli_matrix"] = detail
        if bad:
            if mism:
                o.violation("CLI success/target discipline broken; solver: %s; real oal-cli: %s" % (bad[:3], mism[:4]), rdir)
            else:
                o.inconc("UNCONFIRMED: the solver found a violating path (%s) that the real oal-cli matrix (success, lexical, syntax, import, "
                         "type, evaluation, unwritable target) does not exhibit" % bad[:3])
        elif mism:
            o.oracle_only("real oal-cli misbehaves (%s) although every query is unsat" % mism[:4], rdir)
    return o.finish()


def relational(o, L, MC, ML, MW, bad, on_sat):
    """`run` (Processor::{load,eval} inlined, no base) vs `process`: same module set => same YAML term."""
    E = mirlib.enums()
    S = L.smt
    import re as _re
    exc = mirlib.executor([MC, ML], inline=["^" + _re.escape(ML.sel("cli", nm, arg0=r"&Processor").name) + "$" for nm in ("load", "eval")])
    exw = mirlib.executor([MW])
    try:
        f_run = MC.one(r"^run$")
        f_proc = MW.one(r"^process$")
        f_comp = MW.one(r"^compile$")
    except KeyError as e:
        o.inconc(str(e))
        return
    o.functions.extend([mirlib.func_ref(f_proc, "oal-wasm"), mirlib.func_ref(f_comp, "oal-wasm")])
    cli = [p for p in exc.run(f_run) if p.kind == "return"]
    web = [p for p in exw.run(f_proc) if p.kind == "return"]
    mirlib.check_translator(o, exc, "run+Processor")
    mirlib.check_translator(o, exw, "process")
    n = 0
    for a in cli:
        la = a.calls("module::load")
        if len(la) != 1 or a.calls("Builder::with_base"):
            continue
        ca = S.pc(a.pc)
        da = S.i(ms.disc_of(a.ret, E))
        wa = a.calls(WRITE)
        for b in web:
            lb = b.calls("module::load")
            if len(lb) != 1:
                continue
            cb = S.pc(b.pc)
            db = S.i(ms.disc_of(b.ret, E))
            same = [S.v(la[0][3]) == S.v(lb[0][3])]
            # CLI Ok and playground Err with the same module set: impossible
            L.expect_unsat("same module set: CLI Ok => playground Ok", ca + cb + same + [da == 0, db == 1], on_sat)
            # both Ok: same YAML
            if wa:
                yb = ms.proj(ms.proj(b.ret, ("v", "Ok"), E), ("f", 0), E)
                L.expect_unsat("same module set, both Ok: same YAML term", ca + cb + same + [da == 0, db == 0, S.v(wa[0][2][2]) != S.v(yb)], on_sat)
            # playground Ok, CLI fails: only at a CLI-only step (config, base, report I/O, write)
            shared = [e for i, e in fallible_calls(a, E) if e[1] in ("module::load", "eval::eval", "serde_yaml::to_string")]
            cons = ca + cb + same + [da == 1, db == 0]
            L.expect_unsat("same module set: playground Ok => CLI does not fail at load/eval/serialise",
                           cons + [z3.Or(*[S.i(ms.disc_of(e[3], E)) != 0 for e in shared])] if shared else cons + [z3.BoolVal(False)], on_sat)
            n += 1
    if n == 0:
        o.inconc("relational lemma: no comparable path pairs (vacuous)")
    # compile(): api non-empty only on Ok
    for p in [q for q in exw.run(f_comp) if q.kind == "return"]:
        pr = p.calls("process")
        if len(pr) != 1:
            bad.append("wasm compile: %d calls of process" % len(pr))
            continue
        cond = S.pc(p.pc)
        d = S.i(ms.disc_of(pr[0][3], E))
        api = ms.proj(p.ret, ("f", 0), E)
        okv = ms.proj(ms.proj(pr[0][3], ("v", "Ok"), E), ("f", 0), E)
        L.expect_unsat("wasm compile: process Ok => api is its YAML", cond + [d == 0, S.v(api) != S.v(okv)], on_sat)
    o.extra["relational_pairs"] = n


CASES = {
    "success": ("res / on get -> <{}>;\n", {}, 0),
    "lexical": ("res / on get -> <{}>; §\n", {}, 1),
    "syntax": ("res / on get -> ;\n", {}, 1),
    "import": ('use "missing.oal";\nres / on get -> <{}>;\n', {}, 1),
    "type": ("res / on get -> <{} & num>;\n", {}, 1),
    "evaluation": ("res / on get -> <status=999, {}>;\n", {}, 1),
    # several modules: the error sits in a module that is parsed before a clean one
    "syntax-error-in-main-clean-import": ('use "m.oal" as m;\nres /items on get -> <m.item>; ;\n', {"m.oal": "let item = { 'id num };\n"}, 1),
    "syntax-error-in-first-of-two-imports": ('use "a.oal" as a;\nuse "b.oal" as b;\nres / on get -> <a.t & b.u>;\n', {"a.oal": "let t = { 'x num }; }\n", "b.oal": "let u = { 'y str };\n"}, 1),
    "type-error-in-import": ('use "m.oal" as m;\nres / on get -> <m.t>;\n', {"m.oal": "let t = {} & num;\n"}, 1),
    # errors located by an empty span: cycles among the modules
    "import-cycle": ('use "a.oal" as a;\nres / on get -> <{}>;\n', {"a.oal": 'use "b.oal" as b;\nlet t = {};\n', "b.oal": 'use "a.oal" as a;\nlet u = {};\n'}, 1),
    "self-import": ('use "main.oal" as me;\nres / on get -> <{}>;\n', {}, 1),
    "no-resources": ("let a = { 'x num };\nlet f y = [y];\n", {}, 0),
    "imports-only": ('use "m.oal" as m;\n', {"m.oal": "let t = { 'k str };\n"}, 0),
    "byte-order-mark": ("\ufeffres / on get -> <{}>;\n", {}, 1),
    "byte-order-mark-in-an-import": ('use "m.oal" as m;\nres / on get -> <m.t>;\n', {"m.oal": "\ufefflet t = { 'k str };\n"}, 1),
    "two-modules-ok": ('use "m.oal" as m;\nres / on get -> <m.t>;\n', {"m.oal": "let t = { 'k str };\n"}, 0),
}
SENTINEL = "SENTINEL: pre-existing target\n"


def config_lemmas(o, L, MC, bad, on_sat):
    """Which file is `the target`: Config::{main,target,base} answer root.join(p) where p is what the user configured for
    that very setting - on the command line or in the config file - and `not specified` / no base only when neither
    route names one; and the command line names a value only when the user wrote it (no default, no environment)."""
    E = mirlib.enums()
    S = L.smt

    def structural(name, ok):
        o.query(name, "mirsym/structural", "unsat" if ok else "violated", 0)
        if not ok:
            bad.append(name)
    src = open(os.path.join(REPO, "oal-client/src/config.rs")).read()

    def fields(struct):
        m = re.search(r"struct %s\s*\{(.*?)\n\}" % struct, src, re.S)
        return re.findall(r"^\s*(?:pub\s+)?(\w+)\s*:", m.group(1), re.M) if m else []
    fa, fp, fc = fields("Args"), fields("Api"), fields("Config")
    if not (fa and fp and fc == ["args", "file", "root"]):
        o.inconc("config.rs: struct layout not understood (%s / %s / %s)" % (fa, fp, fc))
        return
    for setting in ("main", "target", "base"):
        try:
            f = MC.sel("config", setting, arg0=r"&config::Config")
        except Exception as ex:
            o.inconc("MIR: %s" % str(ex)[-200:])
            continue
        o.functions.append(mirlib.func_ref(f, "oal-client"))
        ka, kf = fa.index(setting), fp.index(setting)
        opt, cfg = ("fld", ("fld", ("deref", ("sym", "self")), 0), ka), ("fld", ("fld", ("fld", ("deref", ("sym", "self")), 1), 0), kf)
        root = ("fld", ("deref", ("sym", "self")), 2)
        ex = mirlib.executor([MC])
        ex.emulate_option_map = True
        n_ok = n_none = 0
        good = True
        for p in ex.run(f, arg_names=["self"]):
            if p.kind != "return":
                continue
            reads = set(t for e in p.calls() for a in e[2] for t in ms.subterms(a) if t[0] == "fld" and t[1] == ("fld", ("deref", ("sym", "self")), 0))
            reads |= set(t for e in p.calls() for a in e[2] for t in ms.subterms(a) if t[0] == "fld" and t[1] == ("fld", ("fld", ("deref", ("sym", "self")), 1), 0))
            if reads - {opt, cfg}:
                good = False
            jn = [e for e in p.calls() if e[1] == "Locator::join"]
            if jn:
                src_terms = [t for t in ms.subterms(jn[0][2][1]) if t in (opt, cfg)]
                if len(jn) != 1 or _strip_ref(jn[0][2][0]) != root or len(set(src_terms)) != 1:
                    good = False
                    continue
                which = src_terms[0]
                # the value joined is the payload of a setting that is present on this path
                if not L.expect_unsat("Config::%s: the joined path is a value the user configured for `%s`" % (setting, setting), S.pc(p.pc) + [S.disc(S.v(which)) != 1], on_sat):
                    good = False
                if p.ret[0] == "variant" and p.ret[2] == "Ok":
                    n_ok += 1
                    inner = p.ret[3][0]
                    want = ms.proj(ms.proj(jn[0][3], ("v", "Ok"), E), ("f", 0), E)
                    if not (inner == want or inner == ("variant", "Option", "Some", (want,))):
                        good = False
            else:
                n_none += 1
                if not L.expect_unsat("Config::%s: nothing is answered only when neither the command line nor the config file names a %s" % (setting, setting),
                                      S.pc(p.pc) + [z3.Or(S.disc(S.v(opt)) == 1, S.disc(S.v(cfg)) == 1)], on_sat):
                    good = False
        mirlib.check_translator(o, ex, "Config::" + setting)
        structural("Config::%s: root.join of the configured `%s` (options field %d, config-file field %d), no other setting is read" % (setting, setting, ka, kf), good and n_ok >= 1 and n_none >= 1)
    # the derive output: an option has a value only if the user wrote it
    text = open(MC.path).read()
    found = {}
    for m in re.finditer(r"^fn ([^\n]*?::augment_args(?:_for_update)?)\(.*?^\}", text, re.M | re.S):
        if "config.rs" in m.group(1):
            found[m.group(1)] = set(re.findall(r"Arg::(\w+)", m.group(0)))
    if not found:
        o.inconc("clap derive output for config::Args not found in the MIR of oal-client")
    else:
        giving = sorted(x for v in found.values() for x in v if x.startswith(("default_", "env")))
        structural("config::Args: no option is given a value the user did not write (no default_value / default_missing_value / env in the derived parser)", not giving)
        o.extra["clap_builder_calls"] = sorted(set(x for v in found.values() for x in v))


def _strip_ref(t):
    while t[0] == "addr":
        t = t[1]
    return t


def file_content_lemma(o, L, ML, bad, on_sat):
    """DefaultFileSystem::write_file: on every Ok path the file ends up holding exactly `buf`, whatever it held
    before. The std::fs calls on the path are given their documented effect on (length, write position); the old
    length is a free integer."""
    S = L.smt
    fs = [f for f in ML.find(r"::write_file$") if len(f.args) == 3 and "String" in f.args[2][1]]
    if len(fs) != 1:
        o.inconc("DefaultFileSystem::write_file not found (%d candidates)" % len(fs))
        return
    f = fs[0]
    o.functions.append(mirlib.func_ref(f, "oal-client"))
    ex = mirlib.executor([ML])
    n_ok = 0
    for p in ex.run(f, arg_names=["self", "loc", "buf"]):
        if p.kind != "return" or not ms.show(p.ret).startswith("Result::Ok"):
            continue
        n_ok += 1
        old_len, blen = z3.Int("old_len"), z3.Int("buf_len")
        pre = [old_len >= 0, blen >= 0]
        length, pos = old_len, z3.IntVal(0)
        exact = z3.BoolVal(False)        # the bytes from 0 are exactly buf
        flags = {}
        unknown = []

        def is_buf(t):
            while t[0] in ("addr", "deref") or (t[0] == "app" and re.search(r"(as_bytes|as_ref|as_str|deref|borrow|as_slice|into_bytes|String::into|From::from)$", t[1])):
                t = t[1] if t[0] in ("addr", "deref") else t[2][0]
            return t == ("sym", "buf")

        def const_bool(t):
            return True if t == ms.TRUE else False if t == ms.FALSE else None

        for e in p.calls():
            nm = e[1]
            if nm in ("locator_path",) or nm.endswith(("From::from", "Try::branch", "sync_all", "sync_data", "flush", "PathBuf.AsRef::as_ref", "Deref::deref")):
                continue
            if nm.endswith("fs::write"):
                length, pos, exact = (blen if is_buf(e[2][1]) else z3.Int("other_len")), z3.IntVal(0), z3.BoolVal(is_buf(e[2][1]))
            elif nm.endswith("File::create"):
                length, pos, exact = z3.IntVal(0), z3.IntVal(0), z3.BoolVal(False)
            elif nm.endswith("OpenOptions::new"):
                flags = {}
            elif re.search(r"OpenOptions::(write|create|truncate|append|create_new|read)$", nm):
                b = const_bool(e[2][1])
                if b is None:
                    unknown.append(nm + " with a non-constant flag")
                flags[nm.split("::")[-1]] = b
            elif nm.endswith("OpenOptions::open"):
                if flags.get("create_new"):
                    pre.append(old_len == 0)
                length = z3.IntVal(0) if flags.get("truncate") else old_len
                pos = length if flags.get("append") else z3.IntVal(0)
                exact = z3.BoolVal(False)
            elif nm.endswith(("Write::write_all", "File::write_all", "Write::write")):
                wl = blen if is_buf(e[2][1]) else z3.Int("other_len")
                exact = z3.And(pos == 0, z3.BoolVal(is_buf(e[2][1])))
                length = z3.If(pos + wl > length, pos + wl, length)
                pos = pos + wl
            elif nm.endswith("File::set_len"):
                length = S.i(e[2][1])
            elif re.search(r"(fs::|File::|OpenOptions::|io::)", nm):
                unknown.append(nm)
        if unknown:
            o.inconc("write_file: file-system calls without a model: %s" % unknown[:3])
            continue
        L.expect_unsat("write_file: on success the target holds exactly the document, whatever it held before", pre + [z3.Not(z3.And(exact, length == blen))], on_sat)
    if n_ok == 0:
        o.inconc("write_file: no Ok path")
    mirlib.check_translator(o, ex, "write_file")


def real_cli_matrix():
    """Run the real oal-cli on one program per failure class with a pre-existing target."""
    try:
        cli = build_cli()
    except Exception as ex:
        return ["oal-cli build failed"], None, str(ex)[-300:]
    rdir = new_replay_dir("C13", "cli-matrix")
    mism = []
    detail = {}
    for name, (src, extra, want) in CASES.items():
        files = {"main.oal": src}
        files.update(extra)
        d = os.path.join(rdir, name)
        res = run_cli(cli, files, workdir=d, pre_target=SENTINEL)
        rc, tgt = res["rc"], res["target"]
        detail[name] = {"rc": rc, "target_untouched": tgt == SENTINEL, "stderr_tail": res["out"][-160:]}
        if want == 0:
            if rc != 0 or tgt is None or not tgt.startswith("openapi"):
                mism.append("%s: rc=%s, target %s" % (name, rc, "not written" if tgt == SENTINEL else "odd"))
            # the complete document and nothing else: same bytes as a run into a target that did not exist,
            # also when the old target was much longer than the new document
            fresh = run_cli(cli, files, workdir=os.path.join(rdir, name + ".fresh"))
            longer = run_cli(cli, files, workdir=os.path.join(rdir, name + ".long"), pre_target="# old content\n" + "x: " + "y" * 200 + "\n" * 1 + ("# filler line\n" * 400))
            detail[name]["same_as_fresh_target"] = (tgt == fresh["target"], longer["target"] == fresh["target"])
            if fresh["rc"] != 0 or tgt != fresh["target"] or longer["rc"] != 0 or longer["target"] != fresh["target"]:
                mism.append("%s: exit 0 but the target is not exactly the document (it differs from a run into a fresh target%s)" % (
                    name, "; the old target was longer than the document" if longer["target"] != fresh["target"] else ""))
        else:
            if rc == 0:
                mism.append("%s: exit 0 on an erroneous program" % name)
            elif rc != 1:
                mism.append("%s: abnormal exit %s" % (name, rc))
            if tgt != SENTINEL:
                mism.append("%s: target modified on failure" % name)
            if not res["out"].strip():
                mism.append("%s: no diagnostic" % name)
    # the other two front ends on the same sources: the playground entry point fails exactly when the CLI does and
    # otherwise produces the same document; the language server publishes a diagnostic exactly when they fail
    try:
        from vcommon import build_wasmdrv, run_wasm
        import lspdrv
        drv = build_wasmdrv()
        lsp = lspdrv.build_lsp()
        for name, (src, extra, want) in CASES.items():
            cli_ok = detail[name]["rc"] == 0
            if not (extra or "use " in src):      # the playground compiles a single text
                w = run_wasm(drv, src, timeout=30)
                detail[name]["playground"] = w["status"]
                if w["rc"] != 0 or w["status"] is None:
                    mism.append("%s: oal_wasm::compile dies (exit %s)" % (name, w["rc"]))
                elif (w["status"] == "OK") != cli_ok:
                    mism.append("%s: the CLI %s but the playground entry point %s" % (name, "succeeds" if cli_ok else "fails", "succeeds" if w["status"] == "OK" else "fails"))
                elif cli_ok:
                    fresh = run_cli(cli, {"main.oal": src}, workdir=os.path.join(rdir, name + ".fresh"))
                    if (fresh["target"] or "").strip() != w["body"].strip():
                        mism.append("%s: the CLI and the playground entry point produce different documents" % name)
            if name == "import":
                continue                      # a missing import: the server has nothing to open
            d = os.path.join(rdir, name + ".lsp")
            disk = {"main.oal": src, "oal.toml": '[api]\nmain = "main.oal"\ntarget = "out.yaml"\n'}
            disk.update(extra)
            a = lspdrv.session(lsp, d, disk, [("open", "main.oal", src), ("sync", "main.oal")], ("main.oal", {"line": 0, "character": 0}))
            ndiag = sum(len(v) for v in (a.get("diags") or {}).values())
            detail[name]["lsp_diagnostics"] = ndiag
            if not a.get("alive"):
                mism.append("%s: the language server died" % name)
            elif (ndiag > 0) == cli_ok:
                mism.append("%s: the CLI %s but the language server published %d diagnostics" % (name, "succeeds" if cli_ok else "fails", ndiag))
        # ... and the sources of the server are what the client last told it: a buffer that is edited and then closed
        # without saving is the file on disk again. For every (accepted, rejected) pair of single-module cases, both ways round:
        # disk has A, the buffer is opened with A, replaced by B, closed - the server must say what the CLI says about A
        good = [n for n, (src, extra, want) in CASES.items() if want == 0 and not extra and "use " not in src][:2]
        poor = [n for n, (src, extra, want) in CASES.items() if want != 0 and not extra and "use " not in src]
        pairs = [(g, b) for g in good[:1] for b in poor] + [(b, g) for g in good[:1] for b in poor]
        for a_name, b_name in pairs:
            A, B = CASES[a_name][0], CASES[b_name][0]
            cli_ok = detail[a_name]["rc"] == 0
            d = os.path.join(rdir, "closed-%s-after-editing-into-%s.lsp" % (a_name, b_name))
            disk = {"main.oal": A, "oal.toml": '[api]\nmain = "main.oal"\ntarget = "out.yaml"\n'}
            a = lspdrv.session(lsp, d, disk, [("open", "main.oal", A), ("sync", "main.oal"), ("change", "main.oal", [(None, B)]), ("sync", "main.oal"),
                                              ("close", "main.oal"), ("sync", "main.oal")], ("main.oal", {"line": 0, "character": 0}))
            ndiag = sum(len(v) for v in (a.get("diags") or {}).values())
            detail["closed-%s-after-editing-into-%s" % (a_name, b_name)] = {"lsp_diagnostics": ndiag, "cli_ok_on_disk": cli_ok}
            if not a.get("alive"):
                mism.append("closed %s after editing it into %s: the language server died" % (a_name, b_name))
            elif (ndiag > 0) == cli_ok:
                mism.append("a buffer edited from '%s' into '%s' and closed without saving: the CLI %s on the files but the language server holds %d diagnostics" % (
                    a_name, b_name, "succeeds" if cli_ok else "fails", ndiag))
    except Exception as ex:
        mism.append("playground / language-server comparison could not run: %s" % str(ex)[:120])
    # the other configuration route: everything in a config file (-c), nothing on the command line; and a mix of both.
    # The target named by the configuration is the file that is written - and the only one
    from vcommon import run as vrun0
    base_yaml = "openapi: 3.0.3\ninfo:\n  title: based\n  version: '1'\npaths: {}\n"
    for name, src, extra, want, toml, argv, target in (
            ("config-file", CASES["two-modules-ok"][0], CASES["two-modules-ok"][1], 0, '[api]\nmain = "main.oal"\ntarget = "spec/api.yaml"\n', ["-c", "oal.toml"], "spec/api.yaml"),
            ("config-file-with-base", CASES["success"][0], {"base.yaml": base_yaml}, 0, '[api]\nmain = "main.oal"\ntarget = "described.yaml"\nbase = "base.yaml"\n', ["-c", "oal.toml"], "described.yaml"),
            ("config-file-target-from-option", CASES["success"][0], {}, 0, '[api]\nmain = "main.oal"\ntarget = "from-file.yaml"\n', ["-c", "oal.toml", "-t", "from-option.yaml"], "from-option.yaml"),
            ("config-file-failing", CASES["type"][0], {}, 1, '[api]\nmain = "main.oal"\ntarget = "spec/api.yaml"\n', ["-c", "oal.toml"], "spec/api.yaml")):
        d = os.path.join(rdir, name)
        files = {"main.oal": src, "oal.toml": toml}
        files.update(extra)
        for fn, text in files.items():
            os.makedirs(os.path.dirname(os.path.join(d, fn)), exist_ok=True)
            with open(os.path.join(d, fn), "w") as f:
                f.write(text)
        os.makedirs(os.path.dirname(os.path.join(d, target)), exist_ok=True)
        with open(os.path.join(d, target), "w") as f:
            f.write(SENTINEL)
        before = set(os.path.join(r, x)[len(d) + 1:] for r, _, xs in os.walk(d) for x in xs)
        rc, out, t = vrun0([cli] + argv, cwd=d, timeout=20, extra_env={"RUST_BACKTRACE": "0"})
        after = set(os.path.join(r, x)[len(d) + 1:] for r, _, xs in os.walk(d) for x in xs)
        if name == "config-file-target-from-option" and "from-file.yaml" in after - before and open(os.path.join(d, target)).read() == SENTINEL:
            # both routes name a target: which one wins is not part of the statement - exactly one of them is written
            target = "from-file.yaml"
            after.discard("from-file.yaml")
        tgt = open(os.path.join(d, target), encoding="utf-8", errors="replace").read()
        detail[name] = {"rc": rc, "target_written": tgt != SENTINEL, "new_files": sorted(after - before)}
        if after - before:
            mism.append("%s: files nobody configured appear next to the sources: %s" % (name, sorted(after - before)))
        if want == 0:
            ref = run_cli(cli, {k: v for k, v in files.items() if k != "oal.toml"}, workdir=os.path.join(rdir, name + ".options"),
                          base="base.yaml" if "base.yaml" in files else None)
            if rc != 0 or tgt == SENTINEL:
                mism.append("%s: exit %s and the configured target %s was %s" % (name, rc, target, "not written" if tgt == SENTINEL else "written"))
            elif ref["rc"] != 0 or ref["target"] != tgt:
                mism.append("%s: the document differs from the one the same compile gives when configured by options" % name)
        else:
            if rc == 0:
                mism.append("%s: exit 0 on an erroneous program" % name)
            if tgt != SENTINEL:
                mism.append("%s: target modified on failure" % name)
    # unwritable target: the write fails -> exit must be failure
    d = os.path.join(rdir, "unwritable")
    os.makedirs(d, exist_ok=True)
    with open(os.path.join(d, "main.oal"), "w") as f:
        f.write(CASES["success"][0])
    from vcommon import run as vrun
    rc, out, t = vrun([cli, "-m", "main.oal", "-t", "no/such/dir/out.yaml"], cwd=d, timeout=20)
    detail["unwritable"] = {"rc": rc}
    if rc == 0:
        mism.append("unwritable target: exit 0 although nothing could be written")
    with open(os.path.join(rdir, "cmd"), "w") as f:
        f.write("#!/bin/sh\ncd /verif && exec ./check C13 --replay %s\n" % rdir)
    return mism, rdir, detail


def replay(path):
    mism, rdir, detail = real_cli_matrix()
    print(detail)
    print("mismatches:", mism)
    return 1 if mism else 0
