"""C11 - lossless syntax tree, exact spans (partial: span plumbing, not the DFA or the parser).

Engine M: one iteration of `tokenize`'s loop (every token kind), `TokenList::{push,
token_span, end}`, `TokenRef::span`, `NodeRef::{span, start, end}`, `Span::new`.
Replay oracle: the real lexer+parser on a corpus (drivers/parsedrv): token spans tile
the text in order, leaves are in source order inside the text on char boundaries.
"""
import os
import re

import mirlib
import mirsym as ms
import z3
from vcommon import Outcome, run, new_replay_dir, tier

CORPUS = {
    "plain": "let a = { 'x num };\nres / on get -> <a>; // c\n",
    "multibyte": "// café \U0001F600\nlet a = str `title: \"中文\"`;\n# description: \"déjà\"\nres /é on get -> <a>;\n",
    "crlf": "let a = num;\r\nres / on get -> <a>;\r\n",
    "lexical-errors": "let a = § num; €\nres / on get -> <a>;\n",
    "syntax-error": "let a = { 'x num ;\nres / on get -> <a>;\n",
    "empty": "",
    "only-trivia": "  // nothing\n/* block */\n",
    "all-token-kinds": "use \"m.oal\" as m;\nlet @r = rec x { 'k? [x], 'n! int } `title: t`;\nlet f y = y | str ~ bool & {};\n"
                       "res /a/{ 'id int }?{ 'q str } on get, put, post, patch, delete, options, head : <media=\"x/y\", headers={ 'h str }, status=200, @r> -> <status=4XX, {}> :: <>;\n",
    "unterminated": "let a = \"abc",
    "number-too-big": "let a = 99999999999999999999999;\nres / on get -> <{}>;\n",
    "byte-order-mark": "\ufefflet name = str;\nres / on get -> <name>;\n",
    "leading-and-trailing-space": "\n\n  \tlet a = num;\nres / on get -> <a>;\n\n  ",
    "trailing-garbage": "let a = num;\nres / on get -> <a>;\n\u00a0\u2028§",
    "nul-and-controls": "let a\x00 = num;\x0b\nres / on get -> <a>;\x7f\n",
    "optional-parts-in-another-order": "let t = put : <str> { 'q str } -> <>;\nres /a on get { 'p num } : <{}> { 'again num } -> <>;\nlet c = <{}, status=200>;\nres /b?{ 'x num }/{ 'y num } on get -> <>;\nlet d = 'p! ? num;\n",
    "annotations-followed-by-blank-lines": "# summary: \"s\"\n\n\nlet a = num;\n# description: \"d\"\r\n\r\n\r\nlet b = str;\n// comment\n\n\n# tags: [x]\n\nres / on get -> <a>;\n\n\n",
    "many-lexical-errors-in-a-row": "let a = num;\n" + "§" * 300 + "\nlet b = str;\nres / on get -> <a>;\n",
    "many-lexical-errors-spread-out": "".join("let v%d = € num;\n" % i for i in range(120)) + "res / on get -> <v1>;\n",
    "blank-inline-annotations": "let a = str ``;\nlet b = { 'p num ` ` } `\t`;\nlet c = num `title: t` `` ` `;\nres / on get -> <a> ``;\n",
    "optional-parts-left-out": 'use "m.oal" as m;\nlet a = m.;\nlet b = { \'x m. , \'y str };\nlet c = b.;\nres /p? on get -> <>;\nres / on get : -> <>;\nlet d = [ ] ;\nlet e = a :: ;\n',
}


def judge(drv, name, text):
    """One text through the real lexer + parser -> (detail, [mismatch])."""
    import props.c12 as c12
    mism = []
    rc, out, t = run([drv], stdin=text, timeout=60, mem_gb=4, extra_env={"PARSEDRV_MEMO_ONLY": "1"})
    r = c12.parse_out(out)
    tk, mm = r.get("tokens", {}), r.get("memo", {})
    detail = {"rc": rc, "tokens": tk.get("n"), "tiling": tk.get("tiling"), "end": tk.get("end"), "len": tk.get("len"), "gaps_ok": tk.get("gaps_ok"), "slices": tk.get("slices"),
              "leaves_ok": mm.get("leaves_ok"), "spans_ok": mm.get("spans_ok"), "errs": mm.get("errs")}
    if rc != 0 or not tk:
        return detail, ["%s: parser driver died (rc=%s)" % (name, rc)]
    if tk.get("tiling") != "ok":
        mism.append("%s: token spans do not ascend inside the text (%s)" % (name, out.split("\n")[0][:100]))
    if tk.get("gaps_ok") == "false":
        mism.append("%s: tokens do not tile the text: a gap between tokens (or before the first / after the last) is not a reported lexical error" % name)
    if tk.get("errs_in_text") == "false":
        mism.append("%s: a lexical error span leaves the text or is off a character boundary" % name)
    if tk.get("slices", "ok") != "ok":
        mism.append("%s: a token's text is not the source slice of its span (%s)" % (name, tk.get("slices")[:120]))
    if mm.get("leaves_ok") == "false":
        mism.append("%s: a leaf span is out of order, outside the text or off a character boundary, or the leaves are not exactly the non-trivia tokens of the parsed prefix" % name)
    if mm.get("spans_ok") == "false":
        mism.append("%s: a node span leaves the text or is not the hull of its leaves" % name)
    try:
        if int(tk.get("end", 0)) > int(tk.get("len", 0)):
            mism.append("%s: token list ends past the text" % name)
        if mm.get("errs") == "0" and name not in ("unterminated",) and int(tk.get("end", 0)) != int(tk.get("len", 0)):
            mism.append("%s: no lexical error but the tokens stop at %s of %s bytes" % (name, tk.get("end"), tk.get("len")))
    except ValueError:
        pass
    return detail, mism


def more_texts():
    """Every module of the shared program pool and every single-token mutation of C04's seeds (deleted, doubled,
    swapped tokens: dangling operators, qualifiers without a member, unbalanced brackets)."""
    out = {}
    try:
        import pool
        for k, files in pool.programs().items():
            for fn, text in files.items():
                if fn.endswith(".oal"):
                    out["pool-%s-%s" % (k.replace("/", "-"), fn.replace("/", "-"))] = text
    except Exception:
        pass
    # every expression form in every syntactic position (the family C12 compares with and without the memo table)
    try:
        import props.c12 as c12
        for k, text in c12.forms_in_positions().items():
            out[k.replace("/", "-")] = text
    except Exception:
        pass
    # arbitrary Unicode: texts drawn (VERIF_SEED) from the language's own tokens mixed with characters of every UTF-8 width,
    # controls, line separators and characters the lexer does not know
    import random
    rnd = random.Random(int(os.environ.get("VERIF_SEED", "1")) * 7919 + 11)
    alphabet = ["let ", "res ", "use ", "on ", "get", "put", " -> ", " :: ", " : ", "<", ">", "{", "}", "[", "]", "(", ")", ";", ",", "=", "|", "&", "~", "?", "!", "/", "/seg",
                "'p ", "@r ", "name", "q.v", "num", "str", "200", "4XX", "12.5", "\"s\"", "`a: 1`", "# d: x\n", "// c\n", "/* b */", " ", "\n", "\r\n", "\t",
                "§", "€", "é", "中", "\U0001F600", "\u00a0", "\u2028", "\ufeff", "\x00", "\x7f", "\"", "'", "`", "#", "\\", "$", "%", "^", "*", "+", "9" * 25]
    for i in range(60):
        out["unicode-%02d" % i] = "".join(rnd.choice(alphabet) for _ in range(rnd.randint(1, 60)))
    try:
        import props.c04 as c04
        for k, text in c04.mutation_texts().items():
            out["mutation-" + k.replace("/", "-")] = text
    except Exception:
        pass
    return out


def run_corpus(tag="spans"):
    import concurrent.futures as cf
    import props.c12 as c12
    drv = c12.build_parsedrv()
    rdir = new_replay_dir("C11", tag)
    mism, detail = [], {}
    for name, text in CORPUS.items():
        with open(os.path.join(rdir, name + ".oal"), "w", encoding="utf-8", newline="") as f:
            f.write(text)
        detail[name], m = judge(drv, name, text)
        mism += m
    extra = more_texts()
    bad_extra = 0
    with cf.ThreadPoolExecutor(max_workers=max(2, (os.cpu_count() or 4) - 2)) as ex:
        for (name, text), (d, m) in zip(extra.items(), ex.map(lambda kv: judge(drv, kv[0], kv[1]), list(extra.items()))):
            if m:
                bad_extra += 1
                if bad_extra <= 6:
                    with open(os.path.join(rdir, name + ".oal"), "w", encoding="utf-8", newline="") as f:
                        f.write(text)
                    detail[name] = d
                    mism += m
    detail["pool-and-mutation-texts"] = {"texts": len(extra), "with_mismatch": bad_extra}
    with open(os.path.join(rdir, "cmd"), "w") as f:
        f.write("#!/bin/sh\ncd /verif && exec ./check C11 --replay %s\n" % rdir)
    return mism, rdir, detail


def check():
    o = Outcome("C11")
    E = mirlib.enums()
    try:
        MS = mirlib.module("oal-syntax")
        MM = mirlib.module("oal-model")
        f_tok = MS.one(r"^tokenize$")
        f_push = MM.one(r"lexicon::<impl[^>]*>::push$")
        f_ts = MM.one(r"lexicon::<impl[^>]*>::token_span$")
        f_end = MM.sel("lexicon", "end", arg0=r"&TokenList<")
        f_trs = MM.sel("lexicon", "span", arg0=r"&TokenRef<")
        f_ns = MM.sel("grammar", "span", arg0=r"NodeRef<", nargs=1)
        f_nstart = MM.sel("grammar", "start", arg0=r"NodeRef<")
        f_nend = MM.sel("grammar", "end", arg0=r"NodeRef<")
        f_new = MM.sel("span", "new", ret=r"^Span$")
    except Exception as ex:
        o.inconc("MIR: %s" % str(ex)[-300:])
        return o.finish()
    o.functions += [mirlib.func_ref(f_tok, "oal-syntax")] + [mirlib.func_ref(f, "oal-model") for f in (f_push, f_ts, f_end, f_trs, f_ns, f_nstart, f_nend, f_new)]
    o.assumptions = ["logos' SpannedIter yields consecutive, ascending byte ranges on char boundaries (third-party)", "ListArena::push_back/get/tail and iterator adaptors are uninterpreted",
                     "productions: induction hypothesis - every sub-parser called answers Ok((s', n)) only with the leaves of n being the tokens between its cursor and s', a helper that answers Err has appended nothing (each is itself checked as a production); memoize answers what its production answers (C12)"]
    o.bounds = {"control": "one arbitrary iteration of tokenize's loop per token kind; all paths of the accessors", "values": "unbounded"}
    o.outside = ["the logos DFA (which ranges it yields)", "token-level termination (skip_trivia's loop, the logos DFA)",
                 "spans of compiler errors"]
    L = mirlib.Lemma(o)
    S = L.smt
    bad = []

    def on_sat(name, model):
        bad.append(name)

    def structural(name, ok, why=None):
        o.query(name, "mirsym/structural", "unsat" if ok else "violated", 0)
        if not ok and (why or name) not in bad:
            bad.append(why or name)
        return ok

    # tokenize: every iteration hands the lexer's own range on, unchanged
    ex = mirlib.executor([MS], max_paths=4000)
    outs = ex.run(f_tok, arg_names=["loc", "input"])
    mirlib.check_translator(o, ex, "tokenize")
    n_ok = n_err = n_drop = 0
    kinds_ok = True
    for p in outs:
        if p.kind != "backedge":
            continue
        nx = [e for e in p.calls() if e[1].endswith("Iterator::next")]
        if len(nx) != 1:
            continue
        item = ms.proj(ms.proj(nx[0][3], ("v", "Some"), E), ("f", 0), E)
        rng = ms.proj(item, ("f", 1), E)
        pushes = [e for e in p.calls() if e[1] == "TokenList::push"]
        errs = [e for e in p.calls() if e[1] == "Vec::push"]
        idx = [e for e in p.calls() if e[1].endswith("Index::index")]
        if pushes:
            n_ok += 1
            good = len(pushes) == 1 and pushes[0][2][2] == rng and not errs and \
                all(any(t == rng for t in ms.subterms(e[2][1])) for e in idx)
            if not good:
                kinds_ok = False
        elif errs:
            n_err += 1
            sp = [e for e in p.calls() if e[1] == "Span::new"]
            good = len(sp) == 1 and sp[0][2][1] == rng and any(t == sp[0][3] for t in ms.subterms(errs[0][2][1]))
            structural("tokenize: an error token is reported at the lexer's own range", good)
        else:
            # round 13: the lexer handed a token over and this iteration neither stores it nor reports it - its bytes
            # would belong to no token and to no error (a hole in the tiling, a leaf missing from the tree)
            n_drop += 1
        # an out-of-range number literal (fixed defect) is an error path too
    structural("tokenize: every token kind is stored with the lexer's own range, and its text is the slice of that range", kinds_ok and n_ok >= 10)
    structural("tokenize: no iteration of the token loop drops what the lexer gave it (each stores a token or reports an error)", n_drop == 0,
               "tokenize: %d path(s) through one iteration of the token loop neither store the token nor report an error" % n_drop)
    # ... and those ranges are offsets into the caller's text: the lexer runs over the `input` argument itself
    # (not a trimmed / normalised copy) and token texts are sliced from that same argument
    lex_ok = idx_ok = True
    n_lex = 0
    for p in outs:
        lx = [e for e in p.calls() if e[1].endswith("Logos::lexer") or e[1].endswith("Lexer::new")]
        if p.kind in ("backedge", "return") and len(lx) != 1:
            lex_ok = False
        for e in lx:
            n_lex += 1
            if e[2][0] != ("sym", "input"):
                lex_ok = False
        sp = [e for e in p.calls() if e[1] == "Lexer::spanned"]
        if lx and (len(sp) != 1 or sp[0][2][0] != lx[0][3]):
            lex_ok = False
        for e in p.calls():
            if e[1].endswith("Index::index") and e[2][0] != ("sym", "input"):
                idx_ok = False
    structural("tokenize: the lexer runs over the caller's text itself, so its ranges are offsets into that text", lex_ok and n_lex > 0)
    structural("tokenize: token texts are sliced from the caller's text itself", idx_ok)
    # ... and the loop ends where the text ends: tokenize leaves its loop only when the lexer has nothing more to give
    # (otherwise the rest of the text is covered by no token and no error)
    n_exit = 0
    for p in outs:
        if p.kind != "return":
            continue
        li = [i for i, e in enumerate(p.events) if e[0] == "loop"]
        if not li:
            continue
        nx = [e for e in p.events[li[-1]:] if e[0] == "call" and e[1].endswith("Iterator::next")]
        n_exit += 1
        if len(nx) != 1:
            structural("tokenize: leaves its loop right after asking the lexer once", False, "tokenize: a path leaves the token loop after %d lexer steps" % len(nx))
            continue
        L.expect_unsat("tokenize: the token loop is left only when the lexer is exhausted", S.pc(p.pc) + [S.disc(S.v(nx[0][3])) != 0], on_sat)
    if n_exit == 0:
        o.inconc("tokenize: no path leaves the token loop")
    if n_ok == 0 or n_err == 0:
        o.inconc("tokenize: no token / no error iteration found (%d/%d)" % (n_ok, n_err))
    o.extra["tokenize_paths"] = {"token": n_ok, "error": n_err}

    # combinators: nodes are committed together with the cursor. A list combinator (item (sep item)* / alternatives
    # repeated) that gives up on an attempt leaves no node of that attempt behind - otherwise the enclosing production
    # parses the same token again and the token becomes a leaf twice.
    for cname in ("intersperse", "repeat"):
        try:
            fc = MM.one(r"^(grammar::)?%s$" % cname)
        except KeyError as ex:
            o.inconc("MIR: %s" % str(ex)[-200:])
            continue
        o.functions.append(mirlib.func_ref(fc, "oal-model"))
        exc = mirlib.executor([MM])
        n_exit = n_adv = 0
        ok_exit = ok_adv = True
        for p in exc.run(fc):
            ev = p.events
            loops = [i for i, e in enumerate(ev) if e[0] == "loop"]
            if not loops:
                continue
            tail = [e for e in ev[loops[-1] + 1:] if e[0] == "call"]
            pushes = [e for e in tail if e[1] == "Vec::push"]
            if p.kind == "return" and p.ret[0] == "variant" and p.ret[2] in ("Ok",) or (p.kind == "return" and p.ret[0] == "sym"):
                n_exit += 1
                if pushes:
                    ok_exit = False
            elif p.kind == "backedge" and pushes:
                n_adv += 1
                # the cursor carried into the next iteration comes out of the very match whose node was pushed last
                last = pushes[-1][2][1]
                src = [t for t in ms.subterms(last) if t[0] == "app" and not t[1].startswith("Vec::push")]
                curs = [v for k, v in p.state.vals.items() if k in p.state.havocked and fc.locals.get(k[1] if isinstance(k, tuple) else k, "").strip().endswith("Cursor")]
                moved = [v for v in curs if not (v[0] == "sym" and "#loop" in v[1])]
                if not moved or not all(any(t in src for t in ms.subterms(v)) for v in moved):
                    ok_adv = False
        mirlib.check_translator(o, exc, cname)
        structural("%s: an attempt that fails leaves no node behind (nothing is pushed in the iteration that ends the list)" % cname, ok_exit and n_exit > 0)
        structural("%s: when nodes are pushed the cursor moves to the end of the match they came from" % cname, ok_adv and n_adv > 0)

    # the productions themselves: every token a production consumes becomes a leaf of its answer, once, in order
    import prodlemma
    prodlemma.base_lemmas(o, MM, E, structural)
    prods = prodlemma.productions(MS)
    n_paths = n_prod = 0
    for fp in sorted(prods, key=lambda f: f.name):
        try:
            n, probs = prodlemma.check_production(fp, MS, E, L, structural, o, "")
        except Exception as exn:
            o.inconc("production %s: %s" % (fp.name, repr(exn)[:160]))
            continue
        n_paths += n
        n_prod += 1
        for pr in probs:
            if pr not in bad:
                bad.append(pr)
        structural("production %s: on every path, what it consumes is what its answer's leaves are (%d paths)" % (fp.name, n), not probs and n > 0,
                   probs[0] if probs else "production %s: no path decided" % fp.name)
    # the list combinators: an invariant at every loop head (any number of iterations) instead of one iteration
    n_str = 0
    for cname in ("intersperse", "repeat"):
        try:
            fc = MM.one(r"^(grammar::)?%s$" % cname)
            n, probs = prodlemma.check_loops(fc, MM, E, L, o)
        except Exception as exn:
            o.inconc("combinator %s: %s" % (cname, repr(exn)[:160]))
            continue
        n_str += n
        for pr in probs:
            if pr not in bad:
                bad.append(pr)
        structural("%s: at every loop head the caller's list holds exactly the tokens between the entry cursor and the loop's cursor (%d stretches between loop heads)" % (cname, n),
                   not probs and n >= 5, probs[0] if probs else "%s: loop structure not found" % cname)
    o.extra["productions"] = {"functions": n_prod, "paths": n_paths, "combinator_stretches": n_str}
    # ... and the induction is well founded: recursion consumes before it re-enters, list loops consume every round
    try:
        prodlemma.termination(MS, E, o, structural)
    except Exception as exn:
        o.inconc("parser termination: %s" % repr(exn)[:160])
    if n_prod < 40:
        o.inconc("only %d parser productions found in the MIR of oal-syntax (the grammar has about 60)" % n_prod)

    # TokenList plumbing
    ex = mirlib.executor([MM])
    for p in ex.run(f_push, arg_names=["self", "token", "range"]):
        if p.kind == "return":
            pb = [e for e in p.calls() if e[1].endswith("push_back")]
            structural("TokenList::push: stores (token, range) unchanged at the back", len(pb) == 1 and pb[0][2][1] == ("aggr", "tuple", (("sym", "token"), ("sym", "range")), None))
    ex = mirlib.executor([MM])
    for p in ex.run(f_ts, arg_names=["self", "s"]):
        if p.kind == "return":
            sp = [e for e in p.calls() if e[1] == "Span::new"]
            g = [e for e in p.calls() if e[1].endswith("::get")]
            okk = len(sp) == 1 and len(g) == 1 and any(t[0] == "app" and t[1].endswith("Clone::clone") for t in ms.subterms(sp[0][2][1])) and \
                any(t == g[0][3] for t in ms.subterms(sp[0][2][1])) and ms.proj(p.ret, ("f", 1), E) == sp[0][3]
            structural("TokenList::token_span: the span is the stored range of that very token", okk)
    ex = mirlib.executor([MM])
    for p in ex.run(f_trs, arg_names=["self"]):
        if p.kind == "return":
            sp = [e for e in p.calls() if e[1] == "Span::new"]
            g = [e for e in p.calls() if e[1].endswith("::get")]
            structural("TokenRef::span: the span is the stored range of that very token",
                       len(sp) == 1 and len(g) == 1 and p.ret == sp[0][3] and any(t == g[0][3] for t in ms.subterms(sp[0][2][1])))
    ex = mirlib.executor([MM])
    for p in ex.run(f_new, arg_names=["loc", "range"]):
        if p.kind == "return":
            r = ("sym", "range")
            fields = [ms.proj(p.ret, ("f", i), E) for i in range(3)]
            structural("Span::new: start = range.start, end = range.end, locator kept",
                       ms.proj(r, ("f", 0), E) in fields and ms.proj(r, ("f", 1), E) in fields and ("sym", "loc") in fields and
                       fields.index(ms.proj(r, ("f", 0), E)) < fields.index(ms.proj(r, ("f", 1), E)))
    # NodeRef::span = start-of-first-leaf .. end-of-last-leaf
    ex = mirlib.executor([MM])
    ex.emulate_option_map = True       # the span may be built inside `start.zip(end).map(|(s, e)| ..)`
    seen = False
    for p in ex.run(f_ns, arg_names=["self"]):
        if p.kind != "return" or p.ret[0] != "variant" or p.ret[2] != "Some":
            continue
        seen = True
        st = [e for e in p.calls() if e[1] == "NodeRef::start"]
        en = [e for e in p.calls() if e[1] == "NodeRef::end"]
        sp = [e for e in p.calls() if e[1] == "Span::new"]
        trs = [e for e in p.calls() if e[1] == "TokenRef::span"]
        ss = [e for e in p.calls() if e[1] == "Span::start"]
        se = [e for e in p.calls() if e[1] == "Span::end"]
        okk = len(st) == 1 and len(en) == 1 and len(sp) == 1 and len(trs) == 2 and len(ss) == 1 and len(se) == 1
        if okk:
            first = ms.proj(ms.proj(st[0][3], ("v", "Some"), E), ("f", 0), E)
            last = ms.proj(ms.proj(en[0][3], ("v", "Some"), E), ("f", 0), E)
            sfirst = [e for e in trs if any(t == first for t in ms.subterms(e[2][0]))]
            slast = [e for e in trs if any(t == last for t in ms.subterms(e[2][0]))]
            okk = len(sfirst) == 1 and len(slast) == 1 and any(t == sfirst[0][3] for t in ms.subterms(ss[0][2][0])) and \
                any(t == slast[0][3] for t in ms.subterms(se[0][2][0])) and \
                sp[0][2][1] == ("aggr", "std::ops::Range", (ss[0][3], se[0][3]), ("start", "end"))
        structural("NodeRef::span: from the start of the first leaf's span to the end of the last leaf's span", okk)
        L.expect_unsat("NodeRef::span: Some only when both a first and a last leaf exist",
                       S.pc(p.pc) + [z3.Or(S.disc(S.v(st[0][3])) != 1, S.disc(S.v(en[0][3])) != 1)] if st and en else [z3.BoolVal(True)], on_sat)
    if not seen:
        o.inconc("NodeRef::span: no Some-returning path")
    for f, nm, want in ((f_nstart, "start", "NodeRef::children"), (f_nend, "end", "NodeRef::reverse_children")):
        ex = mirlib.executor([MM])
        leaf = tree = False
        for p in ex.run(f, arg_names=["self"]):
            if p.kind != "return":
                continue
            ref = [e for e in p.calls() if e[1] == "TokenList::reference"]
            it = [e for e in p.calls() if e[1] == want]
            other = [e for e in p.calls() if e[1] in ("NodeRef::children", "NodeRef::reverse_children") and e[1] != want]
            if ref:
                leaf = True
            if it and not other and any(e[1].endswith("Iterator::find_map") for e in p.calls()):
                tree = True
            if other:
                structural("NodeRef::%s: searches its children from the %s" % (nm, "front" if nm == "start" else "back"), False)
        structural("NodeRef::%s: a leaf answers with its own token, a tree with the first hit among its children taken from the %s" % (nm, "front" if nm == "start" else "back"), leaf and tree)
    ex = mirlib.executor([MM])
    n_last = 0
    for p in ex.run(f_end, arg_names=["self"]):
        if p.kind == "return":
            tl = [e for e in p.calls() if e[1].endswith("::tail")]
            if len(tl) != 1:
                structural("TokenList::end: looks at the last stored token", False)
                continue
            if p.ret == ms.C("int", 0):
                # written as a match: the empty case answers 0 - and only the empty case
                L.expect_unsat("TokenList::end: 0 only for an empty list", S.pc(p.pc) + [S.disc(S.v(tl[0][3])) != 0], on_sat)
            else:
                n_last += 1
                structural("TokenList::end: the end of the last stored range (0 for an empty list)", any(t == tl[0][3] for t in ms.subterms(p.ret)))
    if n_last == 0:
        o.inconc("TokenList::end: no path reads the last stored range")

    o.samples = [{"query": q["name"], "verdict": q["verdict"]} for q in o.queries[:14]]
    mism, rdir, detail = run_corpus()
    o.extra["real_lexer_parser"] = detail
    if bad:
        if mism:
            o.violation("spans are not exact; lemma(s): %s; real lexer/parser: %s" % ("; ".join(bad[:3]), "; ".join(mism[:3])), rdir)
        else:
            o.inconc("UNCONFIRMED: lemma(s) fail (%s) but the real lexer and parser give tiling tokens and ordered in-range leaves on %d texts" % ("; ".join(bad[:3]), len(detail)))
    elif mism:
        o.oracle_only("real lexer/parser misbehave (%s) although every lemma holds" % mism[:3], rdir)
    return o.finish()


def replay(path):
    mism, rdir, detail = run_corpus()
    for k, v in detail.items():
        print(k, v)
    print("mismatches:", mism)
    return 1 if mism else 0
