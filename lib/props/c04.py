"""C04 - any text is answered with a result or diagnostics, never a crash (partial).

Engine K: the private token-text conversions of oal-syntax/src/lexer.rs and
`CharSpan::from` on every string their regex/text domain admits (bounded length).
Engine M: glue between phases - `oal_syntax::parse`'s "no tree => at least one error"
contract, the loaders' use of it, `Context::span` past the end, `occurs`
completeness (the guard against a diverging `reduce`), and an inventory of every
panicking path in the front-end glue functions.
"""
import os
import re

import kanirun
import mirlib
import mirsym as ms
import z3
from vcommon import (Outcome, Findings, REPO, build_cli, build_wasmdrv, run_cli, run_wasm, new_replay_dir, src_ref, tier, log)

# token regexes the Kani harnesses assume (compared with the #[regex] attributes at run time)
REGEXES = {
    "LiteralNumber": '"[0-9]+"',
    "LiteralString": '"\\"[^\\"]*\\""',
    "LiteralHttpStatus": '"[1-5]XX"',
    "AnnotationInline": '"`[^`]*`"',
    "AnnotationLine": 'r"#[^\\r\\n]*[\\r\\n]*"',
    "PathElementSegment": '"/[0-9a-zA-Z%~_.-]+"',
    "Property": "\"'[0-9a-zA-Z$@_-]+\"",
}

# panicking constructs in glue code that rest on an environment contract, not on the input text
ALLOWED_PANICS = [
    ("main", r"Result::unwrap", "stderrlog init() fails only if a logger is already installed"),
    ("process", r"Result::unwrap", "Locator::try_from of the constant INPUT url"),
    ("load", r"assert_failed", "WebLoader::load is only called by module::load on a locator for which is_valid returned true"),
]

NASTY = {
    "empty": "",
    "bom-only": "﻿",
    "unterminated-string": 'let a = "abc',
    "unterminated-comment": "/* never closed",
    "unterminated-annotation": "let a = num `title: x",
    "lone-emoji": "\U0001F609",
    "emoji-in-error-position": "let \U0001F609 = num;\nres / on get -> <{}>;\n",
    "crlf-and-tabs": "let a = num;\r\n\tres / on get -> <a>;\r\n",
    "huge-number": "let a = 123456789012345678901234;\nres / on get -> <{}>;\n",
    "u64-max-plus-one": "let a = 18446744073709551616;\nres / on get -> <{}>;\n",
    "u64-max": "res / on get -> <status=18446744073709551615, {}>;\n",
    "recursive-property-type": "let x = 'p x;\nres / on get -> <{}>;\n",
    "recursive-function-range": "let f x = f;\nres / on get -> <{}>;\n",
    "recursive-function-binding": "let f x = x f;\nres / on get -> <{}>;\n",
    "recursive-second-binding-only": "let f x y = y;\nlet a = f f num;\nres / on get -> <a>;\n",
    "recursive-first-of-two-bindings": "let f x y = x y x;\nres / on get -> <{}>;\n",
    "recursive-nested-property-function": "let g x = 'p (x g);\nres / on get -> <{}>;\n",
    "only-operators": ":: -> | & ~ ! ? = : ;",
    "nul-bytes": "let a\x00 = num;\x00",
    "status-zero": "res / on get -> <status=0, {}>;\n",
    "bad-annotation-yaml": "# {unclosed: [\nres / on get -> <{}>;\n",
    "trailing-garbage": "res / on get -> <{}>; }}}} )))",
    "quote-annotation-multibyte": "let a = num `title: \"é\U0001F600\"`;\nres / on get -> <a>;\n",
    "path-segment-percent": "res /a%zz/{ 'id num } on get -> <{}>;\n",
}


def regex_attrs():
    """#[regex(...)] / #[token(...)] attribute text per TokenKind variant, read from lexer.rs."""
    src = open(os.path.join(REPO, "oal-syntax/src/lexer.rs"), encoding="utf-8").read()
    out = {}
    for m in re.finditer(r"#\[regex\((.+?)\)\]\s*\n\s*(\w+),", src):
        out[m.group(2)] = m.group(1).strip()
    return out


def digits_from_playback(rdir, only=None):
    """The failing number literal, decoded from Kani's concrete playback test."""
    try:
        txt = open(os.path.join(rdir, "playback_tests.rs")).read()
    except OSError:
        return []
    lits = []
    for test in txt.split("#[test]"):
        if only and not any(n.split("::")[-1] in test for n in only):
            continue
        m = re.search(r"vec!\[(\d+), 0, 0, 0, 0, 0, 0, 0\]", test)
        if not m:
            continue
        n = int(m.group(1))
        ds = [int(x) for x in re.findall(r"vec!\[(\d+)\],", test)]
        s = "".join(chr(d) for d in ds[:n] if 48 <= d <= 57)
        if len(s) == n and n > 0:
            lits.append(s)
    return lits


# valid programs whose token-level mutations (delete / duplicate / swap with the next token) are fed to the
# real front end: an editor produces exactly such texts between two keystrokes
MUTATION_SEEDS = {
    "functions": "let pair x y = { 'first x, 'second y };\nlet id z = z;\nres / on get -> <pair num (id str)>;\n",
    "recursion-and-refs": "let @n = { 'v str, 'next? @n };\nlet t = rec x { 'kids [x] };\nres /n/{ 'id int } on get, put : <@n> -> <status=200, t> :: <status=4XX, {}>;\n",
    "operators-and-annotations": "# description: \"d\"\nlet a = num | str `title: \"t\"`;\nlet b = { 'x a } & { 'y! (a ~ int) };\nres /b?{ 'q str } on get -> <media=\"x/y\", headers={ 'h str }, b>;\n",
    "modules-and-uris": "use \"m.oal\" as m;\nlet u = /a/{ 'k str }/b;\nlet r = u on get -> <m.t>;\nres r;\nres concat /x u on get -> <uri>;\n",
}
TOKEN = re.compile(r"\"[^\"]*\"|`[^`]*`|#[^\n]*\n|//[^\n]*|'[0-9a-zA-Z$@_-]+\??!?|@?[0-9a-zA-Z$_-]+|/[0-9a-zA-Z%~_.-]+|->|::|\s+|.", re.S)


def mutation_texts():
    out = {}
    for name, src in MUTATION_SEEDS.items():
        toks = TOKEN.findall(src)
        idx = [i for i, t in enumerate(toks) if not t.isspace()]
        for k, i in enumerate(idx):
            out["%s/del%d" % (name, k)] = "".join(toks[:i] + toks[i + 1:])
            out["%s/dup%d" % (name, k)] = "".join(toks[:i + 1] + [" "] + toks[i:])
            if k + 1 < len(idx):
                j = idx[k + 1]
                sw = list(toks)
                sw[i], sw[j] = sw[j], sw[i]
                out["%s/swap%d" % (name, k)] = "".join(sw)
    return out


def run_mutations(drv, rdir, texts=None, label="mutation"):
    """Every mutated text through the real single-file compile entry point (oal_wasm::compile, natively), in parallel."""
    import concurrent.futures as cf
    texts = mutation_texts() if texts is None else texts
    crashes = []

    def one(item):
        nm, text = item
        w = run_wasm(drv, text, timeout=30)
        return nm, text, w

    with cf.ThreadPoolExecutor(max_workers=max(2, (os.cpu_count() or 4) - 2)) as ex:
        for nm, text, w in ex.map(one, texts.items()):
            if w["rc"] != 0 or w["status"] is None:
                fn = os.path.join(rdir, label + "-" + nm.replace("/", "-") + ".oal")
                with open(fn, "w", encoding="utf-8") as f:
                    f.write(text)
                crashes.append("oal_wasm::compile on " + label + " %s: exit %s (%s) [%s]" % (nm, w["rc"], (re.search(r"panicked at [^\n]+|overflowed its stack|TIMEOUT", w["out"]) or [""])[0], fn))
    return crashes, len(texts)


def crash_of(res):
    rc = res["rc"]
    return rc not in (0, 1)


def run_nasty(extra=None, tag="nasty"):
    """Feed NASTY texts to the real oal-cli and to the native playground driver."""
    cli = build_cli()
    drv = build_wasmdrv()
    rdir = new_replay_dir("C04", tag)
    texts = dict(NASTY)
    if extra:
        texts.update(extra)
    # cyclic definitions of every shape C09 knows (to be cut, to be rejected, mixed): none may take a front end down
    try:
        import props.c09 as c09
        for k9, (files9, want9, chk9) in c09.PROGRAMS.items():
            if len(files9) == 1:
                texts["cyclic-" + k9] = files9["main.oal"]
    except Exception:
        pass
    # imports as the single-file playground sees them: its own name under other spellings, other files, nothing at all
    for k9, imp9 in enumerate(("main.oal", "./main.oal", "main.oal#v2", "main.oal?draft", "./main.oal#x", "other.oal", "/main.oal", "file:///main.oal", "file:///main.oal#f", "//main.oal", "", "#", "?", "..", "http://example.org/main.oal")):
        texts["import-%d" % k9] = 'use "%s" as m;\nres / on get -> <{}>;\n' % imp9
    # short and deep: nothing but one nested expression (few tokens, many levels)
    for d9 in (12, 16, 20, 28):
        texts["short-deep-parens-%d" % d9] = "let a = " + "(" * d9 + "num" + ")" * d9 + ";\n"
        texts["short-deep-arrays-%d" % d9] = "let a = " + "[" * d9 + "num" + "]" * d9 + ";\n"
    # a long file that ends in a deep nest: whatever the parser remembers must keep working however much came before
    texts["long-file-then-deep-nest"] = "".join("let v%d = { 'a num, 'b [str] };\n" % i for i in range(8000)) + \
        "let z = " + "{ 'n " * 12 + "num" + " }" * 12 + ";\nres / on get -> <z>;\n"
    crashes, detail = [], {}
    family_known = []
    for name, text in texts.items():
        big = len(text) > 100000
        r = run_cli(cli, {"main.oal": text}, workdir=os.path.join(rdir, name), timeout=90 if big else 30)
        w = run_wasm(drv, text, timeout=90 if big else 30)
        detail[name] = {"cli_rc": r["rc"], "wasm_rc": w["rc"], "wasm_status": w["status"]}
        if crash_of(r):
            crashes.append("oal-cli on '%s': exit %s (%s)" % (name, r["rc"], (re.search(r"panicked at [^\n]+|overflowed its stack|TIMEOUT", r["out"]) or [""])[0] if True else ""))
        if w["rc"] != 0 or w["status"] is None:
            crashes.append("oal_wasm::compile on '%s': exit %s (%s)" % (name, w["rc"], (re.search(r"panicked at [^\n]+|overflowed its stack|TIMEOUT", w["out"]) or [""])[0]))
    # the language server's load / evaluate cycle compiles whatever tree comes back, errors or not
    import lspdrv
    lsp = lspdrv.build_lsp()
    muts = mutation_texts()
    sample = {k: v for i, (k, v) in enumerate(sorted(muts.items())) if i % 14 == 0} if tier() == "thorough" else {}
    import concurrent.futures as cf

    def lsp_one(item):
        name, text = item
        d = os.path.join(rdir, "lsp-" + name)
        try:
            a = lspdrv.session(lsp, d, {"main.oal": "res / on get -> <{}>;\n", "oal.toml": '[api]\nmain = "main.oal"\ntarget = "out.yaml"\n'},
                               [("open", "main.oal", text), ("sync", "main.oal")], ("main.oal", {"line": 0, "character": 0}))
        except Exception as exn:
            a = {"alive": False, "exit": str(exn)[:60]}
        return name, a
    items = list(texts.items()) + [("mutation-" + k.replace("/", "-"), v) for k, v in sample.items()]
    with cf.ThreadPoolExecutor(max_workers=12) as pool_:
        for name, a in pool_.map(lsp_one, items):
            detail.setdefault(name, {})["lsp_alive"] = bool(a.get("alive"))
            if not a.get("alive"):
                crashes.append("oal-lsp on '%s': the server died (exit %s)" % (name, a.get("exit")))
    mc, nmut = run_mutations(drv, rdir)
    crashes += mc[:8]
    detail["token-mutations"] = {"texts": nmut, "crashes": len(mc)}
    # every catalogued expression form written into every catalogued position, well typed or not (the site / producer
    # catalogue of C01, with the optional neighbours of each position present and absent)
    try:
        import props.c01 as c01
        fam = c01.every_producer_in_every_site()
        fc, nfam = run_mutations(drv, rdir, texts=fam, label="form-in-position")
        known = Findings()
        fc2 = []
        for cmsg in fc:
            mm = re.search(r"form-in-position ([A-Za-z.]+)-\d+-([a-z0-9-]+):", cmsg)
            kf = known.match("C04", {"mode": "accepted-form-panics", "site": mm.group(1), "form": mm.group(2)}) if mm else None
            if kf:
                detail.setdefault("known_findings", {})[kf.get("what", "")[:60]] = True
                family_known.append(kf)
            else:
                fc2.append(cmsg)
        crashes += fc2[:8]
        detail["forms-in-positions"] = {"texts": nfam, "crashes": len(fc)}
    except Exception as exn:
        crashes.append("forms-in-positions family could not run: %s" % str(exn)[:100])
    with open(os.path.join(rdir, "cmd"), "w") as f:
        f.write("#!/bin/sh\ncd /verif && exec ./check C04 --replay %s\n" % rdir)
    detail["_known"] = family_known
    return crashes, rdir, detail


def check():
    o = Outcome("C04")
    E = mirlib.enums()
    F = Findings()
    o.assumptions = ["Kani: stub Locator; texts in fixed buffers; dev-profile semantics",
                     "token regexes assumed by the harnesses equal the #[regex] attributes in lexer.rs (checked at run time)",
                     "MIR lemmas: callees uninterpreted; Vec::pop returns None iff the vector is empty; Vec::push makes it non-empty",
                     "environment contracts for two unwraps: " + "; ".join("%s: %s" % (a[0], a[2]) for a in ALLOWED_PANICS)]
    o.outside = ["the logos DFA, the parser productions, resolver, evaluator", "stack use for deeply nested input", "the language server beyond opening each nasty text and one request",
                 "number literals longer than 24 digits, quoted/prefixed payloads longer than K characters"]
    thorough = tier() == "thorough"
    k = 6 if thorough else 3
    o.bounds = {"parse_number": "1..=24 ASCII digits", "parse_quoted/prefixed": "payload of <= %d arbitrary scalar values" % k,
                "CharSpan::from": "text of <= %d scalar values, every usize pair" % (6 if thorough else 3), "MIR": "all paths, values unbounded"}
    o.functions = [src_ref("oal-syntax/src/lexer.rs", "fn parse_number"), src_ref("oal-syntax/src/lexer.rs", "fn parse_quoted_string"),
                   src_ref("oal-syntax/src/lexer.rs", "fn parse_prefixed_string"), src_ref("oal-syntax/src/lexer.rs", "fn parse_http_status"),
                   src_ref("oal-model/src/span.rs", "pub fn from(input: &str, span: Span)")]

    # ---- regex attributes the harness domains were written for -------------------------
    attrs = regex_attrs()
    for kind, want in REGEXES.items():
        got = attrs.get(kind)
        same = got == want
        o.query("lexer regex of %s is the one the harness domain covers" % kind, "source/compare", "unsat" if same else "differs", 0)
        if not same:
            o.inconc("token regex of %s changed (%s, harness assumes %s): the Kani harness domain must be re-derived" % (kind, got, want))

    # ---- K ------------------------------------------------------------------------------
    hs = ["lexer::h_lexer::c04_parse_number_total", "lexer::h_lexer::c04_parse_quoted_k%d" % k, "lexer::h_lexer::c04_parse_prefixed_k%d" % k,
          "lexer::h_lexer::c04_parse_http_status_total", "h_unicode::c16_h5_charspan_k%d" % (6 if thorough else 3)]
    extra_texts = {}

    def describe(h, r, pb):
        if "parse_number" in h:
            lits = digits_from_playback(pb["replay_dir"], pb.get("failed_tests"))
            for i, lit in enumerate(lits):
                extra_texts["solver-number-%d" % i] = "let a = %s;\nres / on get -> <{}>;\n" % lit
            return "parse_number panics on a digit string matching [0-9]+ (%s); native playback: %s" % (", ".join(lits[:3]), pb["detail"][:160])
        return pb["detail"][:200]

    kres = kanirun.decide(o, "kern", hs, lambda h: "src/lexer/h_lexer.rs" if "h_lexer" in h else "src/h_unicode.rs",
                          timeout=900 if not thorough else 3000, findings=F,
                          key_of=lambda h, r: {"kernel": h.split("::")[-1].rsplit("_k", 1)[0]}, describe=describe)

    # ---- M ------------------------------------------------------------------------------
    bad = []
    try:
        MS = mirlib.module("oal-syntax")
        MM = mirlib.module("oal-model")
        MC = mirlib.module("oal-compiler")
        ML = mirlib.module("oal-client")
        MW = mirlib.module("oal-wasm")
        MB = mirlib.module("oal-cli")
    except Exception as ex:
        o.inconc("MIR dump failed: %s" % str(ex)[-400:])
        return o.finish()
    L = mirlib.Lemma(o)
    S = L.smt

    def on_sat(name, model):
        bad.append(name)

    # occurs completeness (shared with C07)
    import props.c07 as c07
    enums_d, structs_d = c07.parse_decls(os.path.join(REPO, c07.TAGSRC))
    children = c07.tag_children(enums_d, structs_d)
    obad = []
    c07.occurs_lemma(o, S, MC, E, children, obad)
    # one unification step is sound (shared with C07): a wrong step accepts programs whose evaluation panics
    c07.unify_step_lemmas(o, L, S, MC, E, obad)
    for b in obad:
        if b[1] not in bad:
            bad.append(b[1])

    # "cannot hang" for nested input rests on the parser's memo table: every result is remembered while caching is on
    # (shared with C12) - a table that stops storing makes the parser exponential in the nesting depth
    try:
        import props.c12 as c12
        MMm = mirlib.module("oal-model")
        fsm = (MMm.one(r"^(grammar::)?memoize$"), MMm.one(r"grammar::<impl[^>]*>::lookup$"), MMm.one(r"grammar::<impl[^>]*>::cache$"),
               MMm.one(r"grammar::<impl[^>]*>::without_cache$"), MMm.sel("grammar", "new", ret=r"grammar::Context<"))

        def memo_structural(name, ok, why=None):
            o.query(name, "mirsym/structural", "unsat" if ok else "violated", 0)
            if not ok and (why or name) not in bad:
                bad.append(why or name)
            return ok
        c12.memo_lemmas(o, L, S, E, MMm, MS, fsm, memo_structural, on_sat, bad)
    except KeyError as exn:
        o.inconc("memo lemmas: %s" % str(exn)[:160])
    # an evaluation that does not come back is a crash too: cycles_check must reject what the evaluator cannot cut (shared with C09)
    try:
        import props.c09 as c09
        c09.cycles_lemmas(o, L, S, MC, E, MC.one(r"^(typecheck::)?cycles_check$"), memo_structural, on_sat)
    except KeyError as exn:
        o.inconc("cycles_check lemmas: %s" % str(exn)[:160])
    # ... and on the parser terminating at all: no production re-enters itself before a token has been consumed, every
    # round of a list loop consumes one (lib/prodlemma.py, shared with C11)
    try:
        import prodlemma
        prodlemma.termination(MS, E, o, memo_structural)
    except Exception as exn:
        o.inconc("parser termination: %s" % repr(exn)[:160])

    # tokenize: a number-literal token is only ever stored with a number (the compiler's literal_tag / eval_literal rely on it)
    try:
        f_tok = MS.one(r"^tokenize$")
        ext = mirlib.executor([MS], max_paths=4000)
        i_num = E.index("TokenKind", "LiteralNumber")
        n_num = 0
        okn = True
        for p in ext.run(f_tok, arg_names=["loc", "input"]):
            if p.kind != "backedge":
                continue
            for e in p.calls():
                if e[1] != "TokenList::push":
                    continue
                tok = e[2][1]
                kind, val = ms.proj(tok, ("f", 0), E), ms.proj(tok, ("f", 1), E)
                v1, _ = S.check("tokenize: pushed kind can be LiteralNumber", S.pc(p.pc) + [S.i(ms.disc_of(kind, E)) == i_num])
                if v1 == "sat":
                    v0, _ = S.check("tokenize: pushed kind must be LiteralNumber", S.pc(p.pc) + [S.i(ms.disc_of(kind, E)) != i_num])
                    if v0 == "unsat":
                        n_num += 1
                        if not (val[0] == "variant" and val[2] == "Number"):
                            okn = False
        o.query("tokenize: a LiteralNumber token is stored only together with its numeric value", "mirsym/structural", "unsat" if (okn and n_num > 0) else "violated", 0)
        if not okn or n_num == 0:
            bad.append("tokenize: a LiteralNumber token is stored only together with its numeric value")
    except Exception as exn:
        o.inconc("tokenize number lemma: %s" % str(exn)[:120])

    syntax_contract(o, L, MS, MM, bad, on_sat)
    loader_lemmas(o, L, ML, MW, bad, on_sat)
    span_lemma(o, L, MM, bad, on_sat)
    panic_inventory(o, L, {"oal-syntax": MS, "oal-client": ML, "oal-wasm": MW, "oal-cli": MB}, bad)

    # ---- replay --------------------------------------------------------------------------
    o.samples = [{"harness": h, "verdict": r["verdict"], "covers": r["covers"]} for h, r in kres.items()] + \
                [{"query": q["name"], "verdict": q["verdict"]} for q in o.queries if q["engine"].startswith("mirsym")][:8]
    kani_failed = [h for h, r in kres.items() if r["verdict"] == "FAILED"]
    if True:   # the real-binary oracle is cheap: always run it (replay of a failing lemma, or translator validation)
        crashes, rdir, detail = run_nasty(extra_texts)
        seen_k = set()
        for kf in detail.pop("_known", []):
            if kf.get("what") not in seen_k:
                seen_k.add(kf.get("what"))
                o.known_finding(kf.get("what", "known finding"))
        o.extra["real_front_ends"] = {"texts": len(detail), "crashes": crashes, "detail": detail}
        if bad:
            if crashes:
                o.violation("front end crashes instead of reporting; lemma(s): %s; real runs: %s" % ("; ".join(bad[:3]), "; ".join(crashes[:4])), rdir)
            else:
                o.inconc("UNCONFIRMED: lemma(s) fail (%s) but oal-cli and oal_wasm::compile survive all %d texts" % ("; ".join(bad[:3]), len(detail)))
        elif kani_failed:
            # kernel failures were already replayed natively by kanirun.decide; add the public-API confirmation
            if crashes:
                o.extra["public_api_confirmation"] = crashes[:6]
        elif crashes:
            o.oracle_only("real front ends crash (%s) although every query holds" % crashes[:4], rdir)
    return o.finish()


def all_returns(ex, f, **kw):
    return [p for p in ex.run(f, **kw) if p.kind == "return"]


def syntax_contract(o, L, MS, MM, bad, on_sat):
    """oal_syntax::parse returns no tree only together with at least one error."""
    E = mirlib.enums()
    S = L.smt
    try:
        f_parse = MS.one(r"^parse$")
        f_tok = MS.one(r"^tokenize$")
        f_prog = MS.one(r"^(?:parser::)?parse_program$")
        f_comp = MM.one(r"grammar::<impl[^>]*>::compose_node$")
    except KeyError as e:
        o.inconc(str(e))
        return
    o.functions.extend([mirlib.func_ref(f_parse, "oal-syntax"), mirlib.func_ref(f_tok, "oal-syntax"),
                        mirlib.func_ref(f_prog, "oal-syntax"), mirlib.func_ref(f_comp, "oal-model")])
    NODE = E.index("ParserMatch", "Node")
    # (a) tokenize always returns Some(list)
    ex = mirlib.executor([MS])
    rets = all_returns(ex, f_tok)
    mirlib.check_translator(o, ex, "tokenize")
    if not rets:
        o.inconc("tokenize: no return path")
    for p in rets:
        t0 = ms.proj(p.ret, ("f", 0), E)
        L.expect_unsat("tokenize: always returns Some(token list)", S.pc(p.pc) + [S.i(ms.disc_of(t0, E)) != 1], on_sat)
    # panicking paths inside one iteration of the token loop
    for p in ex.run(f_tok):
        if p.kind == "diverge" and p.info.get("panic"):
            bad.append("tokenize: reachable panic in the token loop: %s" % p.info.get("callee"))
            o.query("tokenize: no panicking construct in the token loop", "mirsym/structural", "violated", 0, callee=p.info.get("callee"))
    # (b) compose_node always returns Node
    ex = mirlib.executor([MM])
    rets = all_returns(ex, f_comp)
    mirlib.check_translator(o, ex, "compose_node")
    for p in rets:
        L.expect_unsat("compose_node: always returns ParserMatch::Node", S.pc(p.pc) + [S.i(ms.disc_of(p.ret, E)) != NODE], on_sat)
    if not rets:
        o.inconc("compose_node: no return path")
    # (c) parse_program returns Ok((cursor, compose_node(..)))
    ex = mirlib.executor([MS])
    rets = all_returns(ex, f_prog)
    mirlib.check_translator(o, ex, "parse_program")
    for p in rets:
        cn = [e for e in p.calls() if e[1].endswith("compose_node")]
        root = ms.proj(ms.proj(ms.proj(p.ret, ("v", "Ok"), E), ("f", 0), E), ("f", 1), E)
        ok = len(cn) == 1
        o.query("parse_program: builds its root with compose_node", "mirsym/structural", "unsat" if ok else "violated", 0)
        if not ok:
            bad.append("parse_program does not build its root with compose_node")
            continue
        L.expect_unsat("parse_program: returns Ok((cursor, compose_node(Program, ..)))",
                       S.pc(p.pc) + [z3.Or(S.i(ms.disc_of(p.ret, E)) != 0, S.v(root) != S.v(cn[0][3]))], on_sat)
    if not rets:
        o.inconc("parse_program: no return path")
    # (d) parse: no tree => an error was pushed, given (a)-(c)
    ex = mirlib.executor([MS])
    rets = all_returns(ex, f_parse)
    mirlib.check_translator(o, ex, "oal_syntax::parse")
    n_none = 0
    for p in rets:
        cond = S.pc(p.pc)
        tk = p.calls("tokenize")
        pp = p.calls("parse_program")
        facts = []
        if tk:
            facts.append(S.i(ms.disc_of(ms.proj(tk[0][3], ("f", 0), E), E)) == 1)
        if pp:
            r = pp[0][3]
            root = ms.proj(ms.proj(ms.proj(r, ("v", "Ok"), E), ("f", 0), E), ("f", 1), E)
            facts.append(z3.Implies(S.i(ms.disc_of(r, E)) == 0, S.i(ms.disc_of(root, E)) == NODE))
            facts.append(z3.Or(S.i(ms.disc_of(r, E)) == 0, S.i(ms.disc_of(r, E)) == 1))
        tree = ms.proj(p.ret, ("f", 0), E)
        errs = ms.proj(p.ret, ("f", 1), E)
        none = S.i(ms.disc_of(tree, E)) == 0
        pushed = errs[0] == "out" and errs[1] == "Vec::push"
        if pushed:
            n_none += 1
            o.query("parse: a path that may return no tree has pushed an error", "mirsym/structural", "unsat", 0)
        else:
            L.expect_unsat("parse: without a pushed error the tree is Some (given tokenize/parse_program/compose_node lemmas)",
                           cond + facts + [none], on_sat)
    if n_none == 0:
        o.inconc("parse: no error-pushing path (vacuous)")


def loader_lemmas(o, L, ML, MW, bad, on_sat):
    """WebLoader::parse's unwrap is unreachable; the other loaders never unwrap the tree."""
    E = mirlib.enums()
    S = L.smt
    # the playground's loader asserts in load() what is_valid() promised: the two must look at the same thing, or an
    # import that passes the validity test takes compile() down with an assertion failure
    try:
        f_iv = MW.one(r"^<impl at oal-wasm/src/lib\.rs[^>]*>::is_valid$")
        f_ld = MW.one(r"^<impl at oal-wasm/src/lib\.rs[^>]*>::load$")
        o.functions += [mirlib.func_ref(f_iv, "oal-wasm"), mirlib.func_ref(f_ld, "oal-wasm")]
        exv = mirlib.executor([MW])
        valid_when = []
        for p in exv.run(f_iv, arg_names=["self", "loc"]):
            if p.kind == "return":
                valid_when.append(z3.And(S.pc(p.pc) + [z3.BoolVal(True) if p.ret == ms.TRUE else z3.BoolVal(False) if p.ret == ms.FALSE else S.b(p.ret)]))
        exl = mirlib.executor([MW])
        n_pan = 0
        for p in exl.run(f_ld, arg_names=["self", "loc"]):
            if p.kind == "diverge" and (p.info or {}).get("panic"):
                n_pan += 1
                L.expect_unsat("WebLoader: load() cannot fail its assertion on a locator that is_valid() accepted", [z3.Or(valid_when)] + S.pc(p.pc), on_sat)
        mirlib.check_translator(o, exv, "WebLoader::is_valid")
        mirlib.check_translator(o, exl, "WebLoader::load")
        if not valid_when:
            o.inconc("WebLoader::is_valid: no returning path")
    except KeyError as e:
        o.inconc("WebLoader: %s" % str(e)[:120])
    specs = [(MW, "oal-wasm", r"^<impl at oal-wasm/src/lib\.rs[^>]*>::parse$", "WebLoader::parse"),
             (ML, "oal-client", r"cli::<impl at oal-client/src/cli/mod\.rs[^>]*>::parse$", "ProcLoader::parse"),
             (ML, "oal-client", r"lsp::<impl at oal-client/src/lsp/mod\.rs[^>]*>::parse$", "WorkspaceLoader::parse")]
    for M, crate, pat, label in specs:
        try:
            f = M.one(pat)
        except KeyError as e:
            o.inconc("%s: %s" % (label, e))
            continue
        o.functions.append(mirlib.func_ref(f, crate))
        ex = mirlib.executor([M])
        outs = ex.run(f)
        mirlib.check_translator(o, ex, label)
        n = 0
        for p in outs:
            if p.kind != "diverge" or not p.info.get("panic"):
                continue
            n += 1
            pe = p.calls("oal_syntax::parse")
            pops = [e for e in p.calls() if e[1].endswith("Vec::pop")]
            if len(pe) != 1:
                bad.append("%s: panic path without a call of oal_syntax::parse" % label)
                continue
            tree = ms.proj(pe[0][3], ("f", 0), E)
            errs = ms.proj(pe[0][3], ("f", 1), E)
            ln = S.fn("len", 1, z3.IntSort())(S.v(errs))
            facts = [ln >= 0, z3.Implies(S.i(ms.disc_of(tree, E)) == 0, ln > 0),
                     z3.Or(S.i(ms.disc_of(tree, E)) == 0, S.i(ms.disc_of(tree, E)) == 1)]
            for e in pops:
                if e[2][0] == ("addr", errs):
                    facts.append((S.i(ms.disc_of(e[3], E)) == 0) == (ln == 0))
            L.expect_unsat("%s: the %s on the tree is unreachable given parse's contract" % (label, p.info.get("callee")),
                           S.pc(p.pc) + facts, on_sat)
        o.extra.setdefault("loader_panic_paths", {})[label] = n


def span_lemma(o, L, MM, bad, on_sat):
    """Context::span(invalid cursor) = end..end+1 without indexing the token list."""
    E = mirlib.enums()
    S = L.smt
    try:
        f = MM.one(r"grammar::<impl[^>]*>::span$", nargs=2)
    except KeyError as e:
        o.inconc("Context::span: %s" % e)
        return
    o.functions.append(mirlib.func_ref(f, "oal-model"))
    ex = mirlib.executor([MM])
    outs = ex.run(f)
    mirlib.check_translator(o, ex, "Context::span")
    seen = False
    for p in outs:
        iv = [e for e in p.calls() if e[1].endswith("is_valid")]
        if p.kind == "diverge" and p.info.get("panic"):
            bad.append("Context::span has a panicking path (%s)" % p.info.get("callee"))
            continue
        if p.kind != "return" or len(iv) != 1:
            continue
        cond = S.pc(p.pc)
        v, _ = S.check("Context::span: invalid-cursor path feasible", cond + [z3.Not(S.b(iv[0][3]))])
        if v != "sat":
            continue
        seen = True
        ends = [e for e in p.calls() if e[1].endswith("::end")]
        news = [e for e in p.calls() if e[1] == "Span::new"]
        toks = [e for e in p.calls() if e[1].endswith("token_span")]
        ok = len(ends) == 1 and len(news) == 1 and not toks and news[0][3] == p.ret
        o.query("Context::span(invalid): builds the span from tokens.end() only, no token lookup", "mirsym/structural", "unsat" if ok else "violated", 0)
        if not ok:
            bad.append("Context::span(invalid cursor) does not return end..end+1")
            continue
        rng = news[0][2][1]
        e0 = ends[0][3]
        L.expect_unsat("Context::span(invalid) == end..end+1",
                       cond + [z3.Or(S.i(ms.proj(rng, ("f", 0), E)) != S.i(e0), S.i(ms.proj(rng, ("f", 1), E)) != S.i(e0) + 1)], on_sat)
    if not seen:
        o.inconc("Context::span: no path for an invalid cursor (vacuous)")


GLUE = [
    ("oal-syntax", r"^parse$"), ("oal-syntax", r"^tokenize$"),
    ("oal-wasm", r"^process$"), ("oal-wasm", r"^compile$"), ("oal-wasm", r"^report$"),
    ("oal-wasm", r"^<impl at oal-wasm/src/lib\.rs[^>]*>::(load|compile|is_valid)$"),
    ("oal-client", r"cli::<impl at oal-client/src/cli/mod\.rs[^>]*>::(report|load|eval|compile|is_valid)$"),
    ("oal-client", r"lsp::<impl at oal-client/src/lsp/mod\.rs[^>]*>::(load|compile|is_valid)$", r"WorkspaceLoader"),
    ("oal-cli", r"^run$"), ("oal-cli", r"^main$"),
]


def panic_inventory(o, L, mods, bad):
    """Every panicking path of the front-end glue is either justified by a stated contract or reported."""
    inv = []
    for entry in GLUE:
        crate, pat = entry[0], entry[1]
        M = mods[crate]
        for f in M.find(pat):
            if len(entry) > 2 and not (f.args and re.search(entry[2], f.args[0][1])):
                continue
            ex = mirlib.executor([M])
            outs = ex.run(f)
            if ex.unknown:
                o.inconc("%s: untranslatable MIR (%s)" % (f.short, ex.unknown[0][:100]))
            for p in outs:
                if p.kind == "limit":
                    o.inconc("%s: path limit" % f.short)
                if p.kind != "diverge" or not p.info.get("panic"):
                    continue
                callee = p.info.get("callee", "")
                fname = f.short.split("::")[-1]
                allowed = [a for a in ALLOWED_PANICS if a[0] == fname and re.search(a[1], callee)]
                # the panic argument tells which value was unwrapped
                arg = ms.show(p.info["args"][0])[:80] if p.info.get("args") else p.info.get("msg", "")
                inv.append({"function": f.short, "callee": callee, "on": arg, "allowed": bool(allowed)})
                if not allowed:
                    bad.append("%s: reachable %s on %s" % (f.short, callee, arg))
    o.extra["panic_paths_in_glue"] = inv
    n_bad = len([i for i in inv if not i["allowed"]])
    o.query("front-end glue: every panicking path rests on a stated environment contract", "mirsym/structural",
            "unsat" if n_bad == 0 else "violated", 0, paths=len(inv), nonvacuous=True)


def replay(path):
    if os.path.exists(os.path.join(path, "meta.json")):
        return kanirun.replay_saved(path)
    crashes, rdir, detail = run_nasty()
    detail.pop("_known", None)
    for k, v in detail.items():
        print(k, v)
    print("crashes:", crashes)
    return 1 if crashes else 0
