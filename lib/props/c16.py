"""C16 - editor positions and byte offsets convert exactly in both directions.

Engine K (Kani/CBMC) over the real oal-client/src/lsp/unicode.rs and
oal-model/src/span.rs, against a byte-level reference (kani/kern/src/refimpl.rs).
"""
import kanirun
from vcommon import Outcome, Findings, src_ref, tier

HS = ["c16_h1_roundtrip", "c16_h2_pos2off", "c16_h3_off2pos", "c16_h4_range", "c16_h5_charspan", "c16_h6_monotone"]


def harnesses():
    # a harness at K covers every text of n <= K characters, so one K per harness suffices
    if tier() == "thorough":
        ks = {h: [6] for h in HS}
    else:
        ks = {h: [4] for h in HS}
    return ["h_unicode::%s_k%d" % (h, k) for h in HS for k in ks[h]]


def check():
    o = Outcome("C16")
    hs = harnesses()
    o.functions = [
        src_ref("oal-client/src/lsp/unicode.rs", "fn position_to_utf8"),
        src_ref("oal-client/src/lsp/unicode.rs", "fn utf8_to_position"),
        src_ref("oal-client/src/lsp/unicode.rs", "fn utf8_range_to_position"),
        src_ref("oal-model/src/span.rs", "fn utf8_to_char_index"),
        src_ref("oal-model/src/span.rs", "pub fn from(input: &str, span: Span)"),
    ]
    o.bounds = {
        "text": "every sequence of <= K Unicode scalar values (kani::any::<char>()), K per harness name (_kN)",
        "offsets": "every usize", "positions": "every (u32 line, u32 character)",
        "unwind": "4K+2 with unwinding assertions on (a too-small bound fails the run)",
    }
    o.outside = ["texts longer than K characters", "lone CR (not followed by LF)",
                 "offsets that are not on a character boundary (except H5)",
                 "columns strictly inside a surrogate pair are only required to stay on a boundary of that line"]
    o.assumptions = ["stub oal_model::locator::Locator (one byte) instead of Arc<Url>",
                     "byte-level reference conversion in /verif/kani/kern/src/refimpl.rs is the oracle",
                     "rustc MIR + Kani codegen + CBMC/CaDiCaL are trusted; dev-profile semantics"]
    res = kanirun.decide(o, "kern", hs, lambda h: "src/h_unicode.rs", timeout=900 if tier() == "quick" else 3000,
                         findings=Findings())
    o.samples = [{"harness": h, "verdict": r["verdict"], "covers": r["covers"], "solver_s": r.get("solver_s")} for h, r in res.items()]
    return o.finish()


def replay(path):
    return kanirun.replay_saved(path)
