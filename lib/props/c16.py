"""C16 - editor positions and byte offsets convert exactly in both directions.

Engine K (Kani/CBMC) over the real oal-client/src/lsp/unicode.rs and
oal-model/src/span.rs, against a byte-level reference (kani/kern/src/refimpl.rs).
"""
import os
import re

import kanirun
from vcommon import Outcome, Findings, src_ref, tier

HS = ["c16_h1_roundtrip", "c16_h2_pos2off", "c16_h3_off2pos", "c16_h4_range", "c16_h5_charspan", "c16_h6_monotone"]


def harnesses():
    # a harness at K covers every text of n <= K characters, so one K per harness suffices
    if tier() == "thorough":
        ks = {h: [6] for h in HS}
    else:
        ks = {h: [4] for h in HS}
    return ["h_unicode::%s_k%d" % (h, k) for h in HS for k in ks[h]]


def build_unidrv():
    import shutil
    import vcommon
    from vcommon import CACHE, REPO, VERIF, run
    d = vcommon.crate_src("drivers/unidrv")
    lock = os.path.join(REPO, "Cargo.lock")
    if os.path.exists(lock):
        shutil.copyfile(lock, os.path.join(d, "Cargo.lock"))
    tdir = os.path.join(CACHE, "drv-target")
    rc, out, t = run(["cargo", "build", "--offline"], cwd=d, timeout=1500,
                     extra_env={"CARGO_TARGET_DIR": tdir, "UNIDRV_REFIMPL": os.path.join(VERIF, "kani", "kern", "src", "refimpl.rs")})
    if rc != 0:
        raise RuntimeError("unidrv build failed:\n" + out[-3000:])
    return os.path.join(tdir, "debug", "unidrv")


def native_replay(o, prop="C16"):
    """The harness conditions H1-H4 and H6 on the real unicode.rs, natively, over every text of <= N characters from
    {a, e-acute, euro, an astral character, LF, CRLF}: validates the Kani model on every run and decides when a harness does not
    finish. -> (lines describing deviations, replay dir)"""
    from vcommon import run, new_replay_dir
    n = 7 if tier() == "thorough" else 6
    rdir = new_replay_dir(prop, "native")
    try:
        drv = build_unidrv()
    except Exception as exn:
        o.inconc("native replay driver: %s" % str(exn)[-200:])
        return [], rdir
    rc, out, t = run([drv, str(n)], timeout=900, mem_gb=4)
    with open(os.path.join(rdir, "output.txt"), "w") as f:
        f.write(out)
    with open(os.path.join(rdir, "cmd"), "w") as f:
        f.write("#!/bin/sh\ncd /verif && exec ./check %s --replay %s\n" % (prop, rdir))
    o.extra["native_replay"] = {"alphabet": "a, U+00E9, U+20AC, U+1F609, LF, CRLF", "max_chars": n, "rc": rc, "summary": out.strip().split("\n")[-1][:80] if out.strip() else ""}
    if rc not in (0, 1):
        o.inconc("native replay driver died (rc=%s)" % rc)
        return [], rdir
    return [l[4:] for l in out.split("\n") if l.startswith("BAD ")], rdir


def check():
    o = Outcome("C16")
    hs = harnesses()
    o.functions = [
        src_ref("oal-client/src/lsp/unicode.rs", "fn position_to_utf8"),
        src_ref("oal-client/src/lsp/unicode.rs", "fn utf8_to_position"),
        src_ref("oal-client/src/lsp/unicode.rs", "fn utf8_range_to_position"),
        src_ref("oal-model/src/span.rs", "fn utf8_to_char_index"),
        src_ref("oal-model/src/span.rs", "pub fn from(input: &str, span: Span)"),
    ]
    o.bounds = {
        "text": "every sequence of <= K Unicode scalar values (kani::any::<char>()), K per harness name (_kN)",
        "offsets": "every usize", "positions": "every (u32 line, u32 character)",
        "unwind": "4K+2 with unwinding assertions on (a too-small bound fails the run)",
    }
    o.outside = ["texts longer than K characters", "lone CR (not followed by LF)",
                 "offsets that are not on a character boundary (except H5)",
                 "columns strictly inside a surrogate pair are only required to stay on a boundary of that line"]
    o.assumptions = ["stub oal_model::locator::Locator (one byte) instead of Arc<Url>",
                     "byte-level reference conversion in /verif/kani/kern/src/refimpl.rs is the oracle",
                     "rustc MIR + Kani codegen + CBMC/CaDiCaL are trusted; dev-profile semantics"]
    res = kanirun.decide(o, "kern", hs, lambda h: "src/h_unicode.rs", timeout=900 if tier() == "quick" else 3000,
                         findings=Findings())
    dev, ndir = native_replay(o)
    if dev and not o.violations:
        undecided = [h for h, r in res.items() if r["verdict"] not in ("SUCCESSFUL", "FAILED")]
        if undecided:
            o.violation("conversion deviates from the byte-level reference (native replay of the harness conditions; %s did not finish under Kani): %s" % (
                ", ".join(h.split("::")[-1] for h in undecided[:3]), "; ".join(dev[:3])), ndir)
        else:
            o.oracle_only("native replay of the harness conditions deviates (%s) although every harness passes" % "; ".join(dev[:3]), ndir)
    o.samples = [{"harness": h, "verdict": r["verdict"], "covers": r["covers"], "solver_s": r.get("solver_s")} for h, r in res.items()]
    return o.finish()


def replay(path):
    if os.path.basename(os.path.normpath(path)).endswith("-native") or "native" in os.path.basename(os.path.normpath(path)):
        o = Outcome("C16")
        dev, _ = native_replay(o)
        print("\n".join(dev) or "no deviation")
        return 1 if dev else 0
    return kanirun.replay_saved(path)
