"""C06 - compilation is deterministic (partial: hash-seed / clock non-interference).

Engine M. Every callee is a deterministic function of its arguments, except a short
list of *seeded primitives* (iteration over HashMap/HashSet, clocks, random state,
thread identity, and any operation on process-global mutable state: a `static` with
interior mutability / `static mut` / thread-local) which receive a hidden seed argument -
the seed stands for the hash keys, the time, and the history of the process. For each function on the
load -> compile -> eval -> emit call graph a two-run query asks whether what the
function returns or writes can differ between two seeds; dependence is propagated up
the call graph to the entry points. Replay: the real oal-cli run repeatedly in fresh
processes (fresh hash seeds) and the real oal_wasm::compile run repeatedly inside one
process (also after an unrelated compilation and on a second thread), outputs compared
byte for byte.
"""
import os
import re

import mirlib
import mirparse as mp
import mirsym as ms
import z3
from vcommon import Outcome, Findings, build_cli, run_cli, new_replay_dir, tier

SEEDED = re.compile(
    r"(HashMap::<.*>::(iter|iter_mut|keys|values|values_mut|into_keys|into_values|drain|retain|extract_if)(::<.*>)?$)|"
    r"(HashSet::<.*>::(iter|drain|retain|extract_if)(::<.*>)?$)|"
    r"(<(&(mut )?)?(std::collections::)?Hash(Map|Set)<.*> as IntoIterator>::into_iter$)|"
    r"(SystemTime::now|Instant::now|RandomState::new|thread::current|thread_rng|process::id)|"
    r"(LocalKey::<.*>::(with|try_with|set|get|take|replace|with_borrow|with_borrow_mut)(::<.*>)?$)")
# process-global mutable state: a reference to a `static` with interior mutability (or a `static mut`) in a
# function body. What such a cell holds depends on what ran before in this process (and on other threads), so
# a call that receives it - fetch_add, load, lock, with, get_or_init ... - is a seeded primitive too.
GLOBAL = re.compile(r"\{alloc\d+: (?:&|\*const |\*mut |&mut )(?:mut )?[^}]*\b(Atomic\w*|Mutex|RwLock|Once\w*|Lazy\w*|\w*Cell|LocalKey|Condvar|Barrier)\b|"
                    r"\{alloc\d+: (?:\*mut |&mut )")
INSENSITIVE = re.compile(
    r"(Iterator>::(any|all|count)(::<.*>)?$)|"
    r"(Iterator>::collect::<(std::collections::)?(HashMap|HashSet|BTreeMap|BTreeSet)<)|"
    r"(as Extend<.*>>::extend.*Hash(Map|Set))|(as FromIterator<.*>>::from_iter.*Hash(Map|Set))")

ENTRY = [("oal-compiler", r"^(module::)?load$"), ("oal-compiler", r"^(compile::)?compile$"), ("oal-compiler", r"^(eval::)?eval$"),
         ("oal-openapi", r"::into_openapi$"), ("oal-openapi", r"<impl at oal-openapi/src/lib\.rs[^>]*>::new$"), ("oal-openapi", r"::with_base$"),
         ("oal-syntax", r"^parse$")]

PROGRAMS = {
    "examples-annotation": "# examples: { a: \"a.json\", b: \"b.json\", c: \"c.json\", d: \"d.json\", e: \"e.json\", f: \"f.json\", g: \"g.json\", h: \"h.json\" }\n"
                           "let c = <{ 'x num }>;\nres /e on get -> c;\nres /p on put : c -> <{}>;\n",
    "refs-and-recursion": "let @a = { 'b? @b };\nlet @b = { 'a? @a, 'n node };\nlet node = { 'left? node, 'right? node };\n"
                          "res /a on get -> <@a> :: <status=404, {}> :: <status=5XX, { 'e str }>;\nres /b on get, put -> <@b>;\n",
    "modules": None,   # filled in below (two modules)
    "merged-annotations": "# description: \"d0\", tags: [a, b, c]\nlet st = str `enum: [draft, active, retired], title: \"t\", examples: {x: \"x.json\", y: \"y.json\"}`;\n"
                          "let ar = st `enum: [retired, deleted, purged, active], examples: {y: \"y2.json\", z: \"z.json\"}`;\n"
                          "# tags: [c, d, a, e], summary: \"s\", operationId: \"op\"\nlet op = get -> <[{ 'st st, 'ar ar }]> `examples: {p: \"p.json\", q: \"q.json\", r: \"r.json\"}`;\n"
                          "# tags: [e, f, a]\nlet op2 = op `tags: [z, a]`;\nres /items on op2;\n"
                          "res /other on (op `tags: [a, b]`), (put : <ar> -> <st>) `tags: [b, a, b]`;\n",
    "references-first-met-as-arguments": "let @alpha = { 'a num };\nlet @bravo = { 'b str };\nlet @charlie = { 'c int };\nlet @delta = { 'd bool };\n"
                                         "let bundle w x y z = { 'w w, 'x x, 'y y, 'z z };\nlet tree a = rec t { 'v a, 'kids [t] };\nlet two p q = { 'p p, 'q q };\n"
                                         "res /bundle on get -> <bundle @alpha @bravo @charlie @delta>;\nres /two on get -> <two (tree int) (tree str)>;\n",
    "rec-inside-applied-functions": "let tree a = rec x { 'value a, 'children [x] };\nlet pair a b = { 'l tree a, 'r tree b };\n"
                                    "res /ints on get -> <tree int>;\nres /strs on get -> <tree str> :: <status=404, pair num bool>;\n",
}


def run_twice(n=6, tag="determinism"):
    cli = build_cli()
    rdir = new_replay_dir("C06", tag)
    diffs, detail = [], {}
    progs = dict(PROGRAMS)
    # several imported modules, each with resources, declarations and references of its own: whatever walks the module set
    # must not leave its order in the document
    progs["resources-and-references-in-five-modules"] = dict(
        [("main.oal", "".join('use "m%d.oal" as m%d;\n' % (i, i) for i in range(5)) + "res /health on get -> <{ " + ", ".join("'k%d m%d.t%d" % (i, i, i) for i in range(5)) + " }>;\n")] +
        [("m%d.oal" % i, "let @r%d = { 'self? @r%d, 'v num };\nlet t%d = { 'next? t%d, 'r @r%d };\nres /m%d on get -> <t%d>;\nres /m%d/{ 'id int } on put : <@r%d> -> <@r%d>;\n" % ((i,) * 10)) for i in range(5)])
    # two imports that bring the same name into the same namespace: whichever wins, it wins every time
    progs["two-imports-with-a-common-name"] = {"main.oal": 'use "a.oal";\nuse "b.oal";\nuse "c.oal" as q;\nuse "d.oal" as q;\nres /items on get -> <item> :: <status=404, q.item>;\n',
                                               "a.oal": "let item = { 'from_a str };\n", "b.oal": "let item = { 'from_b int };\n",
                                               "c.oal": "let item = { 'from_c str };\n", "d.oal": "let item = { 'from_d int };\n"}
    # a long file (more parse results than any bounded table keeps) that ends in implicitly named recursions: whatever is
    # evicted or rebuilt on the way must not show in the generated names
    progs["long-file-then-implicit-recursions"] = "".join("let v%d = { 'a num, 'b [str] };\n" % i for i in range(6000)) + \
        "let tree = rec x { 'kids [x], 'v v17 };\nlet list = { 'next? list, 'v v4242 };\nres /tree on get -> <tree> :: <status=404, list>;\n"
    # plus every program the other checks know to be accepted (3 fresh processes each)
    import pool
    pooled = {"pool-" + k.replace("/", "-"): v for k, v in pool.programs().items() if not k.startswith("c06/")}
    progs.update(pooled)
    for name, src in progs.items():
        if isinstance(src, dict):
            files = src
        else:
            files = {"main.oal": src} if src else {"m.oal": "let t = { 'q str };\nlet u x = [x];\n", "main.oal": 'use "m.oal" as m;\nres /m on get -> <m.u m.t>;\n'}
        outs = []
        for i in range(n if (name in PROGRAMS or name.startswith(("resources-and-", "two-imports-"))) else 3):
            # same sources at the same location every time (implicit component names hash the module URL)
            d = os.path.join(rdir, name)
            try:
                os.remove(os.path.join(d, "out.yaml"))
            except OSError:
                pass
            r = run_cli(cli, files, workdir=d)
            outs.append((r["rc"], r["target"]))
            if i == 0 and r["target"]:
                with open(os.path.join(d, "first-run.yaml"), "w") as f:
                    f.write(r["target"])
        distinct = len(set(outs))
        detail[name] = {"runs": n, "distinct_outputs": distinct, "rc": outs[0][0]}
        if distinct > 1:
            diffs.append("%s: %d distinct outputs in %d fresh processes" % (name, distinct, n))
    # repeated compilation inside one process (the playground entry point): same bytes every time, also after
    # an unrelated compilation and on a second thread
    from vcommon import build_wasmdrv, run
    drv = build_wasmdrv()
    for name, src in progs.items():
        if isinstance(src, dict):
            if len(src) != 1:
                continue
            src = src["main.oal"]
        if not src:
            continue
        rc, out, t = run([drv], stdin=src, timeout=60, mem_gb=4, extra_env={"WASMDRV_REPEAT": "4", "RUST_BACKTRACE": "0"})
        first = out.split("\n", 1)[0]
        detail[name]["in_process"] = first.strip()
        if rc != 0 or not first.startswith("repeat same="):
            diffs.append("%s: in-process driver died (rc=%s)" % (name, rc))
        elif not first.startswith("repeat same=true"):
            diffs.append("%s: repeated in-process compilation of the same text: %s" % (name, first[len("repeat same=false"):].strip()))
    # ... and the output for a text does not depend on which other text the process compiled before: every program is
    # compiled after a sibling of itself (same length, the scalars inside its annotations and string literals changed -
    # the worst case for anything remembered by position) and compared with a process that compiled only it
    # ... nor on what the target file held before: compiled over a longer document of another program, the target has
    # exactly the bytes it gets in a fresh directory
    over = os.path.join(rdir, "over-an-older-target")
    longer = "# an older, much longer document\n" + "x: y\n" * 3000
    for name in ("refs-and-recursion", "examples-annotation"):
        src = PROGRAMS.get(name)
        if not src:
            continue
        # same directory both times: generated component names hash the module's locator
        fresh = run_cli(cli, {"main.oal": src}, workdir=os.path.join(over, name))
        again = run_cli(cli, {"main.oal": src}, workdir=os.path.join(over, name), pre_target=longer)
        detail["over-an-older-target-" + name] = {"same": fresh["target"] == again["target"], "rc": [fresh["rc"], again["rc"]]}
        if fresh["rc"] != 0 or again["rc"] != 0 or fresh["target"] != again["target"]:
            diffs.append("%s: the bytes of the target depend on what the file held before the run" % name)
    nsib = 0
    for name, src in progs.items():
        if isinstance(src, dict):
            if len(src) != 1:
                continue
            src = src["main.oal"]
        sib = sibling(src or "")
        if not src or sib == src:
            continue
        fn = os.path.join(rdir, "then-" + re.sub(r"[^A-Za-z0-9_.-]", "-", name) + ".oal")
        with open(fn, "w") as f:
            f.write(src)
        rc1, after, t = run([drv], stdin=sib, timeout=60, mem_gb=4, extra_env={"WASMDRV_THEN": fn, "RUST_BACKTRACE": "0"})
        rc2, alone, t = run([drv], stdin=src, timeout=60, mem_gb=4, extra_env={"RUST_BACKTRACE": "0"})
        nsib += 1
        if rc1 != 0 or rc2 != 0:
            diffs.append("%s: in-process driver died (rc=%s/%s)" % (name, rc1, rc2))
        elif after != alone:
            diffs.append("%s: the document differs when another text was compiled before it in the same process" % name)
    detail["compiled-after-a-sibling"] = {"programs": nsib}
    with open(os.path.join(rdir, "cmd"), "w") as f:
        f.write("#!/bin/sh\ncd /verif && exec ./check C06 --replay %s\n" % rdir)
    return diffs, rdir, detail


def sibling(src):
    """Same length, same shape: digits and letters inside inline annotations (`..`), line annotations (# ..) and
    string literals are replaced by other digits / letters."""
    def twist(m):
        body = m.group(0)
        out, in_key = [], True
        for i, ch in enumerate(body):
            if ch.isdigit():
                out.append(str((int(ch) + 3) % 10) if ch != "0" else "4")
            else:
                out.append(ch)
        return "".join(out)

    def twist_str(m):
        return '"' + "".join(("x" if c.isalpha() and c.islower() and c != "x" else c) for c in m.group(1)) + '"'
    s2 = re.sub(r"`[^`\n]*`", lambda m: re.sub(r'"([^"\n]*)"', twist_str, twist(m)), src)
    s2 = re.sub(r"(?m)^#[^\n]*$", lambda m: re.sub(r'"([^"\n]*)"', twist_str, twist(m)), s2)
    return s2


def closure_index(M):
    idx = {}
    for f in M.funcs:
        if "{closure#" in f.name and f.args:
            m = re.search(r"\{closure@([^}]+)\}", f.args[0][1])
            if m:
                idx[m.group(1)] = f
    return idx


def callees_of(ex, mods, f, cidx):
    """MIR bodies `f` may call: resolvable callees, closures it builds, fn items it names."""
    out = []
    for b in f.blocks.values():
        if b.cleanup:
            continue
        ps, pt = mp.stmts_of(b)
        if pt[0] == "call":
            tgt = ex.resolve(pt[2], len(pt[3]))
            if tgt is not None:
                out.append(tgt)
            for a in pt[3]:
                if a[0] == "const":
                    m = re.search(r"\{closure@([^}]+)\}", a[1])
                    if m and m.group(1) in cidx:
                        out.append(cidx[m.group(1)])
                    elif "::" in a[1] and not a[1].startswith(('"', "b\"")):
                        for n in (1, 2, 3):
                            t2 = ex.resolve(a[1], n)
                            if t2 is not None:
                                out.append(t2)
        for st in ps:
            if st[0] == "assign" and st[2][0] == "aggr" and st[2][2] and "{closure@" in str(st[2][2]):
                m = re.search(r"\{closure@([^}]+)\}", st[2][2])
                if m and m.group(1) in cidx:
                    out.append(cidx[m.group(1)])
    return out


def check():
    o = Outcome("C06")
    E = mirlib.enums()
    F = Findings()
    try:
        mods = {c: mirlib.module(c) for c in ("oal-compiler", "oal-openapi", "oal-syntax", "oal-model")}
    except Exception as ex:
        o.inconc("MIR dump failed: %s" % str(ex)[-400:])
        return o.finish()
    allmods = list(mods.values())
    exr = mirlib.executor(allmods)
    cidx = {}
    for M in allmods:
        cidx.update(closure_index(M))
    # reachable functions
    roots = []
    for crate, pat in ENTRY:
        fs = mods[crate].find(pat)
        if not fs:
            o.inconc("entry point %s not found in %s" % (pat, crate))
        roots += fs
    seen = {}
    work = list(roots)
    calls = {}
    while work:
        f = work.pop()
        if f.name in seen:
            continue
        seen[f.name] = f
        cs = callees_of(exr, allmods, f, cidx)
        calls[f.name] = cs
        work.extend(cs)
    o.extra["functions_on_the_pipeline"] = len(seen)
    o.assumptions = ["every callee outside the seeded list is a deterministic function of its arguments",
                     "seeded primitives: " + SEEDED.pattern[:200] + " ...; plus every call that receives a reference to a static with interior mutability / a static mut (process history)",
                     "order-insensitive consumers (any/all/count, collect/extend into Hash*/BTree* containers) do not propagate a seed",
                     "trait-object and generic calls are resolved by name and arity inside the four dumps; unresolved ones are third-party and deterministic"]
    o.bounds = {"control": "each function body once, all paths; loops one iteration from an arbitrary state", "values": "unbounded"}
    o.outside = ["non-determinism inside third-party crates (serde_yaml, indexmap, sha2, url)", "the logos-generated DFA functions (no hash container in their MIR text)",
                 "the file system and the environment",
                 "process-global state reached only through third-party crates (the seeded list sees statics referenced from the four crates' own MIR)"]

    dependent = {}          # function name -> evidence
    seeded_syms = set()

    _rc = {}

    def is_seeded(callee, fs, xargs=()):
        if SEEDED.search(callee):
            return True
        for a in xargs:
            for t in ms.subterms(a):
                if t[0] == "c" and isinstance(t[2], str) and GLOBAL.search(t[2]):
                    return True
        if not dependent:
            return False
        # a seed-dependent closure handed to an adaptor makes the adaptor's result seed-dependent
        for a in xargs:
            for t in ms.subterms(a):
                txt = None
                if t[0] == "aggr" and isinstance(t[1], str) and "{closure@" in t[1]:
                    txt = t[1]
                elif t[0] == "c" and "{closure@" in str(t[2]):
                    txt = str(t[2])
                if txt:
                    m = re.search(r"\{closure@([^}]+)\}", txt)
                    if m and m.group(1) in cidx and cidx[m.group(1)].name in dependent:
                        return True
        key = callee
        if key not in _rc:
            hit = []
            for n in range(0, 7):
                t = exr.resolve(callee, n)
                if t is not None:
                    hit.append(t.name)
            _rc[key] = hit
        return any(h in dependent for h in _rc[key])

    def insensitive(callee, fs):
        return bool(INSENSITIVE.search(callee))

    def text_mentions(f):
        for b in f.blocks.values():
            if b.term and (SEEDED.search(b.term) or any(s in b.term for s in seeded_syms_txt)):
                return True
        return False

    L = mirlib.Lemma(o)
    S = L.smt
    changed = True
    rounds = 0
    analysed = set()
    seeded_syms_txt = set()
    big = []
    globals_seen = set()
    while changed and rounds < 12:
        changed = False
        rounds += 1
        for name, f in seen.items():
            if name in dependent:
                continue
            # only functions that call something seeded need to be executed
            direct = False
            for b in f.blocks.values():
                if b.cleanup or not b.term:
                    continue
                ps, pt = mp.stmts_of(b)
                if any(GLOBAL.search(x) for x in b.stmts) or GLOBAL.search(b.term or ""):
                    direct = True
                    globals_seen.add(f.short)
                    break
                if pt[0] == "call" and (is_seeded(pt[2], mp.short_name(pt[2])) or
                                        any(a[0] == "const" and "{closure@" in a[1] and cidx.get(re.search(r"\{closure@([^}]+)\}", a[1]).group(1)) is not None
                                            and cidx[re.search(r"\{closure@([^}]+)\}", a[1]).group(1)].name in dependent for a in pt[3])):
                    direct = True
                    break
                if any(st[0] == "assign" and st[2][0] == "aggr" and st[2][2] and "{closure@" in str(st[2][2]) and
                       cidx.get(re.search(r"\{closure@([^}]+)\}", str(st[2][2])).group(1)) is not None and
                       cidx[re.search(r"\{closure@([^}]+)\}", str(st[2][2])).group(1)].name in dependent for st in ps):
                    direct = True
                    break
            if not direct:
                continue
            if len(f.blocks) > 400:
                big.append(f.short)
                continue
            ex = mirlib.executor(allmods, seeded=is_seeded, seed_insensitive=insensitive, max_paths=3000)
            outs = ex.run(f)
            analysed.add(name)
            if ex.unknown:
                o.inconc("%s: untranslatable MIR (%s)" % (f.short, ex.unknown[0][:80]))
            if any(p.kind == "limit" for p in outs):
                o.inconc("%s: path limit exceeded" % f.short)
            dep = None
            for p in outs:
                if p.kind not in ("return", "backedge"):
                    continue
                obs = []
                if p.ret is not None:
                    obs.append(ex.export(p.state, p.ret))
                obs += [v for v in p.state.heap.values()]
                if p.kind == "backedge":
                    # loop-carried state: what the next iteration (and the code after the loop) will see
                    obs += [ex.export(p.state, val) for key, val in p.state.vals.items() if key in p.state.havocked]
                obs += [e[3] for e in p.events if e[0] == "store"]
                for t in obs:
                    if ms.mentions_seed(t):
                        t1, t2 = ms.subst_seed(t, "#1"), ms.subst_seed(t, "#2")
                        c1 = S.pc([(ms.subst_seed(a, "#1"), op, v) for a, op, v in p.pc])
                        c2 = S.pc([(ms.subst_seed(a, "#2"), op, v) for a, op, v in p.pc])
                        v, m = S.check("%s: two seeds, different result" % f.short, c1 + c2 + [S.v(t1) != S.v(t2)])
                        if v == "sat":
                            dep = ms.show(t)[:200]
                            break
                if dep:
                    break
            o.query("%s does not depend on hash order / clock" % f.short, "mirsym/z3", "sat" if dep else "unsat", 0,
                    seeded_calls=sorted({s for fn, s in ex.seed_sites})[:6], nonvacuous=True)
            if dep:
                dependent[name] = dep
                seeded_syms.add(f.short)
                changed = True
    o.extra["functions_executed"] = len(analysed)
    o.extra["skipped_large_functions"] = big
    o.extra["functions_touching_process_global_state"] = sorted(globals_seen)
    entry_dep = [f.short for f in roots if f.name in dependent]
    chain = [seen[n].short for n in dependent]
    o.extra["seed_dependent_functions"] = chain
    for f in roots:
        o.query("entry point %s is independent of hash seeds and clocks" % f.short, "mirsym/z3",
                "sat" if f.name in dependent else "unsat", 0, nonvacuous=True)
    # witness against vacuity: the seeded list is able to see a hash iteration at all
    probe = [f for M in allmods for f in M.funcs if any(b.term and SEEDED.search(b.term) for b in f.blocks.values())]
    o.extra["functions_with_a_seeded_primitive_anywhere"] = [f.short for f in probe][:12]
    # the last step of a CLI run: what ends up in the target is exactly the document, whatever the file held before
    # (lemma shared with C13) - otherwise the bytes of "the emitted YAML" depend on an earlier run
    fbad = []
    try:
        import props.c13 as c13
        c13.file_content_lemma(o, L, mirlib.module("oal-client"), fbad, lambda name, model: fbad.append(name))
    except Exception as exn:
        o.inconc("write_file lemma: %s" % str(exn)[:120])
    if fbad:
        entry_dep = entry_dep + ["write_file"]
        dependent["write_file"] = "the target file keeps part of what it held before the run (%s)" % fbad[0][:100]
        chain = chain + ["write_file"]
    o.samples = [{"query": q["name"], "verdict": q["verdict"]} for q in o.queries[:12]]
    if True:   # the real-binary oracle is cheap: always run it (replay of a dependent entry point, or translator validation)
        diffs, rdir, detail = run_twice(8 if tier() == "thorough" else 6)
        o.extra["real_cli_repeated_runs"] = detail
        if entry_dep:
            what = "emitted document depends on a hidden seed (hash iteration order, clock or process history): %s; chain: %s; real code: %s" % (
                list(dependent.values())[0][:120], " <- ".join(chain[:6]), "; ".join(diffs[:3]))
            if diffs:
                k = F.match("C06", {"mode": "hash-order", "function": chain[0] if chain else ""})
                if k:
                    o.known_finding(k.get("what", what))
                else:
                    o.violation(what, rdir)
            else:
                o.inconc("UNCONFIRMED: %s depend(s) on a seed but %d fresh oal-cli processes produced identical bytes for every program" % (entry_dep, 6))
        elif diffs:
            o.oracle_only("oal-cli output differs between runs (%s) although no function on the pipeline depends on a seed" % diffs[:2], rdir)
    return o.finish()


def replay(path):
    diffs, rdir, detail = run_twice(8)
    print(detail)
    print("differences:", diffs)
    return 1 if diffs else 0
