"""C10 - modules load once, compile after their imports, import cycles are errors (partial).

Engine M over the MIR of the generic `oal_compiler::module::load`: one step of the
work-list, of the import loops and of the compile loop from an arbitrary state, the
Loader methods, HashMap, petgraph and Vec operations being uninterpreted.
Replay oracle: a recording in-memory Loader (drivers/loaddrv) around the real function, on 9
named graphs plus every import graph over 3 modules (4 in the thorough tier).
"""
import os
import re

import mirlib
import mirsym as ms
import z3
from vcommon import Outcome, CACHE, REPO, VERIF, run, new_replay_dir, tier

GRAPHS = {
    # name: ([(file, [imports], body)], expectation)
    "chain": ([("main.oal", ["a.oal"], "res / on get -> <ta>;"), ("a.oal", ["b.oal"], "let ta = tb;"), ("b.oal", [], "let tb = {};")], "ok"),
    "diamond": ([("main.oal", ["a.oal", "b.oal"], "res / on get -> <ta & tb>;"), ("a.oal", ["c.oal"], "let ta = tc;"),
                 ("b.oal", ["c.oal"], "let tb = tc;"), ("c.oal", [], "let tc = {};")], "ok"),
    "diamond-reordered-uses": ([("main.oal", ["b.oal", "a.oal"], "res / on get -> <ta & tb>;"), ("a.oal", ["c.oal"], "let ta = tc;"),
                                ("b.oal", ["c.oal"], "let tb = tc;"), ("c.oal", [], "let tc = {};")], "ok"),
    "same-file-two-spellings": ([("main.oal", ["a.oal", "./a.oal", "x/../a.oal"], "res / on get -> <ta>;"), ("a.oal", [], "let ta = {};")], "ok"),
    "shared-deep": ([("main.oal", ["a.oal", "d.oal"], "res / on get -> <ta & td>;"), ("a.oal", ["b.oal"], "let ta = tb;"), ("b.oal", ["d.oal"], "let tb = td;"),
                     ("d.oal", [], "let td = {};")], "ok"),
    "two-cycle": ([("main.oal", ["a.oal"], "res / on get -> <{}>;"), ("a.oal", ["b.oal"], "let ta = {};"), ("b.oal", ["a.oal"], "let tb = {};")], "cycle"),
    "self-import": ([("main.oal", ["main.oal"], "res / on get -> <{}>;")], "cycle"),
    "cycle-through-main": ([("main.oal", ["a.oal"], "res / on get -> <{}>;"), ("a.oal", ["main.oal"], "let ta = {};")], "cycle"),
    # imports are relative to the importing module, wherever it lives
    "nested-directories": ([("main.oal", ["lib/api.oal"], "res / on get -> <ta>;"), ("lib/api.oal", ["types.oal", "../top.oal"], "let ta = tt & tp;"),
                            ("lib/types.oal", [], "let tt = {};"), ("top.oal", [], "let tp = {};")], "ok"),
    "same-name-in-two-directories": ([("main.oal", ["lib/a.oal", "b.oal"], "res / on get -> <ta & tb>;"), ("lib/a.oal", ["b.oal"], "let ta = tlb;"),
                                      ("lib/b.oal", [], "let tlb = {};"), ("b.oal", [], "let tb = {};")], "ok"),
    "one-file-reached-by-two-relative-paths": ([("main.oal", ["lib/a.oal", "lib/b.oal"], "res / on get -> <ta & tlb>;"), ("lib/a.oal", ["b.oal", "./b.oal", "../lib/b.oal"], "let ta = tlb;"),
                                                ("lib/b.oal", [], "let tlb = {};")], "ok"),
    "cycle-across-directories": ([("main.oal", ["lib/a.oal"], "res / on get -> <{}>;"), ("lib/a.oal", ["../main.oal"], "let ta = {};")], "cycle"),
    # a use statement may stand anywhere among the statements of a module
    "use-after-a-declaration": ([("main.oal", [], 'let t0 = {};\nuse "a.oal";\nres / on get -> <ta & t0>;'), ("a.oal", [], 'let ta = tb;\nuse "b.oal";'), ("b.oal", [], "let tb = {};")], "ok"),
    "cycle-closed-by-a-late-use": ([("main.oal", ["a.oal"], "res / on get -> <{}>;"), ("a.oal", [], 'let ta = {};\nuse "main.oal";')], "cycle"),
    "missing-late-import": ([("main.oal", [], 'res / on get -> <{}>;\nuse "nope.oal";')], "missing:nope.oal"),
    # the same spelling means different files in different directories: each is looked for where its importer lives
    "same-spelling-present-here-missing-there": ([("main.oal", ["util.oal", "lib/a.oal"], "res / on get -> <tu & ta>;"), ("util.oal", [], "let tu = {};"),
                                                  ("lib/a.oal", ["util.oal"], "let ta = {};")], "missing:lib/util.oal"),
    "same-spelling-missing-there-asked-first": ([("main.oal", ["lib/a.oal", "util.oal"], "res / on get -> <tu & ta>;"), ("util.oal", [], "let tu = {};"),
                                                 ("lib/a.oal", ["util.oal"], "let ta = {};")], "missing:lib/util.oal"),
    "same-spelling-missing-here-present-there": ([("main.oal", ["lib/a.oal"], "res / on get -> <ta>;"), ("lib/a.oal", ["util.oal", "../b.oal"], "let ta = tu;"), ("lib/util.oal", [], "let tu = {};"),
                                                  ("b.oal", ["util.oal"], "let tb = {};")], "missing:util.oal"),
    "missing-import": ([("main.oal", ["a.oal"], "res / on get -> <{}>;"), ("a.oal", ["nope.oal"], "let ta = {};")], "missing:nope.oal"),
}


def build_loaddrv():
    import shutil
    import vcommon
    d = vcommon.crate_src("drivers/loaddrv")
    lock = os.path.join(REPO, "Cargo.lock")
    if os.path.exists(lock):
        shutil.copyfile(lock, os.path.join(d, "Cargo.lock"))
    tdir = os.path.join(CACHE, "drv-target")
    rc, out, t = run(["cargo", "build", "--offline"], cwd=d, timeout=1500, extra_env={"CARGO_TARGET_DIR": tdir})
    if rc != 0:
        raise RuntimeError("loaddrv build failed:\n" + out[-3000:])
    return os.path.join(tdir, "debug", "loaddrv")


def enumerate_graphs(drv, rdir):
    """Every import graph over main + (N-1) modules (self imports included; N=3 quick: 512 graphs, N=4 without
    self imports in thorough: 4096), each module's body using one declaration of every module it imports, plus every
    graph with one extra import of a missing file. Expected from the statement alone: a cycle reachable from main
    => cycle error; otherwise success with exactly the reachable modules loaded, parsed and compiled once, each after
    its imports; a reachable missing import (no reachable cycle) => an error naming it."""
    import itertools
    N = 4 if tier() == "thorough" else 3
    names = ["main.oal"] + ["m%d.oal" % i for i in range(1, N)]
    pairs = [(i, j) for i in range(N) for j in range(N) if (N == 3 or i != j)]
    cases = []
    for mask in range(1 << len(pairs)):
        edges = [pairs[k] for k in range(len(pairs)) if mask >> k & 1]
        cases.append(("g%d" % mask, edges, None))
    # missing-import variants: a sample of the acyclic graphs with one import of a file that does not exist
    for mask in range(0, 1 << len(pairs), 7):
        edges = [pairs[k] for k in range(len(pairs)) if mask >> k & 1]
        cases.append(("x%d" % mask, edges, mask % N))

    def reach(edges):
        seen, work = {0}, [0]
        while work:
            v = work.pop()
            for (a, b) in edges:
                if a == v and b not in seen:
                    seen.add(b)
                    work.append(b)
        return seen

    def cyclic(edges, nodes):
        col = {}

        def dfs(v):
            col[v] = 1
            for (a, b) in edges:
                if a == v and b in nodes:
                    if col.get(b) == 1 or (col.get(b) is None and dfs(b)):
                        return True
            col[v] = 2
            return False
        return any(col.get(v) is None and dfs(v) for v in sorted(nodes))

    text = []
    for cname, edges, missing in cases:
        text.append("##### %s\n" % cname)
        for i in range(N):
            imps = [j for (a, j) in edges if a == i]
            uses = "".join('use "%s";\n' % names[j] for j in imps)
            if missing == i:
                uses += 'use "nowhere.oal";\n'
            rhs = " & ".join(["{}"] + ["t%d" % j for j in imps if j != i and j != 0])
            body = ("res / on get -> <%s>;\n" % rhs) if i == 0 else ("let t%d = %s;\n" % (i, rhs))
            text.append("=== %s\n%s%s" % (names[i], uses, body))
    text = "".join(text)
    with open(os.path.join(rdir, "all-graphs.txt"), "w") as f:
        f.write(text)
    rc, out, t = run([drv], stdin=text, timeout=900, mem_gb=8)
    res = {}
    cur = None
    for line in out.split("\n"):
        if line.startswith("##### "):
            cur = line[6:].strip()
            res[cur] = []
        elif cur is not None and line:
            res[cur].append(line)
    mism = []
    stats = {"graphs": len(cases), "cyclic": 0, "acyclic": 0, "missing": 0, "driver_rc": rc, "modules": N}
    if rc != 0:
        mism.append("all-graphs: driver died (rc=%s)" % rc)
    for cname, edges, missing in cases:
        lines = res.get(cname)
        if not lines:
            mism.append("graph %s (%s): no output" % (cname, edges))
            continue
        last = lines[-1]
        calls = [l.split() for l in lines[:-1]]
        loads = [c[1] for c in calls if c[0] == "load"]
        parses = [c[1] for c in calls if c[0] == "parse"]
        comps = [c[1] for c in calls if c[0] == "compile"]
        R = reach(edges)
        desc = "graph %s imports=%s" % (cname, [(names[a], names[b]) for a, b in edges])
        if last == "PANIC":
            mism.append("%s: the loader panics" % desc)
            continue
        if len(set(loads)) != len(loads) or len(set(parses)) != len(parses) or len(set(comps)) != len(comps):
            mism.append("%s: a module is loaded/parsed/compiled more than once (%s / %s)" % (desc, loads, comps))
            continue
        if cyclic(edges, R):
            stats["cyclic"] += 1
            if missing is not None and missing in R:
                ok = last.startswith("ERR")     # either error is acceptable
            else:
                ok = last.startswith("ERR") and "cycle" in last.lower()
            if not ok:
                mism.append("%s: an import cycle is reachable from main but the result is %s" % (desc, last[:80]))
        elif missing is not None and missing in R:
            stats["missing"] += 1
            if not (last.startswith("ERR") and "nowhere.oal" in last):
                mism.append("%s: a reachable module imports a missing file but the result is %s" % (desc, last[:80]))
        else:
            stats["acyclic"] += 1
            want = {names[i] for i in R}
            if not last.startswith("OK"):
                mism.append("%s: acyclic graph rejected: %s" % (desc, last[:80]))
            elif set(loads) != want or set(comps) != want or set(parses) != want:
                mism.append("%s: loaded %s compiled %s, expected exactly %s" % (desc, sorted(loads), sorted(comps), sorted(want)))
            else:
                for (a, b) in edges:
                    if a in R and comps.index(names[b]) > comps.index(names[a]):
                        mism.append("%s: %s compiled before its import %s" % (desc, names[a], names[b]))
                        break
        if len(mism) > 12:
            break
    return mism[:12], stats


def run_graphs(tag="graphs"):
    drv = build_loaddrv()
    rdir = new_replay_dir("C10", tag)
    mism, detail = [], {}
    for name, (files, expect) in GRAPHS.items():
        text = ""
        for fn, imports, body in files:
            text += "=== %s\n" % fn + "".join('use "%s";\n' % i for i in imports) + body + "\n"
        with open(os.path.join(rdir, name + ".txt"), "w") as f:
            f.write(text)
        rc, out, t = run([drv], stdin=text, timeout=30, mem_gb=4)
        lines = [l for l in out.strip().split("\n") if l]
        calls = [l.split() for l in lines[:-1]]
        last = lines[-1] if lines else ""
        loads = [c[1] for c in calls if c[0] == "load"]
        parses = [c[1] for c in calls if c[0] == "parse"]
        comps = [c[1] for c in calls if c[0] == "compile"]
        detail[name] = {"rc": rc, "result": last[:120], "loads": loads, "compiles": comps}
        if rc != 0 or not last:
            mism.append("%s: driver died (rc=%s)" % (name, rc))
            continue
        if len(set(loads)) != len(loads) or len(set(parses)) != len(parses):
            mism.append("%s: a module was loaded/parsed more than once: %s" % (name, loads))
        ghosts = [x for x in loads if os.path.normpath(x) not in {fn for fn, _, _ in files}]
        if ghosts:
            mism.append("%s: the loader is asked for the text of %s, a module that was never reported to exist" % (name, ghosts))
        if len(set(comps)) != len(comps):
            mism.append("%s: a module was compiled more than once: %s" % (name, comps))
        if expect == "ok":
            names = {fn for fn, _, _ in files}
            if not last.startswith("OK"):
                mism.append("%s: expected success, got %s" % (name, last[:100]))
                continue
            if set(loads) != names or set(comps) != names:
                mism.append("%s: loaded %s compiled %s, expected exactly %s" % (name, sorted(set(loads)), sorted(set(comps)), sorted(names)))
            norm = lambda p: os.path.normpath(p)
            for fn, imports, _ in files:
                for i in imports:
                    i = norm(os.path.join(os.path.dirname(fn), i))
                    if fn in comps and i in comps and comps.index(i) > comps.index(fn):
                        mism.append("%s: %s compiled before its import %s" % (name, fn, i))
        elif expect == "cycle":
            if not (last.startswith("ERR") and "cycle" in last.lower()):
                mism.append("%s: expected a cycle error, got %s" % (name, last[:100]))
        elif expect.startswith("missing:"):
            m = expect.split(":", 1)[1]
            if not (last.startswith("ERR") and m in last):
                mism.append("%s: expected an error naming %s, got %s" % (name, m, last[:100]))
    em, ed = enumerate_graphs(drv, rdir)
    mism += em
    detail["all-graphs"] = ed
    a, b = detail.get("diamond", {}), detail.get("diamond-reordered-uses", {})
    if a.get("result") != b.get("result") or sorted(a.get("compiles", [])) != sorted(b.get("compiles", [])):
        mism.append("result depends on the order of use statements: %s vs %s" % (a.get("result"), b.get("result")))
    with open(os.path.join(rdir, "cmd"), "w") as f:
        f.write("#!/bin/sh\ncd /verif && exec ./check C10 --replay %s\n" % rdir)
    return mism, rdir, detail


def check():
    o = Outcome("C10")
    E = mirlib.enums()
    try:
        M = mirlib.module("oal-compiler")
        f = M.one(r"^(module::)?load$")
    except Exception as ex:
        o.inconc("MIR: %s" % str(ex)[-300:])
        return o.finish()
    o.functions.append(mirlib.func_ref(f, "oal-compiler"))
    o.assumptions = ["Loader methods, HashMap, petgraph (add_node/add_edge/toposort) and Vec are uninterpreted; HashMap::get(k) is Some iff k was inserted (library contract)",
                     "petgraph::toposort returns an order in which the source of every edge precedes its target, or Err on a cycle (library contract)"]
    o.bounds = {"control": "all paths of load(); each of its four loops: one arbitrary iteration from an arbitrary state", "values": "unbounded"}
    o.outside = ["that the steps compose to 'every reachable module exactly once' (needs the deps-map invariant over the whole run)", "Locator::join normalisation (url crate)",
                 "termination of the work-list", "what Loader implementations do"]
    ex = mirlib.executor([M], max_paths=8000)
    outs = ex.run(f, arg_names=["loader", "base"])
    mirlib.check_translator(o, ex, "module::load")
    if any(p.kind == "limit" for p in outs):
        o.inconc("module::load: path limit")
    L = mirlib.Lemma(o)
    S = L.smt
    bad = []

    def on_sat(name, model):
        bad.append(name)

    def structural(name, ok, why=None, **kw):
        o.query(name, "mirsym/structural", "unsat" if ok else "violated", 0, **kw)
        if not ok and (why or name) not in bad:
            bad.append(why or name)
        return ok

    LOAD, PARSE, COMPILE, VALID = "L.Loader::load", "L.Loader::parse", "L.Loader::compile", "L.Loader::is_valid"
    n_new = n_known = n_comp = n_ok = n_cyc = n_invalid = n_join = 0
    for p in outs:
        if p.kind not in ("return", "backedge"):
            continue
        ev = p.events
        calls = p.calls()
        cond = S.pc(p.pc)
        loops = [i for i, e in enumerate(ev) if e[0] == "loop"]
        # --- prologue: the main module
        first_loads = [e for e in calls if e[1] == LOAD]
        if first_loads:
            structural("load(): the first thing loaded is the main module", first_loads[0][2][1] == ("sym", "base"))
        # --- events after the innermost loop head of this path
        tail = ev[loops[-1] + 1:] if loops else ev
        tcalls = [e for e in tail if e[0] == "call"]
        gets = [e for e in tcalls if e[1] == "HashMap::get"]
        if p.kind == "backedge" and gets:
            imp = gets[0][2][1]
            lo = [e for e in tcalls if e[1] == LOAD]
            pa = [e for e in tcalls if e[1] == PARSE]
            edges = [e for e in tcalls if e[1].endswith("::add_edge")]
            ins = [e for e in tcalls if e[1] == "HashMap::insert"]
            push = [e for e in tcalls if e[1] == "Vec::push"]
            addn = [e for e in tcalls if e[1].endswith("::add_node")]
            mins = [e for e in tcalls if e[1] == "ModuleSet::insert"]
            known = S.disc(S.v(gets[0][3])) == 1      # (Option::copied / cloned keep the variant: axiom in lib/smt.py)
            if lo or pa:
                n_new += 1
                L.expect_unsat("import step: a module is loaded/parsed only if it is not yet in the dependency map", cond + [known], on_sat)
                okn = len(lo) == 1 and len(pa) == 1 and len(addn) == 1 and len(edges) == 1 and len(ins) == 1 and len(push) == 1 and len(mins) == 1
                structural("import step (new module): load, parse, register, add node, add edge, record in the map, enqueue - each once", okn)
                if okn:
                    imp_v = imp[1] if imp[0] == "addr" else imp
                    structural("import step (new module): the module recorded in the map is the one that was loaded",
                               lo[0][2][1] == imp and any(t == imp_v for t in ms.subterms(ins[0][2][1])) and ins[0][2][2] == addn[0][3] and push[0][2][1] == addn[0][3])
                    structural("import step (new module): the edge goes from the import to the importer", edges[0][2][1] == addn[0][3] and edges[0][2][2] != addn[0][3])
                    structural("import step (new module): what was parsed is what was loaded",
                               any(t == ms.proj(ms.proj(lo[0][3], ("v", "Ok"), E), ("f", 0), E) for t in ms.subterms(pa[0][2][2])))
            else:
                n_known += 1
                L.expect_unsat("import step: a known module is only linked, never loaded again", cond + [z3.Not(known)], on_sat)
                m = ms.proj(ms.proj(gets[0][3], ("v", "Some"), E), ("f", 0), E)
                # the node may be read through the reference or copied out of the map first
                ms_ = [m] + [ms.proj(ms.proj(e[3], ("v", "Some"), E), ("f", 0), E) for e in tcalls if e[1] in ("Option::copied", "Option::cloned") and e[2][0] == gets[0][3]]
                okk = len(edges) == 1 and not ins and not push and not addn and not mins and \
                    any(t in ms_ for t in ms.subterms(edges[0][2][1]))
                structural("import step (known module): exactly one edge from the known node to the importer, nothing else", okk)
        # --- collecting the imports of the module taken from the work list
        joins = [e for e in tcalls if e[1] == "Locator::join"]
        if joins and p.kind == "backedge":
            n_join += 1
            pops = [e for e in calls if e[1] == "Vec::pop"]
            nws = [e for e in calls if e[1].endswith("::node_weight")]
            cur = None
            for e in nws:
                if pops and e[2][1] == ms.proj(ms.proj(pops[-1][3], ("v", "Some"), E), ("f", 0), E):
                    cur = ms.proj(ms.proj(e[3], ("v", "Some"), E), ("f", 0), E)
            okj = len(joins) == 1 and cur is not None and joins[0][2][0] == cur and \
                any(t[0] == "app" and t[1] == "Import::module" for t in ms.subterms(joins[0][2][1]))
            structural("import collection: an import path is resolved against the locator of the module that contains the use statement "
                       "(the work-list item), as the resolver does", okj)
            va = [e for e in tcalls if e[1] == VALID]
            pu = [e for e in tcalls if e[1] == "Vec::push"]
            okv = len(va) == 1 and any(t == joins[0][3] for t in ms.subterms(va[0][2][1])) and len(pu) == 1 and any(t == joins[0][3] for t in ms.subterms(pu[0][2][1]))
            structural("import collection: the locator that is validated and queued is the joined one", okv)
            if va:
                L.expect_unsat("import collection: an import is queued only if the loader says it is valid", cond + [z3.Not(S.b(va[0][3]))], on_sat)
        comp = [e for e in tcalls if e[1] == COMPILE]
        if comp and p.kind == "backedge":
            n_comp += 1
            nx = [e for e in tcalls if e[1].endswith("Iterator::next")]
            nw = [e for e in tcalls if e[1].endswith("::node_weight")]
            okc = len(comp) == 1 and len(nx) == 1 and len(nw) == 1 and \
                nw[0][2][1] == ms.proj(ms.proj(nx[0][3], ("v", "Some"), E), ("f", 0), E) and \
                any(t == nw[0][3] for t in ms.subterms(comp[0][2][2]))
            structural("compile loop: compiles the module of the next node of the topological order", okc)
            L.expect_unsat("compile loop: continues only if compile returned Ok", cond + [S.i(ms.disc_of(comp[0][3], E)) != 0], on_sat)
            ts = [e for e in calls if e[1] == "toposort"]
            it = [e for e in calls if e[1].endswith("IntoIterator::into_iter")]
            okt = len(ts) == 1 and any(any(t[0] == "app" and t[1] == "Result::map_err" for t in ms.subterms(a)) or any(t == ts[0][3] for t in ms.subterms(a)) for e in it for a in e[2])
            structural("compile loop: iterates the result of toposort(graph), unmodified", okt and not [e for e in calls if e[1].endswith(("::rev", "::reverse", "::sort"))])
        if p.kind == "return":
            d = S.i(ms.disc_of(p.ret, E))
            v, _ = S.check("load(): Ok path", cond + [d == 0])
            if v == "sat":
                n_ok += 1
                ts = [e for e in calls if e[1] == "toposort"]
                structural("load(): Ok only after the topological sort succeeded and the compile loop ran out", len(ts) == 1 and bool(loops))
                if ts:
                    me = [e for e in calls if e[1] == "Result::map_err" and e[2][0] == ts[0][3]]
                    tr = me[0][3] if me else ts[0][3]
                    L.expect_unsat("load(): Ok => toposort returned Ok", cond + [d == 0, S.i(ms.disc_of(tr, E)) != 0], on_sat)
                for e in calls:
                    if e[1] in (LOAD, PARSE, COMPILE):
                        L.expect_unsat("load(): Ok => every %s on the path returned Ok" % e[1], cond + [d == 0, S.i(ms.disc_of(e[3], E)) != 0], on_sat)
            ts = [e for e in calls if e[1] == "toposort"]
            if ts:
                me = [e for e in calls if e[1] == "Result::map_err" and e[2][0] == ts[0][3]]
                tr = me[0][3] if me else ts[0][3]
                v2, _ = S.check("load(): toposort Err path", cond + [S.i(ms.disc_of(tr, E)) == 1])
                if v2 == "sat" and not [e for e in calls if e[1] == COMPILE]:
                    n_cyc += 1
                    L.expect_unsat("load(): a failed topological sort makes load() fail", cond + [S.i(ms.disc_of(tr, E)) == 1, d != 1], on_sat)
            va = [e for e in tcalls if e[1] == VALID]
            if va and not [e for e in tcalls if e[1] == LOAD]:
                v3, _ = S.check("load(): invalid import path", cond + [z3.Not(S.b(va[-1][3]))])
                if v3 == "sat":
                    n_invalid += 1
                    L.expect_unsat("load(): an import that is not valid makes load() fail before anything is loaded", cond + [z3.Not(S.b(va[-1][3])), d != 1], on_sat)
    # the cycle error is a CycleDetected error
    for cf in M.find(r"^(module::)?load::\{closure#\d+\}$"):
        exc = mirlib.executor([M])
        for q in exc.run(cf):
            if q.kind == "return" and any(e[1] == "Error::new" for e in q.calls()):
                en = [e for e in q.calls() if e[1] == "Error::new"][0]
                if "CycleDetected" in ms.show(en[2][0]):
                    o.query("load(): the toposort error is reported as Kind::CycleDetected", "mirsym/structural", "unsat", 0)
    shape = {"new": n_new, "known": n_known, "compile": n_comp, "ok": n_ok, "cycle": n_cyc, "invalid": n_invalid, "join": n_join}
    o.extra["paths_by_role"] = shape
    if min(shape.values()) == 0:
        o.inconc("module::load: a step lemma found no path to talk about (%s)" % shape)
    # what load() iterates over: Program::imports hands out every use statement of the module, wherever it stands
    # (children -> cast; no stage that stops at the first statement of another kind)
    try:
        MSy = mirlib.module("oal-syntax")
        for acc in ("imports", "declarations"):
            fa = [f for f in MSy.funcs if f.kind == "fn" and f.name.split("::")[-1] == acc and len(f.args) == 1 and "Program<" in f.args[0][1]]
            if len(fa) != 1:
                o.inconc("Program::%s not found in the MIR of oal-syntax" % acc)
                continue
            o.functions.append(mirlib.func_ref(fa[0], "oal-syntax"))
            exa = mirlib.executor([MSy])
            rets = [p for p in exa.run(fa[0], arg_names=["self"]) if p.kind == "return"]
            txt = ms.show(rets[0].ret) if len(rets) == 1 else ""
            stages = re.findall(r"Iterator::(\w+)\(", txt)
            structural("Program::%s: every child of the program node is offered to the cast (children -> filter_map, nothing that ends the walk early)" % acc,
                       len(rets) == 1 and "NodeRef::children" in txt and stages == ["filter_map"])
    except Exception as exn:
        o.inconc("Program accessors: %s" % str(exn)[:120])
    o.samples = [{"query": q["name"], "verdict": q["verdict"]} for q in o.queries[:14]]
    mism, rdir, detail = run_graphs()
    o.extra["recording_loader_runs"] = detail
    if bad:
        if mism:
            o.violation("module loading discipline broken; lemma(s): %s; recording loader: %s" % ("; ".join(bad[:3]), "; ".join(mism[:3])), rdir)
        else:
            o.inconc("UNCONFIRMED: lemma(s) fail (%s) but the recording loader sees the expected call sequences on all %d graphs" % ("; ".join(bad[:3]), len(detail)))
    elif mism:
        o.oracle_only("recording loader disagrees (%s) although every lemma holds" % mism[:3], rdir)
    return o.finish()


def replay(path):
    mism, rdir, detail = run_graphs()
    for k, v in detail.items():
        print(k, v)
    print("mismatches:", mism)
    return 1 if mism else 0
