"""C18 - rename is meaning-preserving and never crashes the server (partial).

Engine M over oal-client/src/lsp/handlers.rs (`rename`, `rename_variable`,
`rename_qualifier`, `prepare_rename`, helpers) and oal-compiler/src/resolve.rs:
 * which syntax-node kinds the resolver stores as definitions (read from the MIR of
   declare_variable / declare_import / open_declaration / open_recursion) versus which
   kinds each `K::cast(definition.node(..)).unwrap()` in the handlers can take;
 * an inventory of every panicking path of the handlers, each justified by a stated
   contract or reported;
 * the shape of the edit set of rename_variable.
Replay oracle: annotated programs driven through the real oal-lsp (lib/lspcorpus.py):
every rename request is answered, edits replace exactly the announced name, do not
overlap, and the edited sources compile to the same document.
"""
import os
import re

import mirlib
import mirsym as ms
import z3
from vcommon import Outcome, Findings, new_replay_dir, tier

# panicking constructs of the handlers that rest on a contract of the tree / folder, not on the request
CONTRACTS = [
    (r"Option::unwrap", r"Folder::module\b", "find_folders only yields folders for which Folder::contains(loc), i.e. Folder::module(loc) is Some"),
    (r"Option::unwrap", r"Folder::modules\b", "a folder that contains a module has a module set"),
    (r"Option::unwrap", r"Iterator::nth", "an identifier node always has a parent production"),
    (r"Option::unwrap", r"NodeRef::span|::span\(", "identifier / declaration nodes always contain a token"),
    (r"Option::unwrap", r"Core::definition", "every variable of a successfully compiled module has a definition"),
]


def check():
    o = Outcome("C18")
    E = mirlib.enums()
    F = Findings()
    try:
        ML = mirlib.module("oal-client")
        MC = mirlib.module("oal-compiler")
    except Exception as ex:
        o.inconc("MIR: %s" % str(ex)[-300:])
        return o.finish()
    o.assumptions = ["contracts for unwraps in the handlers: " + "; ".join(c[2] for c in CONTRACTS),
                     "syntax accessors, node_location, find_references are uninterpreted in the lemmas about their callers"]
    o.bounds = {"control": "all paths of each handler; loops: one arbitrary iteration", "values": "unbounded"}
    o.outside = ["that the edited sources mean the same (only checked by the replay oracle on 3 annotated programs)", "rename of an import qualifier from one of its uses",
                 "positions inside a surrogate pair"]
    L = mirlib.Lemma(o)
    S = L.smt
    bad = []

    def structural(name, ok, why=None):
        o.query(name, "mirsym/structural", "unsat" if ok else "violated", 0)
        if not ok and (why or name) not in bad:
            bad.append(why or name)
        return ok

    # ---- which node kinds are definitions? (resolver)
    def_kinds = set()
    for pat in (r"^(resolve::)?declare_variable$", r"^(resolve::)?declare_import$", r"^(resolve::)?open_declaration$", r"^(resolve::)?open_recursion$"):
        try:
            f = MC.one(pat)
        except KeyError as e:
            o.inconc(str(e))
            continue
        o.functions.append(mirlib.func_ref(f, "oal-compiler"))
        ex = mirlib.executor([MC])
        for p in ex.run(f):
            for e in p.calls("Env::declare"):
                for t in ms.subterms(e[2][2]):
                    if t[0] == "app" and t[1] == "External::new":
                        for u in ms.subterms(t[2][0]):
                            if u[0] == "app" and u[1].endswith("AbstractSyntaxNode::node"):
                                def_kinds.add(u[1].split(".")[0])
        mirlib.check_translator(o, ex, f.short)
    o.extra["definition_node_kinds"] = sorted(def_kinds)
    if not def_kinds:
        o.inconc("could not read the definition node kinds from the resolver")

    # ---- handlers: casts of definition nodes must cover every definition kind; other panics need a contract
    handlers = {}
    for nm in ("rename", "rename_variable", "rename_qualifier", "prepare_rename", "find_definition", "find_qualifier", "find_references",
               "node_location", "go_to_definition", "references", "syntax_at"):
        fs = ML.find(r"^(lsp::)?(handlers::)?%s$" % nm)
        if len(fs) == 1:
            handlers[nm] = fs[0]
        else:
            o.inconc("handler %s not found in the MIR dump" % nm)
    for cf in ML.find(r"^(lsp::handlers::)?(syntax_at|prepare_rename|find_folders)::\{closure#\d+\}$"):
        handlers[cf.short] = cf
    inventory = []
    for nm, f in handlers.items():
        o.functions.append(mirlib.func_ref(f, "oal-client"))
        ex = mirlib.executor([ML], max_paths=6000)
        outs = ex.run(f)
        mirlib.check_translator(o, ex, nm)
        # group the casts applied to one definition node: the handler is total over definition kinds if, taken together,
        # the casts it tries before giving up (return) cover them - a path that unwraps a failed cast is a panic
        # the dispatcher hands a handler's Err to `?` and the server's main loop ends: an error a handler makes up itself
        # (not one a callee returned, e.g. a file that cannot be read) takes the server down just like a panic
        own_err = 0
        for p in outs:
            if p.kind == "return" and p.ret[0] == "variant" and p.ret[2] == "Err" and "Result<" in f.ret and "anyhow" in f.ret:
                pay = p.ret[3][0]
                from_callee = any(t[0] == "down" and t[2] == "Err" for t in ms.subterms(pay))
                if not from_callee:
                    own_err += 1
        if "Result<" in f.ret and "anyhow" in f.ret:
            o.query("%s: answers Err only with an error one of its callees returned (never one it makes up: the dispatcher would end the server)" % nm, "mirsym/structural",
                    "unsat" if own_err == 0 else "violated", 0)
            if own_err:
                bad.append("%s returns an error of its own making; the request dispatcher propagates it and the server exits" % nm)
        for p in outs:
            if p.kind != "diverge" or not p.info.get("panic"):
                continue
            callee = p.info.get("callee", "")
            arg = p.info["args"][0] if p.info.get("args") else None
            argtxt = ms.show(arg)[:160] if arg is not None else ""
            entry = {"handler": nm, "callee": callee, "on": argtxt[:100]}
            # unwrap of K::cast(External::node(..))
            m = None
            if arg is not None and arg[0] == "app" and arg[1].endswith("AbstractSyntaxNode::cast") and \
                    any(t[0] == "app" and t[1] == "External::node" for t in ms.subterms(arg)):
                k = arg[1].split(".")[0]
                tried = {k}
                # kinds whose cast the path has already seen fail are excluded; the rest of the definition kinds reach the unwrap
                failed = set()
                for a, op, v in p.pc:
                    if a[0] == "disc" and a[1][0] == "app" and a[1][1].endswith("AbstractSyntaxNode::cast") and a[1][2] == arg[2] and \
                            ((op == "==" and v == 0) or (op == "notin" and 1 in v)):
                        failed.add(a[1][1].split(".")[0])
                uncovered = sorted(def_kinds - {k})
                entry["definition_cast"] = k
                entry["uncovered_definition_kinds"] = uncovered
                name = "%s: unwrapping %s::cast(definition node) is total over the definition kinds %s" % (nm, k, sorted(def_kinds))
                # solver: is there a definition kind for which this cast is None?
                Ksort, consts = z3.EnumSort("DefKind_%s_%d" % (nm, len(inventory)), sorted(def_kinds) or ["none"])
                x = z3.Const("k", Ksort)
                sol = z3.Solver()
                sol.add(z3.Or([x == c for c, n in zip(consts, sorted(def_kinds)) if n != k]) if uncovered else z3.BoolVal(False))
                r = sol.check()
                o.query(name, "tabsym/z3", "sat" if r == z3.sat else "unsat", 0, nonvacuous=True, uncovered=uncovered)
                if r == z3.sat:
                    bad.append("%s unwraps %s::cast on a definition node, but the resolver also stores %s nodes as definitions" % (nm, k, "/".join(uncovered)))
                inventory.append(entry)
                continue
            ok = [c for c in CONTRACTS if re.search(c[0], callee) and re.search(c[1], argtxt)]
            entry["contract"] = ok[0][2] if ok else None
            inventory.append(entry)
            if not ok:
                bad.append("%s: reachable %s on %s without a stated contract" % (nm, callee, argtxt[:80]))
    o.extra["panic_paths_in_handlers"] = inventory
    n_bad = len([i for i in inventory if i.get("contract") is None and not i.get("definition_cast")])
    o.query("handlers: every other panicking path rests on a stated contract of the tree / folder", "mirsym/structural", "unsat" if n_bad == 0 else "violated", 0, paths=len(inventory))

    # Folder::contains and Folder::module agree (the contract used above)
    try:
        f_c = ML.sel("lsp", "contains", arg0=r"&lsp::Folder|&Folder")
        f_m = ML.sel("lsp", "module", arg0=r"&lsp::Folder|&Folder")
        exc = mirlib.executor([ML])
        rc = [p for p in exc.run(f_c, arg_names=["self", "loc"]) if p.kind == "return"]
        rm = [p for p in mirlib.executor([ML]).run(f_m, arg_names=["self", "loc"]) if p.kind == "return"]
        def shape(t):
            """and_then(as_ref(&self.mods), |m| m.get(loc)) -> (receiver term, what the closure returns)"""
            for u in ms.subterms(t):
                if u[0] == "app" and u[1] == "Option::and_then" and len(u[2]) == 2:
                    clo = u[2][1]
                    key = str(clo[1])[len("{closure@"):].rstrip("}") if clo[0] == "aggr" else None
                    cf = [g for g in ML.funcs if key and "{closure#" in g.name and g.args and key in g.args[0][1]]
                    body = None
                    if len(cf) == 1:
                        rr = [q for q in mirlib.executor([ML]).run(cf[0]) if q.kind == "return"]
                        if len(rr) == 1 and rr[0].ret[0] == "app":
                            body = (rr[0].ret[1], len(rr[0].ret[2]))
                    return (u[2][0], clo[2], body)
            return None
        a, b = shape(rc[0].ret) if rc else None, shape(rm[0].ret) if rm else None
        okc = len(rc) == 1 and len(rm) == 1 and a is not None and a == b and a[2] is not None and a[2][0] == "ModuleSet::get" and \
            rc[0].ret[0] == "op" and rc[0].ret[1] == "Eq" and rc[0].ret[3] == ms.C("int", 1)
        structural("Folder::contains(loc) is Folder::module(loc).is_some()", okc)
    except KeyError as e:
        o.inconc(str(e))

    # rename_variable: edit set = declaration identifier + every reference, all with the new name
    if "rename_variable" in handlers:
        ex = mirlib.executor([ML], max_paths=6000)
        outs = ex.run(handlers["rename_variable"], arg_names=["workspace", "folder", "new_name", "definition", "changes"])
        seen_decl = seen_ref = False
        for p in outs:
            te = [e for e in p.calls() if e[1] == "TextEdit::new"]
            fr = p.calls("find_references")
            nl = p.calls("node_location")
            for e in te:
                if not any(t == ("sym", "new_name") for t in ms.subterms(e[2][1])):
                    structural("rename_variable: every edit inserts the new name", False)
            if nl and te and any(t == ms.proj(ms.proj(nl[0][3], ("v", "Ok"), E), ("f", 0), E) for t in ms.subterms(te[0][2][0])):
                seen_decl = True
            if fr and p.kind == "backedge" and te:
                seen_ref = True
            if fr:
                structural("rename_variable: the references renamed are those of the very definition being renamed",
                           any(t == ("sym", "definition") or t == ("addr", ("sym", "definition")) for a in fr[0][2] for t in ms.subterms(a)))
        structural("rename_variable: edits the binder's identifier and every reference", seen_decl and seen_ref)

    # ... and what was collected is what is answered: no rename handler (nor a closure of one) takes an edit out again or
    # reorders and merges them (dedup / retain / truncate / drain / remove / pop / clear on a Vec; remove / retain on the map)
    import mirparse as mp
    shr = []
    for fm in ML.funcs:
        if not re.search(r"(^|::)(rename|rename_variable|rename_qualifier)(::\{closure#\d+\})*$", fm.name):
            continue
        for bb in fm.blocks.values():
            if bb.cleanup or not bb.term:
                continue
            pt = mp.stmts_of(bb)[1]
            if pt[0] == "call" and re.search(r"(Vec::<.*>|HashMap::<.*>|\[.*\])::(dedup|dedup_by|dedup_by_key|retain|retain_mut|truncate|drain|remove|swap_remove|pop|clear|split_off|extract_if)(::<.*>)?$", str(pt[2])):
                shr.append("%s: %s" % (fm.short, str(pt[2]).split("::")[-1][:20]))
    structural("rename: the edit lists only grow (no handler removes, merges or truncates collected edits)", not shr,
               "rename: collected edits are post-processed (%s)" % "; ".join(sorted(set(shr))[:3]))

    # rename collects its edit set through find_references: every edit range is a location that function
    # records (the identifier of a variable bound to the definition), decided by definition equality
    import props.c17 as c17
    try:
        c17.find_references_lemmas(o, L, S, E, ML, ML.one(r"^(lsp::handlers::)?find_references$"), structural, lambda name, model: bad.append(name))
    except KeyError as ex:
        o.inconc("MIR: %s" % str(ex)[-200:])
    if not c17.identity_lemmas(o, L, S, E, lambda name, model: bad.append(name)):
        return o.finish()
    # where the edits go: locations of identifier nodes (node_location lemma and range kernel of C17 / C16)
    c17.location_lemmas(o, E, ML, structural)
    c17.range_kernel(o)

    o.samples = [{"query": q["name"], "verdict": q["verdict"]} for q in o.queries[:12]]
    import lspcorpus
    rdir = new_replay_dir("C18", "lsp-corpus")
    probs, detail = lspcorpus.run(rdir, want=("rename",))
    with open(os.path.join(rdir, "cmd"), "w") as f:
        f.write("#!/bin/sh\ncd /verif && exec ./check C18 --replay %s\n" % rdir)
    o.extra["real_lsp_corpus"] = detail
    if bad:
        if probs:
            what = "rename breaks; lemma(s): %s; real oal-lsp: %s" % ("; ".join(bad[:3]), "; ".join(probs[:3]))
            k = F.match("C18", {"mode": "rename-binding-use"}) if all("does not answer rename" in p for p in probs) else None
            if k:
                o.known_finding(k.get("what", what))
            else:
                o.violation(what, rdir)
        else:
            o.inconc("UNCONFIRMED: lemma(s) fail (%s) but the real oal-lsp renames every annotated identifier correctly" % "; ".join(bad[:3]))
    elif probs:
        o.oracle_only("real oal-lsp deviates (%s) although every lemma holds" % probs[:3], rdir)
    return o.finish()


def replay(path):
    import os
    if "h_unicode" in os.path.basename(os.path.normpath(path)):
        import kanirun
        return kanirun.replay_saved(path)
    if "native" in os.path.basename(os.path.normpath(path)):
        import props.c16 as c16
        return c16.replay(path)
    import lspcorpus
    probs, detail = lspcorpus.run(new_replay_dir("C18", "lsp-corpus"), want=("rename",))
    print(detail)
    print("problems:", probs)
    return 1 if probs else 0
