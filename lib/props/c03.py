"""C03 - every emitted document is closed and structurally valid (partial: anchored mechanisms).

K: `HttpStatus::try_from` for every u64, `parse_http_status` on [1-5]XX.
M: `Builder::http_status_code`; `$ref` emission and component registration use the
same predicate and key; path key and path parameters are derived from the same URI,
segment by segment.
"""
import os
import re

import kanirun
import mirlib
import mirparse as mp
import mirsym as ms
import z3
from vcommon import Outcome, Findings, REPO, build_cli, run_cli, new_replay_dir, src_ref, tier

CORPUS = {
    "path-variable-and-query-parameter-of-the-same-name": "let item = { 'id! int, 'label str };\nres /items/{ 'id int }?{ 'id str, 'limit int } on get -> <status=200, item>;\n"
                                                          "let org = /orgs/{ 'org int };\nlet members = concat org (/members?{ 'org str });\nres members on get -> <status=200, [item]>;\n",
    "path-variable-names-with-punctuation": "let rev = /items/{ 'item-id int }/revisions/{ 'rev_no int };\nres /items/{ 'item-id int } on get -> <{}>;\nres rev on get -> <{}>;\n"
                                            "let joined = concat /plain/{ 'x$y str } (/sub/{ 'a-b-c int });\nres joined on get -> <{}>;\n",
    # path variables whose type is not written as a bare primitive: an explicit reference, an alias, an operator, an annotated type
    "path-variables-typed-through-references-and-operators": "let @itemId = int `minimum: 1`;\nlet slug = str `pattern: \"[a-z-]+\"`;\nlet key = int | str;\n"
                                                             "res /items/{ 'id @itemId } on get -> <{}>;\nres /posts/{ 'slug slug } on get -> <{}>;\nres /any/{ 'key key } on get -> <{}>;\n"
                                                             "res /pair/{ 'a @itemId }/{ 'b (int | num) } on get -> <{}>;\nres /things/{ 'id (rec x int) } on get -> <{}>;\n",
    "paths-that-differ-by-a-trailing-slash": "res /items on get -> <{}>;\nres /items/ on get -> <{}>;\nres / on get -> <{}>;\nres /items/{ 'id int } on get -> <{}>;\nres /items/{ 'id int }/ on get -> <{}>;\n",
    "reference-names-with-punctuation": "let @money$amount = { 'value num, 'currency str };\nlet @line-item = { 'price @money$amount, 'next? @line-item };\nres /invoice on get -> <{ 'total @money$amount, 'lines [@line-item] }>;\n",
    "resources-without-transfers": "let item = /items/{ 'id int };\nres item;\nres /health;\nres concat item /parts/{ 'part str };\nres /other/{ 'k num } on get -> <{}>;\n",
    "refs-explicit": "let @thing = { 'id! int, 'next? @thing };\nlet @name = str;\nres /things on get -> <[@thing]>;\nres /names on get -> <@name>;\n",
    "refs-implicit-recursion": "let tree = rec x { 'children [x] };\nlet node = { 'left? node, 'v num };\nres /t on get -> <tree>;\nres /n on put : <node> -> <node>;\n",
    "refs-annotated": "# description: \"a described thing\", title: \"Thing\"\nlet @d = { 'a num };\n# description: \"a described name\"\nlet @n = str `title: \"N\"`;\nlet @arr = [@d];\nres /d on get -> <@d>;\nres /n on get -> <{ 'n @n, 'arr @arr }>;\n",
    "refs-nested-only": "let @inner = { 'x int };\nlet @outer = { 'inner @inner, 'list [@inner] };\nres /o on post : <@outer> -> <status=201, @outer> :: <status=4XX, { 'err str }>;\n",
    "refs-uri-and-rel": "let @link = /items/{ 'id int };\nlet @r = @link on get -> <{}>;\nres @r;\nres /other on get -> <{ 'self @link, 'rel @r }>;\n",
    "path-params": "let id = 'id int;\nres /a/{ id }/b/{ 'name str } on get -> <{}>;\nres /a/{ id }?{ 'q str } on delete -> <>;\n",
    "path-params-optional": "let item = 'id? int;\nlet q = 'p str;\nres /items/{ item } on get -> <{ item }>;\nres /x/{ 'k? str }/y/{ q ? } on get -> <{}>;\n",
    "status-keys": "res /s on get -> <status=200, {}> :: <status=404, media=\"text/plain\", str> :: <status=5XX, {}> :: <{}>;\nres /n on post : <{}> -> <status=201, {}>;\n",
    "status-default-204": "res /d on delete -> <>;\n",
    "uri-append": "let base = /api/v1;\nlet item = concat base /items/{ 'id int };\nres item on get -> <{}>;\n",
}


def validate_doc(doc):
    """Independent validator for the three anchored families. -> list of problems"""
    probs = []
    comps = (doc.get("components") or {}).get("schemas") or {}

    def walk(x, where):
        if isinstance(x, dict):
            for k, v in x.items():
                if k == "$ref":
                    m = re.match(r"^#/components/schemas/(.+)$", str(v))
                    if not m or m.group(1) not in comps:
                        probs.append("dangling $ref %s at %s" % (v, where))
                else:
                    walk(v, where + "/" + str(k))
        elif isinstance(x, list):
            for i, v in enumerate(x):
                walk(v, where + "/%d" % i)

    walk(doc, "")
    ids = {}
    for path, item in (doc.get("paths") or {}).items():
        for m, op in (item or {}).items():
            if isinstance(op, dict) and op.get("operationId") is not None:
                ids.setdefault(op["operationId"], []).append("%s %s" % (m, path))
    for k, v in ids.items():
        if len(v) > 1:
            probs.append("operationId '%s' is used by %d operations (%s)" % (k, len(v), ", ".join(v[:3])))
    for path, item in (doc.get("paths") or {}).items():
        tvars = re.findall(r"\{([^}]*)\}", path)
        params = [p for p in (item.get("parameters") or []) if p.get("in") == "path"]
        names = [p.get("name") for p in params]
        if sorted(tvars) != sorted(names):
            probs.append("path %s: template variables %s vs path parameters %s" % (path, tvars, names))
        for p in params:
            if p.get("required") is not True:
                probs.append("path %s: path parameter %s not required" % (path, p.get("name")))
        for m, op in item.items():
            if not isinstance(op, dict) or "responses" not in op:
                continue
            for key in op["responses"]:
                k = str(key)
                if k == "default" or re.match(r"^[1-5]XX$", k):
                    continue
                if not (re.match(r"^\d+$", k) and 100 <= int(k) <= 599):
                    probs.append("path %s %s: response key %s" % (path, m, k))
    return probs


KNOWN_IN_CORPUS = []


def run_corpus(tag="corpus"):
    del KNOWN_IN_CORPUS[:]
    cli = build_cli()
    rdir = new_replay_dir("C03", tag)
    probs, detail = [], {}
    import pool
    progs = {name: {"main.oal": src} for name, src in CORPUS.items()}
    # plus every program the other checks know to be accepted: whatever is compiled must be closed and well formed
    progs.update({"pool-" + k.replace("/", "-"): v for k, v in pool.programs().items() if not k.startswith("c03/")})
    for name, files in progs.items():
        r = run_cli(cli, files, workdir=os.path.join(rdir, name))
        if r["rc"] != 0 or not r["target"]:
            detail[name] = {"rc": r["rc"], "note": r["out"][-200:]}
            if r["rc"] not in (0, 1):
                probs.append("%s: oal-cli exit %s" % (name, r["rc"]))
            continue
        try:
            doc = mirlib.yaml_to_obj(r["target"])
        except Exception as ex:
            probs.append("%s: output does not parse as YAML (%s)" % (name, str(ex)[:100]))
            continue
        p = validate_doc(doc)
        detail[name] = {"rc": 0, "problems": p, "paths": list((doc.get("paths") or {}).keys())}
        for x in p:
            m = re.match(r"operationId '([^']*)' is used by", x)
            if m and any(re.search(r"operationId:\s*\"?%s\"?" % re.escape(m.group(1)), t) for t in files.values()):
                KNOWN_IN_CORPUS.append(("operation-id-annotation-reused", "%s: %s" % (name, x)))     # the user's own id, written once, used twice
            else:
                probs.append("%s: %s" % (name, x))
    with open(os.path.join(rdir, "cmd"), "w") as f:
        f.write("#!/bin/sh\ncd /verif && exec ./check C03 --replay %s\n" % rdir)
    return probs, rdir, detail


def strip_refs(t):
    while isinstance(t, tuple) and t and t[0] in ("addr", "deref"):
        t = t[1]
    return t


def same_place(a, b):
    """Equal up to reference / dereference wrappers (a closure sees `&x` where a loop body sees `x`)."""
    return strip_refs(a) == strip_refs(b) or ms.show(a).replace("&", "").replace("*", "") == ms.show(b).replace("&", "").replace("*", "")


def inserted(p, E):
    """(key, value) pairs this iteration adds to the map being built: IndexMap::insert(map, k, v) of a loop body, or the
    (k, v) item a map/filter pipeline hands to collect()."""
    out = []
    for e in p.calls():
        if e[1] == "IndexMap::insert":
            out.append((e[2][1], e[2][2]))
        elif e[1] == "collect::item":
            out.append((ms.proj(e[2][1], ("f", 0), E), ms.proj(e[2][1], ("f", 1), E)))
    return out


def pushed(p):
    """Values this iteration appends to the vector being built: Vec::push(vec, x) or the item handed to collect()."""
    return [e[2][1] for e in p.calls() if e[1] in ("Vec::push", "collect::item")]


def struct_fields(M, struct):
    for f in M.funcs:
        for b in f.blocks.values():
            ps, pt = mp.stmts_of(b)
            for st in ps:
                if st[0] == "assign" and st[2][0] == "aggr" and st[2][1] == "struct" and st[2][4]:
                    if mp.strip_generics(st[2][2]).split("::")[-1] == struct:
                        return list(st[2][4])
    return None


def check():
    o = Outcome("C03")
    E = mirlib.enums()
    F = Findings()
    thorough = tier() == "thorough"
    o.assumptions = ["callees are uninterpreted; Option::is_none(x) <=> discriminant(x) == None",
                     "NonZeroU16 -> u16 `into` is value preserving (std)", "stub Locator in Kani harnesses"]
    o.bounds = {"HttpStatus::try_from": "every u64", "MIR lemmas": "all paths, values unbounded; loops: one arbitrary iteration"}
    o.outside = ["that every Ref name the evaluator emits is registered in spec.refs", "operationId uniqueness", "YAML parse-back (serde_yaml)",
                 "what Builder::schema/value_schema compute"]
    o.functions = [src_ref("oal-syntax/src/atom.rs", "fn try_from(v: u64)"), src_ref("oal-syntax/src/lexer.rs", "fn parse_http_status")]
    bad = []

    # ---- K -------------------------------------------------------------------------------
    kres = kanirun.decide(o, "kern", ["h_kernels::c03_http_status_try_from", "lexer::h_lexer::c04_parse_http_status_total"],
                          lambda h: "src/h_kernels.rs" if "h_kernels" in h else "src/lexer/h_lexer.rs", timeout=600, findings=F)
    src = open(os.path.join(REPO, "oal-syntax/src/lexer.rs"), encoding="utf-8").read()
    m = re.search(r"#\[regex\((.+?)\)\]\s*\n\s*LiteralHttpStatus,", src)
    same = bool(m) and m.group(1).strip() == '"[1-5]XX"'
    o.query("lexer: LiteralHttpStatus regex is [1-5]XX", "source/compare", "unsat" if same else "differs", 0)
    if not same:
        o.inconc("LiteralHttpStatus regex changed: %s" % (m.group(1) if m else None))

    # ---- M -------------------------------------------------------------------------------
    try:
        M = mirlib.module("oal-openapi")
        MC = mirlib.module("oal-compiler")
    except Exception as ex:
        o.inconc("MIR dump failed: %s" % str(ex)[-400:])
        return o.finish()
    L = mirlib.Lemma(o)
    S = L.smt

    def on_sat(name, model):
        bad.append(name)

    def structural(name, ok, why=None):
        o.query(name, "mirsym/structural", "unsat" if ok else "violated", 0)
        if not ok:
            bad.append(why or name)
        return ok

    # (1) http_status_code
    try:
        f = M.one(r"::http_status_code$")
        o.functions.append(mirlib.func_ref(f, "oal-openapi"))
        ex = mirlib.executor([M])
        outs = [p for p in ex.run(f, arg_names=["self", "status"]) if p.kind == "return"]
        mirlib.check_translator(o, ex, "http_status_code")
        st = ("deref", ("sym", "status"))
        ranges = E.variants("HttpStatusRange")
        want = {"Info": 1, "Success": 2, "Redirect": 3, "ClientError": 4, "ServerError": 5}
        seen = set()
        for p in outs:
            cond = S.pc(p.pc)
            nm = str(p.ret[1]) if p.ret[0] == "aggr" else ""
            if nm.endswith("StatusCode::Code"):
                seen.add("Code")
                L.expect_unsat("http_status_code: Code only for HttpStatus::Code", cond + [S.disc(S.v(st)) != E.index("HttpStatus", "Code")], on_sat)
                code = ms.proj(ms.proj(st, ("v", "Code"), E), ("f", 0), E)
                # NonZeroU16 -> u16 by any of the lossless conversions (into / get / u16::from), applied to that very code
                cv = p.ret[2][0]
                okc = cv[0] == "app" and re.search(r"(Into::into|NonZero\w*::get|NonZero::<u16>::get|From::from|::get)$", cv[1]) is not None and \
                    len(cv[2]) == 1 and (cv[2][0] == code or cv[2][0] == ("addr", code))
                structural("http_status_code: StatusCode::Code carries the status' own code", okc)
            elif nm.endswith("StatusCode::Range"):
                rng = ms.proj(ms.proj(st, ("v", "Range"), E), ("f", 0), E)
                L.expect_unsat("http_status_code: Range only for HttpStatus::Range", cond + [S.disc(S.v(st)) != E.index("HttpStatus", "Range")], on_sat)
                for i, rn in enumerate(ranges or []):
                    v, _ = S.check("http_status_code: path feasible for %s" % rn, cond + [S.disc(S.v(rng)) == i])
                    if v == "sat":
                        seen.add(rn)
                        L.expect_unsat("http_status_code: %s -> %dXX" % (rn, want[rn]), cond + [S.disc(S.v(rng)) == i, S.i(p.ret[2][0]) != want[rn]], on_sat)
            else:
                structural("http_status_code: returns StatusCode::Code or ::Range", False, "http_status_code returns %s" % ms.show(p.ret)[:80])
        if seen != set(["Code"] + list(want)):
            o.inconc("http_status_code: not every status class reaches a return (%s)" % sorted(seen))
    except KeyError as e:
        o.inconc(str(e))

    # default status of an empty content and number -> status conversion in the evaluator
    try:
        f = MC.one(r"^eval::eval_content$|^eval_content$")
        ex = mirlib.executor([MC])
        consts = set()
        for p in ex.run(f):
            for e in p.calls():
                if e[1].endswith("try_from") and e[2] and e[2][0][0] == "c" and e[2][0][1] == "int":
                    consts.add(e[2][0][2])
        okd = bool(consts) and all(100 <= c <= 599 for c in consts)
        structural("eval_content: the default status constant lies in 100..=599 (%s)" % sorted(consts), okd)
        f = MC.one(r"cast_http_status$")
        o.functions.append(mirlib.func_ref(f, "oal-compiler"))
        ex = mirlib.executor([MC])
        for p in ex.run(f):
            if p.kind != "return":
                continue
            cond = S.pc(p.pc)
            v, _ = S.check("cast_http_status: Number path", cond + [S.disc(S.v(ms.proj(("sym", "from"), ("f", 0), E))) == E.index("Expr", "Number")])
            if v == "sat" and p.ret[0] == "variant" and p.ret[2] == "Ok":
                tf = [e for e in p.calls() if e[1].endswith("try_from")]
                n = ms.proj(ms.proj(ms.proj(("sym", "from"), ("f", 0), E), ("v", "Number"), E), ("f", 0), E)
                structural("cast_http_status: a number becomes a status only through HttpStatus::try_from(n)",
                           len(tf) == 1 and tf[0][2] == (n,) and ms.proj(ms.proj(tf[0][3], ("v", "Ok"), E), ("f", 0), E) in list(ms.subterms(p.ret)))
    except KeyError as e:
        o.inconc(str(e))

    ref_closure_lemmas(o, L, S, M, E, structural, on_sat)

    # (3) path key and path parameters from the same URI
    try:
        f_ap = M.one(r"::all_paths$")
        f_rpi = M.one(r"::relation_path_item$")
        f_up = M.one(r"::uri_params$")
        f_ppp = M.one(r"::prop_path_param$")
        f_ppd = M.one(r"::prop_param_data$")
        f_pw = MC.one(r"spec::<impl[^>]*>::pattern_with$")
        f_pat = MC.one(r"spec::<impl[^>]*>::pattern$")
        f_patc = MC.one(r"spec::<impl[^>]*>::pattern::\{closure#0\}$")
        o.functions.extend(mirlib.func_ref(f, "oal-openapi") for f in (f_ap, f_rpi, f_up, f_ppp, f_ppd))
        o.functions.extend(mirlib.func_ref(f, "oal-compiler") for f in (f_pw, f_pat, f_patc))
        ex = mirlib.executor([M])
        n_item = 0
        for p in ex.run(f_ap, arg_names=["self"]):
            if p.kind != "backedge":
                continue
            items = inserted(p, E)
            if not items:
                continue
            n_item += 1
            nx = [e for e in p.calls() if e[1].endswith("Iterator::next")]
            rel = ms.proj(ms.proj(nx[-1][3], ("v", "Some"), E), ("f", 0), E)
            pat = p.calls("Uri::pattern")
            rpi = p.calls("Builder::relation_path_item")
            okp = len(items) == 1 and len(pat) == 1 and len(rpi) == 1 and same_place(rpi[0][2][1], rel) and \
                ms.show(strip_refs(pat[0][2][0])).replace("*", "").replace("&", "").startswith(ms.show(strip_refs(rel)).replace("*", "").replace("&", "")) and \
                items[0][0] == pat[0][3] and any(t == rpi[0][3] for t in ms.subterms(items[0][1]))
            structural("all_paths: key = rel.uri.pattern(), item = relation_path_item(rel) of the same relation", okp)
        if n_item == 0:
            o.inconc("all_paths: no iteration adds a path item")
        mirlib.check_translator(o, ex, "all_paths")
        pif = struct_fields(M, "PathItem")
        ex = mirlib.executor([M])
        outs = ex.run(f_rpi, arg_names=["self", "rel"])
        mirlib.check_translator(o, ex, "relation_path_item")
        nret = 0
        for p in outs:
            if p.kind != "return":
                continue
            nret += 1
            up = p.calls("Builder::uri_params")
            uri = ("addr", ms.proj(("deref", ("sym", "rel")), ("f", 0), E))
            okp = pif is not None and "parameters" in pif and len(up) == 1 and up[0][2][1] == uri and \
                ms.proj(p.ret, ("f", pif.index("parameters")), E) == up[0][3]
            structural("relation_path_item: parameters = uri_params(rel.uri), untouched by the per-method loop", okp)
        if nret == 0:
            o.inconc("relation_path_item: no return path")
        # uri_params: first loop, one iteration
        ex = mirlib.executor([M])
        outs = ex.run(f_up, arg_names=["self", "uri"])
        mirlib.check_translator(o, ex, "uri_params")
        nvar = nlit = 0
        for p in outs:
            if p.kind != "backedge":
                continue
            nx = [e for e in p.calls() if e[1].endswith("Iterator::next")]
            if not nx:
                continue
            # the iterations over the path segments: the element's variant (Variable / Literal) is what the path forks on
            seg = ex.raw_deref(p.state, ms.proj(ms.proj(nx[-1][3], ("v", "Some"), E), ("f", 0), E))
            segs = [a for a, op, v in p.pc if a[0] == "disc" and strip_refs(a[1]) == strip_refs(seg)]
            if not segs:
                continue
            cond = S.pc(p.pc)
            pushes = pushed(p)
            ppp = p.calls("Builder::prop_path_param")
            isvar = S.disc(S.v(segs[0][1])) == E.index("UriSegment", "Variable")
            seg = segs[0][1]
            if pushes:
                nvar += 1
                L.expect_unsat("uri_params: a path parameter is pushed only for a Variable segment", cond + [z3.Not(isvar)], on_sat)
                prop = ("addr", ex.raw_deref(p.state, ms.proj(ms.proj(seg, ("v", "Variable"), E), ("f", 0), E)))
                okp = len(pushes) == 1 and len(ppp) == 1 and same_place(ppp[0][2][1], prop) and any(t == ppp[0][3] for t in ms.subterms(pushes[0]))
                structural("uri_params: exactly one Parameter (prop_path_param of that segment's property) per Variable segment", okp)
            else:
                nlit += 1
                L.expect_unsat("uri_params: nothing is pushed only for a Literal segment", cond + [isvar], on_sat)
        if nvar < 1 or nlit < 1:
            o.inconc("uri_params loop body: expected a Variable and a Literal path, got %d/%d" % (nvar, nlit))
        ex = mirlib.executor([M])
        for p in ex.run(f_ppp, arg_names=["self", "prop"]):
            if p.kind == "return":
                ppd = p.calls("Builder::prop_param_data")
                okp = p.ret[0] == "aggr" and str(p.ret[1]).endswith("Parameter::Path") and len(ppd) == 1 and \
                    ppd[0][2][1] == ("sym", "prop") and ppd[0][2][2] == ms.TRUE and p.ret[2][0] == ppd[0][3]
                structural("prop_path_param: Parameter::Path with required = true", okp)
        pdf = struct_fields(M, "ParameterData")
        ex = mirlib.executor([M])
        for p in ex.run(f_ppd, arg_names=["self", "prop", "required"]):
            if p.kind == "return":
                nmf = ms.proj(("deref", ("sym", "prop")), ("f", 0), E)
                okp = pdf is not None and ms.proj(p.ret, ("f", pdf.index("required")), E) == ("sym", "required") and \
                    any(t == nmf for t in ms.subterms(ms.proj(p.ret, ("f", pdf.index("name")), E)))
                structural("prop_param_data: name comes from prop.name, required from the argument", okp)
        # pattern_with: one iteration
        ex = mirlib.executor([MC])
        outs = ex.run(f_pw, arg_names=["self", "f"])
        mirlib.check_translator(o, ex, "pattern_with")
        nvar = nlit = 0
        for p in outs:
            if p.kind != "backedge":
                continue
            nx = [e for e in p.calls() if e[1].endswith("Iterator::next")]
            seg = ex.raw_deref(p.state, ms.proj(ms.proj(nx[0][3], ("v", "Some"), E), ("f", 0), E))
            cond = S.pc(p.pc)
            slash = [e for e in p.calls() if e[1] == "String::push" and "'/'" in ms.show(e[2][1])]
            ps = [e for e in p.calls() if e[1] == "String::push_str"]
            fc = [e for e in p.calls() if e[1].endswith("Fn::call")]
            isvar = S.disc(S.v(seg)) == E.index("UriSegment", "Variable")
            if fc:
                nvar += 1
                L.expect_unsat("pattern_with: the formatter is applied only to a Variable segment", cond + [z3.Not(isvar)], on_sat)
                prop = ("addr", ex.raw_deref(p.state, ms.proj(ms.proj(seg, ("v", "Variable"), E), ("f", 0), E)))
                okp = len(slash) == 1 and len(ps) == 1 and len(fc) == 1 and any(t == prop for t in ms.subterms(fc[0][2][1])) and \
                    any(t == fc[0][3] for t in ms.subterms(ps[0][2][1]))
                structural("pattern_with: a Variable segment contributes '/' ++ f(property)", okp)
            else:
                nlit += 1
                L.expect_unsat("pattern_with: text is copied verbatim only for a Literal segment", cond + [isvar], on_sat)
                lit = ms.proj(ms.proj(seg, ("v", "Literal"), E), ("f", 0), E)
                okp = len(slash) == 1 and len(ps) == 1 and any(t == lit for t in ms.subterms(ps[0][2][1]))
                structural("pattern_with: a Literal segment contributes '/' ++ its text", okp)
        if nvar < 1 or nlit < 1:
            o.inconc("pattern_with loop body: expected a Variable and a Literal path, got %d/%d" % (nvar, nlit))
        ex = mirlib.executor([MC])
        for p in ex.run(f_pat, arg_names=["self"]):
            if p.kind == "return":
                pw = p.calls("Uri::pattern_with")
                okp = len(pw) == 1 and pw[0][3] == p.ret and pw[0][2][0] == ("sym", "self") and "closure@" in ms.show(pw[0][2][1])
                structural("Uri::pattern = pattern_with(self, its own closure)", okp)
        ex = mirlib.executor([MC])
        for p in ex.run(f_patc):
            if p.kind == "return":
                a = [e for e in p.calls() if e[1] == "Arguments::new"]
                d = [e for e in p.calls() if e[1].endswith("new_display")]
                prm = ("sym", f_patc.debug.get(f_patc.args[1][0], "arg2"))
                nm = ("addr", ms.proj(("deref", prm), ("f", 0), E))
                pieces = str(a[0][2][0][2]) if a else ""
                okp = len(a) == 1 and len(d) == 1 and d[0][2] == (nm,) and re.search(r"\{\\xc0.*\}", pieces) is not None
                structural("Uri::pattern closure: renders a variable as \"{\" ++ property.name ++ \"}\"", okp)
    except KeyError as e:
        o.inconc(str(e))

    # (4) operationId synthesis: different paths must not get the same identifier
    opid_known = operation_id_lemma(o, L, M, bad, F)

    o.samples = [{"harness": h, "verdict": r["verdict"]} for h, r in kres.items()] + \
                [{"query": q["name"], "verdict": q["verdict"]} for q in o.queries if q["engine"].startswith("mirsym")][:10]
    if True:   # the real-binary oracle is cheap: always run it (replay of a failing lemma, or translator validation)
        probs, rdir, detail = run_corpus()
        o.extra["real_cli_corpus"] = detail
        for mode, msg in KNOWN_IN_CORPUS:
            k = F.match("C03", {"mode": mode})
            if k:
                if k.get("what") not in o.known:
                    o.known_finding(k["what"])
            else:
                probs.append(msg)
        if bad:
            if probs:
                o.violation("emitted document not closed/valid; lemma(s): %s; real oal-cli output: %s" % ("; ".join(bad[:3]), "; ".join(probs[:4])), rdir)
            else:
                o.inconc("UNCONFIRMED: lemma(s) fail (%s) but the validator finds nothing wrong in the documents oal-cli emits for the corpus" % "; ".join(bad[:3]))
        elif probs:
            o.oracle_only("validator reports %s although every lemma holds" % probs[:3], rdir)
    return o.finish()


def ref_closure_lemmas(o, L, S, M, E, structural, on_sat):
    """$ref emission == component registration: the same predicate (maybe_inline is None) and the same key decide both
    (shared with C02: a declared reference that is emitted as a $ref but not registered is a schema the document lost)."""
    # (2) $ref emission == component registration
    try:
        f_ref = M.one(r"::reference_schema$")
        f_all = M.one(r"::all_components$")
        o.functions.extend([mirlib.func_ref(f_ref, "oal-openapi"), mirlib.func_ref(f_all, "oal-openapi")])
        ex = mirlib.executor([M])
        outs = [p for p in ex.run(f_ref, arg_names=["self", "name"]) if p.kind == "return"]
        mirlib.check_translator(o, ex, "reference_schema")
        n_ref = 0
        for p in outs:
            cond = S.pc(p.pc)
            mi = p.calls("Builder::maybe_inline")
            if len(mi) != 1 or mi[0][2] != (("sym", "self"), ("sym", "name")):
                structural("reference_schema: decides with maybe_inline(self, name)", False)
                continue
            none = S.disc(S.v(mi[0][3])) == 0
            isref = p.ret[0] == "aggr" and str(p.ret[1]).endswith("ReferenceOr::Reference")
            if isref:
                n_ref += 1
                L.expect_unsat("reference_schema: a $ref is emitted only when maybe_inline(name) is None", cond + [z3.Not(none)], on_sat)
                unt = p.calls("Ident::untagged")
                fmt = [e for e in p.calls() if e[1] == "Arguments::new"]
                okk = len(unt) == 1 and unt[0][2] == (("sym", "name"),) and len(fmt) == 1 and \
                    "#/components/schemas/" in str(fmt[0][2][0][2]) and any(t == unt[0][3] for t in ms.subterms(fmt[0][2][1]))
                structural("reference_schema: target is \"#/components/schemas/\" ++ untagged(name)", okk)
            else:
                L.expect_unsat("reference_schema: no $ref (inlined value) only when maybe_inline(name) is Some", cond + [none], on_sat)
        if n_ref != 1:
            o.inconc("reference_schema: expected exactly one $ref-emitting path, found %d" % n_ref)
        ex = mirlib.executor([M])
        outs = ex.run(f_all, arg_names=["self"])
        mirlib.check_translator(o, ex, "all_components")
        n_ins = n_skip = 0
        for p in outs:
            if p.kind != "backedge":
                continue
            cond = S.pc(p.pc)
            nx = [e for e in p.calls() if e[1].endswith("Iterator::next")]
            mi = p.calls("Builder::maybe_inline")
            ins = inserted(p, E)
            if len(nx) != 1 or len(mi) != 1:
                structural("all_components: each entry is tested with maybe_inline once", False)
                continue
            name = ms.proj(ms.proj(ms.proj(nx[0][3], ("v", "Some"), E), ("f", 0), E), ("f", 0), E)
            none = S.disc(S.v(mi[0][3])) == 0
            structural("all_components: maybe_inline is asked about the entry's own name", same_place(mi[0][2][1], name))
            if ins:
                n_ins += 1
                L.expect_unsat("all_components: an entry is registered only when maybe_inline(name) is None", cond + [z3.Not(none)], on_sat)
                unt = p.calls("Ident::untagged")
                structural("all_components: the component key is untagged(name)", len(unt) == 1 and same_place(unt[0][2][0], name) and ins[0][0] == unt[0][3])
            else:
                n_skip += 1
                L.expect_unsat("all_components: an entry is skipped only when maybe_inline(name) is Some", cond + [none], on_sat)
        if n_ins < 1 or n_skip < 1:
            o.inconc("all_components loop body: expected an inserting and a skipping path, got %d/%d" % (n_ins, n_skip))
    except KeyError as e:
        o.inconc(str(e))



def operation_id_lemma(o, L, M, bad, F):
    """xfer_id builds `method-seg1-seg2...`: a join with a separator over the segment labels. z3 (strings) is asked for two
    different paths (<= 2 literal segments over the lexer's segment alphabet, lower case) with the same identifier; a model
    is compiled with the real oal-cli and the validator confirms the duplicate."""
    import z3
    E = mirlib.enums()
    try:
        f = M.one(r"::xfer_id$")
    except KeyError as e:
        o.inconc(str(e)[:120])
        return False
    o.functions.append(mirlib.func_ref(f, "oal-openapi"))
    ex = mirlib.executor([M])
    sep = None
    shape = False
    for p in ex.run(f, arg_names=["self", "xfer", "method", "uri"]):
        if p.kind != "return":
            continue
        for e in p.calls():
            if e[1].endswith("::join") and len(e[2]) == 2 and e[2][1][0] == "c" and str(e[2][1][1]) == "str":
                sep = str(e[2][1][2]).strip('"')
                txt = ms.show(e[2][0])
                shape = "Builder::method_label" in txt and "uri" in txt and ("iter::once" in txt or "once(" in txt)
    if sep is None or not shape:
        o.inconc("xfer_id: the synthesised identifier is not `join(sep, method label ++ segment labels)` any more - the injectivity query does not apply")
        return False
    # every segment of the path contributes a label: between the path's iterator and the join nothing drops, skips or
    # merges elements (two paths that differ in a segment the identifier does not mention get the same identifier)
    dropping = re.findall(r"Iterator::(filter|filter_map|skip|skip_while|take|take_while|step_by|flat_map|flatten|dedup|peekable|zip)\b", txt)
    o.query("xfer_id: every path segment contributes one label (no adaptor between the path and the join drops elements)", "mirsym/structural", "unsat" if not dropping else "violated", 0)
    if dropping:
        bad.append("xfer_id: path segments can be left out of the synthesised operationId (%s)" % ", ".join(sorted(set(dropping))))
    m = re.search(r'#\[regex\("/(\[[^\]]+\])\+"\)\]\s*PathElementSegment', open(os.path.join(REPO, "oal-syntax/src/lexer.rs")).read())
    cls = m.group(1) if m else "[0-9a-zA-Z%~_.-]"
    o.extra["operation_id"] = {"separator": sep, "segment_alphabet": cls}
    letters = z3.Range("a", "z")
    extra = [z3.Re(ch) for ch in "-_.~" if ch in cls]
    alpha = z3.Union(letters, *extra) if extra else letters
    seg = z3.Concat(letters, z3.Star(alpha))          # starts with a letter (readable, and a valid segment)
    s = z3.Solver()
    s.set("timeout", 60000)

    def mk(pre):
        segs = [z3.String("%s%d" % (pre, i)) for i in range(2)]
        n = z3.Int(pre + "n")
        ident = z3.If(n == 1, z3.Concat(z3.StringVal("get" + sep), segs[0]), z3.Concat(z3.StringVal("get" + sep), segs[0], z3.StringVal(sep), segs[1]))
        key = z3.If(n == 1, z3.Concat(z3.StringVal("/"), segs[0]), z3.Concat(z3.StringVal("/"), segs[0], z3.StringVal("/"), segs[1]))
        cons = [n >= 1, n <= 2] + [z3.InRe(x, seg) for x in segs] + [z3.Length(x) <= 4 for x in segs]
        return segs, n, ident, key, cons
    ps, pn, pid, pkey, pc = mk("p")
    qs, qn, qid, qkey, qc = mk("q")
    s.add(pc + qc + [pkey != qkey, pid == qid])
    import time
    t0 = time.time()
    r = s.check()
    name = "xfer_id: two different paths never get the same synthesised operationId (<= 2 literal segments of <= 4 characters)"
    o.query(name, "z3/strings", "sat" if r == z3.sat else "unsat" if r == z3.unsat else "unknown", time.time() - t0)
    if r == z3.unsat:
        return False
    if r != z3.sat:
        o.inconc("operationId injectivity query: solver answered %s" % r)
        return False
    md = s.model()

    def path_of(segs, n):
        k = md.eval(n).as_long()
        return "".join("/" + md.eval(x).as_string() for x in segs[:k])
    pa, pb = path_of(ps, pn), path_of(qs, qn)
    src = "res %s on get -> <>;\nres %s on get -> <>;\n" % (pa, pb)
    cli = build_cli()
    rdir = new_replay_dir("C03", "operation-id")
    r2 = run_cli(cli, {"main.oal": src}, workdir=os.path.join(rdir, "collision"))
    dup = []
    if r2["rc"] == 0 and r2["target"]:
        dup = [x for x in validate_doc(mirlib.yaml_to_obj(r2["target"])) if x.startswith("operationId")]
    with open(os.path.join(rdir, "cmd"), "w") as fh:
        fh.write("#!/bin/sh\ncd %s/collision && exec %s -m main.oal -t out.yaml\n" % (rdir, cli))
    o.extra["operation_id"]["model"] = [pa, pb]
    what = "synthesised operationIds collide: `%s` and `%s` both get '%s'" % (pa, pb, md.eval(pid).as_string())
    if dup:
        k = F.match("C03", {"mode": "operation-id-collision"})
        if k:
            o.known_finding(k.get("what", what))
            return True
        o.violation("operationIds are not unique: %s; real oal-cli: %s" % (what, dup[0]), rdir)
    else:
        o.inconc("UNCONFIRMED: z3 finds colliding identifiers (%s) but the real oal-cli does not emit a duplicate (exit %s)" % (what, r2["rc"]))
    return False


def replay(path):
    if os.path.exists(os.path.join(path, "meta.json")):
        return kanirun.replay_saved(path)
    probs, rdir, detail = run_corpus()
    for k, v in detail.items():
        print(k, v)
    print("problems:", probs)
    return 1 if probs else 0
