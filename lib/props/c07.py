"""C07 - type inference terminates; its verdict is order/name independent (partial: step lemmas).

Engine M over the MIR of oal-compiler's `occurs`, `unify` (+ closures),
`UnionFind::{union,reduce,reduce_mut,find}` and the free `union::reduce`:
one step of each anchored mechanism from an arbitrary state, recursive calls and
IndexSet/Vec operations uninterpreted.
"""
import os
import re

import mirlib
import mirparse as mp
import mirsym as ms
import z3
from vcommon import Outcome, REPO, build_cli, run_cli, new_replay_dir, tier, Findings

TAGSRC = "oal-compiler/src/inference/tag.rs"


def parse_decls(path):
    """Very small Rust declaration reader: enum variants with payload types, struct fields."""
    src = open(path, encoding="utf-8").read()
    src = re.sub(r"//[^\n]*", "", src)
    enums, structs = {}, {}
    for m in re.finditer(r"\b(enum|struct)\s+(\w+)\s*\{", src):
        kind, name = m.group(1), m.group(2)
        i = m.end()
        d = 1
        j = i
        while j < len(src) and d:
            if src[j] == "{":
                d += 1
            elif src[j] == "}":
                d -= 1
            j += 1
        body = src[i:j - 1]
        items = [x.strip() for x in mp.split_top(body, ",") if x.strip()]
        if kind == "enum":
            vs = []
            for it in items:
                it = re.sub(r"#\[[^\]]*\]", "", it).strip()
                mm = re.match(r"^(\w+)\s*(?:\((.*)\))?$", it, re.S)
                if mm:
                    pay = [x.strip() for x in mp.split_top(mm.group(2), ",")] if mm.group(2) else []
                    vs.append((mm.group(1), pay))
            enums[name] = vs
        else:
            fs = []
            for it in items:
                it = re.sub(r"#\[[^\]]*\]", "", it).strip()
                mm = re.match(r"^(?:pub(?:\([^)]*\))?\s+)?(\w+)\s*:\s*(.+)$", it, re.S)
                if mm:
                    fs.append((mm.group(1), mm.group(2).strip()))
            structs[name] = fs
    return enums, structs


def tag_children(enums, structs):
    """[(variant, [field path], kind)] for every Tag-typed child position of enum Tag."""
    out = []

    def mentions(ty):
        return re.search(r"\bTag\b", ty) is not None

    for v, pay in enums.get("Tag", []):
        for i, ty in enumerate(pay):
            base = re.sub(r"<.*>", "", ty).strip()
            if base in structs:
                for j, (fn, fty) in enumerate(structs[base]):
                    if mentions(fty):
                        out.append((v, [i, j], "vec" if fty.startswith("Vec<") else "box", "%s.%s" % (v, fn)))
            elif mentions(ty):
                out.append((v, [i], "vec" if ty.startswith("Vec<") else "box", "%s.%d" % (v, i)))
    return out


def child_term(B, v, path, E):
    t = ms.proj(B, ("v", v), E)
    for i in path:
        t = ms.proj(t, ("f", i), E)
    return t


def mentions(args, c):
    return any(c == s for a in args for s in ms.subterms(a))


# programs whose acceptance hinges on one mechanism; (source, expected exit code)
OCCURS_PROGRAMS = {
    "Property.0": "let x = 'p x;\nres / on get -> <{}>;\n",
    "Func.range": "let f x = f;\nres / on get -> <{}>;\n",
    "Func.bindings": "let f x = x f;\nres / on get -> <{}>;\n",
}
MATRIX = {
    "bind-variable": ("let a = num;\nres / on get -> <a>;\n", 0),
    # the same names used several times - in the reversed variants before their declarations, so that equations between
    # still-free variables (v = v after reduction) have to be accepted
    "repeated-uses-of-names-declared-elsewhere": ("let u = num;\nlet f x = { 'v x };\nlet a = f u;\nlet b = f u;\nlet s = u | u;\nlet g x y = x | y;\nlet t = g u u;\n"
                                                  "res / on get -> <{ 'a a, 'b b, 's s, 't t }>;\n", 0),
    # one variable equated with a number and with a status range: unsolvable whichever comes first
    "number-and-status-range-through-one-parameter": ("let reply s = <status=s, media=\"application/json\", {}>;\nlet ok = reply 200;\nlet failed = reply 4XX;\nres /things on get -> ok :: failed;\n", 1),
    "number-and-string-through-one-parameter": ("let wrap v = { 'v v };\nlet a = wrap 1;\nlet b = wrap \"x\";\nres / on get -> <{ 'a a, 'b b }>;\n", 1),
    # two independent defects: which one is reported may depend on the order, its class may not
    "self-containing-type-next-to-a-kind-clash": ("let f x = f;\nlet a = num & {};\nres / on get -> <a>;\n", 1),
    "self-application-next-to-a-kind-clash": ("let a = {} & 7;\nlet w x = x x;\nlet b = w {};\nres / on get -> <a>;\n", 1),
    # two independent recursive groups, one of them ill-formed: rejected whichever comes first
    "ill-formed-recursion-next-to-a-recursive-schema": ("let f x = f x;\nlet a = { 'p? a };\nres / on get -> <a>;\n", 1),
    "recursive-uri-next-to-a-recursive-schema": ("let u = concat /u u;\nlet a = { 'x? a };\nlet b = [b];\nres / on get -> <a>;\n", 1),
    "chain-of-aliases": ("let a = b;\nlet b = c;\nlet c = { 'n num };\nres / on get -> <a & {}>;\n", 0),
    "use-before-def": ("res / on get -> <a>;\nlet a = {};\n", 0),
    "function-ok": ("let f x = [x];\nres / on get -> <f num>;\n", 0),
    "arity-mismatch": ("let f x = [x];\nres / on get -> <f num num>;\n", 1),
    "arity-extra-argument-use-first": ("let a = f num str;\nlet f x = [x];\nres / on get -> <a>;\n", 1),
    "arity-extra-argument-declaration-first": ("let f x = [x];\nlet a = f num str;\nres / on get -> <a>;\n", 1),
    "arity-missing-argument-use-first": ("let a = f num;\nlet f x y = x & y;\nres / on get -> <a>;\n", 1),
    "arity-missing-argument-declaration-first": ("let f x y = x & y;\nlet a = f num;\nres / on get -> <a>;\n", 1),
    "binding-mismatch": ("let f x = x & {};\nlet a = f {};\nlet b = f \"t\";\nres / on get -> <a>;\n", 1),
    "property-payload-mismatch": ("let p = 'id {};\nres /{ p } on get -> <{}>;\n", 1),
    "kind-mismatch": ("let a = num & {};\nres / on get -> <a>;\n", 1),
    "recursive-type-property": (OCCURS_PROGRAMS["Property.0"], 1),
    "recursive-type-range": (OCCURS_PROGRAMS["Func.range"], 1),
    "recursive-type-bindings": (OCCURS_PROGRAMS["Func.bindings"], 1),
    "recursive-type-second-binding-only": ("let f x y = y;\nlet a = f f num;\nres / on get -> <a>;\n", 1),
    "recursive-type-first-of-two-bindings": ("let f x y = x y x;\nres / on get -> <{}>;\n", 1),
    "recursive-type-compound-left-variable-right": ("let q = ('n p) | p;\nlet p = {};\nres / on get -> <q>;\n", 1),
    "recursive-type-variable-left-compound-right": ("let q = p | ('n p);\nlet p = {};\nres / on get -> <q>;\n", 1),
    "recursive-type-through-a-function-result": ("let h x = 'k x;\nlet q = (h q) | q;\nres / on get -> <{}>;\n", 1),
    "higher-order-repeated-variable": ("let f x y = x | y;\nlet app g = g num {};\nlet h = app f;\nres / on get -> <{}>;\n", 1),
    "higher-order-consistent": ("let f x y = x | y;\nlet app g = g num str;\nlet h = app f;\nres / on get -> <h>;\n", 0),
    "two-parameter-function-ok": ("let f x y = x & y;\nres / on get -> <f {} { 'a num }>;\n", 0),
}


def variants(src):
    """Meaning-preserving respellings of a program: its statements in reverse order and rotated by one, and every
    declared name and parameter consistently renamed. The verdict must not change (the statement's
    'independent of the order of declarations and of the spelling of identifiers')."""
    stmts = [x for x in re.split(r"(?<=;)\n", src) if x.strip()]
    out = {}
    if len(stmts) > 1:
        out["reversed"] = "\n".join(reversed(stmts)) + "\n"
        out["rotated"] = "\n".join(stmts[1:] + stmts[:1]) + "\n"
    names = set()
    for m in re.finditer(r"\blet\s+(@?[A-Za-z_][A-Za-z0-9_]*)((?:\s+[A-Za-z_][A-Za-z0-9_]*)*)\s*=", src):
        names.add(m.group(1))
        names.update(m.group(2).split())
    ren = src
    for nm in sorted(names, key=len, reverse=True):
        new = ("@zq_" + nm[1:] + "9") if nm.startswith("@") else ("zq_" + nm + "9")
        ren = re.sub(r"(?<![A-Za-z0-9_@'$-])%s(?![A-Za-z0-9_$-])" % re.escape(nm), new, ren)
    if names:
        out["renamed"] = ren
        if len(stmts) > 1:
            rst = [x for x in re.split(r"(?<=;)\n", ren) if x.strip()]
            out["renamed+reversed"] = "\n".join(reversed(rst)) + "\n"
    # more orders: a few drawn with VERIF_SEED in the quick tier; in the thorough tier every permutation of up to five
    # statements (120) and 120 drawn ones beyond
    if len(stmts) > 2:
        import itertools
        import random
        from vcommon import seed as vseed
        rnd = random.Random(1000 + vseed())
        if tier() == "thorough" and len(stmts) <= 5:
            perms = list(itertools.permutations(range(len(stmts))))
        else:
            perms = []
            for _ in range(120 if tier() == "thorough" else 4):
                pm = list(range(len(stmts)))
                rnd.shuffle(pm)
                perms.append(tuple(pm))
        for pm in perms:
            key = "order-" + "".join("%x" % i for i in pm) if len(stmts) <= 16 else "order-%d" % (hash(pm) % 100000)
            txt = "\n".join(stmts[i] for i in pm) + "\n"
            if txt != src and key not in out:
                out[key] = txt
    return out


# programs of several modules: (files, expected exit). The variants respell main.oal only.
MODULE_MATRIX = {
    "imported-generic-function-next-to-unrelated-declarations": (
        {"main.oal": 'use "lib.oal";\nlet a = id num;\nlet b = {};\nlet c = [str];\nres / on get -> <{ \'a a, \'b b, \'c c }>;\n', "lib.oal": "let id x = x;\n"}, 0),
    "imported-generic-functions-through-a-qualifier": (
        {"main.oal": 'use "lib.oal" as l;\nlet a = l.id num;\nlet b = l.fst {} str;\nlet c = [a];\nres / on get -> <{ \'a a, \'b b, \'c c }>;\n',
         "lib.oal": "let id x = x;\nlet fst x y = x;\n"}, 0),
    "two-libraries-with-generic-functions": (
        {"main.oal": 'use "p.oal" as p;\nuse "q.oal" as q;\nlet a = p.id {};\nlet b = q.id num;\nlet c = [b];\nres / on get -> <{ \'a a, \'b b, \'c c }>;\n',
         "p.oal": "let id x = x;\n", "q.oal": "let pad = {};\nlet id y = y;\n"}, 0),
    "imported-function-misused": (
        {"main.oal": 'use "lib.oal";\nlet a = both num {};\nres / on get -> <a>;\n', "lib.oal": "let both x y = x & y;\n"}, 1),
}


def error_class(out):
    """`Error: invalid type: ...` -> 'invalid type' (the kind of the compiler error; None when there is no such line)"""
    m = re.search(r"Error: ([a-z][a-z ]+?):", re.sub(r"\x1b\[[0-9;]*m", "", out or ""))
    return m.group(1) if m else None


def run_matrix(names=None, tag="matrix"):
    import concurrent.futures as cf
    cli = build_cli()
    rdir = new_replay_dir("C07", tag)
    mism, detail = [], {}
    progs = [(n, {"main.oal": src}, want) for n, (src, want) in MATRIX.items()] + [(n, files, want) for n, (files, want) in MODULE_MATRIX.items()]

    def one(item):
        n, files, want = item
        mm = []
        res = run_cli(cli, files, workdir=os.path.join(rdir, n), timeout=30)
        d = {"rc": res["rc"], "want": want, "tail": res["out"][-120:], "variants": {}, "error_class": error_class(res["out"])}
        if res["rc"] != want:
            mm.append("%s: exit %s, expected %s" % (n, res["rc"], want))
        for vn, vsrc in variants(files["main.oal"]).items():
            keep = not vn.startswith("order-")
            r2 = run_cli(cli, dict(files, **{"main.oal": vsrc}), workdir=os.path.join(rdir, n + "." + vn.replace("+", "-")) if keep else None, timeout=30)
            if keep:
                d["variants"][vn] = r2["rc"]
            else:
                d["orders_tried"] = d.get("orders_tried", 0) + 1
            if r2["rc"] != res["rc"]:
                mm.append("%s: verdict changes under '%s' (exit %s -> %s)" % (n, vn, res["rc"], r2["rc"]))
            elif res["rc"] == 1 and error_class(r2["out"]) != d["error_class"]:
                mm.append("%s: the class of error changes under '%s' (%s -> %s)" % (n, vn, d["error_class"], error_class(r2["out"])))
                if not keep:
                    run_cli(cli, dict(files, **{"main.oal": vsrc}), workdir=os.path.join(rdir, n + "." + vn), timeout=30)
        return n, d, mm
    todo = [it for it in progs if not names or it[0] in names]
    with cf.ThreadPoolExecutor(max_workers=max(2, (os.cpu_count() or 4) - 2)) as ex:
        for n, d, mm in ex.map(one, todo):
            detail[n] = d
            mism += mm
    with open(os.path.join(rdir, "cmd"), "w") as f:
        f.write("#!/bin/sh\ncd /verif && exec ./check C07 --replay %s\n" % rdir)
    return mism, rdir, detail


def check():
    o = Outcome("C07")
    E = mirlib.enums()
    F = Findings()
    try:
        M = mirlib.module("oal-compiler")
    except Exception as ex:
        o.inconc("MIR dump failed: %s" % str(ex)[-400:])
        return o.finish()
    L = mirlib.Lemma(o)
    S = L.smt
    o.assumptions = ["recursive calls, IndexSet/Vec operations and iterator adaptors are uninterpreted functions of their arguments",
                     "<Tag as PartialEq>::eq is structural equality (Tag derives PartialEq)",
                     "Tag child positions are read from the enum/struct declarations in " + TAGSRC]
    o.bounds = {"values": "unbounded", "control": "each function body once; loops: one arbitrary iteration from an arbitrary pre-state"}
    o.outside = ["that the steps compose to 'accepts iff the constraints are solvable'", "termination as a whole-run property",
                 "independence from declaration order / identifier spelling at program level (tag/constrain over trees)"]
    bad = []          # (lemma, detail, replay names)

    enums, structs = parse_decls(os.path.join(REPO, TAGSRC))
    children = tag_children(enums, structs)
    if not children or "Tag" not in E.table:
        o.inconc("cannot read Tag's child positions from %s" % TAGSRC)
        return o.finish()
    o.extra["tag_children"] = [c[3] for c in children]
    VAR = E.index("Tag", "Var")

    # ---------------------------------------------------------------- A. occurs
    if not occurs_lemma(o, S, M, E, children, bad):
        return o.finish()

    # ---------------------------------------------------------------- B. one unification step
    unify_step_lemmas(o, L, S, M, E, bad)

    # ---------------------------------------------------------------- C. union / reduce steps
    union_steps(o, L, M, bad)

    # ---------------------------------------------------------------- C'. the verdict on recursion does not depend on which group is met first
    try:
        import props.c09 as c09
        cb = []

        def cyc_structural(name, ok, why=None):
            o.query(name, "mirsym/structural", "unsat" if ok else "violated", 0)
            if not ok:
                cb.append(why or name)
            return ok
        c09.cycles_lemmas(o, L, S, M, E, M.one(r"^(typecheck::)?cycles_check$"), cyc_structural, lambda name, model: cb.append(name))
        for x in cb:
            bad.append(("cycles", x, None))
    except KeyError as exn:
        o.inconc(str(exn)[:160])

    # ---------------------------------------------------------------- D. type variables are fresh, per module
    fresh_variable_lemmas(o, L, S, M, E, bad)

    # ---------------------------------------------------------------- replay
    o.samples = [{"query": q["name"], "verdict": q["verdict"]} for q in o.queries if q.get("engine") != "mirsym/z3" or "witness" not in q["name"]][:14]
    if True:   # the real-binary oracle is cheap: always run it (replay of a failing lemma, or translator validation)
        mism, rdir, detail = run_matrix()
        o.extra["real_cli_matrix"] = detail
        if bad:
            if mism:
                k = F.match("C07", {"lemma": bad[0][0]})
                what = "%s; real oal-cli: %s" % ("; ".join(b[1] for b in bad[:3]), "; ".join(mism[:4]))
                o.violation(what, rdir)
            else:
                o.inconc("UNCONFIRMED: a step lemma fails (%s) but the real oal-cli gives the expected verdict on all %d matrix programs" %
                         ("; ".join(b[1] for b in bad[:3]), len(detail)))
        elif mism:
            o.oracle_only("real oal-cli deviates (%s) although every lemma holds" % mism[:4], rdir)
    return o.finish()


def unify_step_lemmas(o, L, S, M, E, bad):
    """One unification step (shared with C04: an unsound step lets a program through that the evaluator cannot run)."""
    VAR = E.index("Tag", "Var")
    # ---------------------------------------------------------------- B. one unification step
    ex = mirlib.executor([M])
    f_uni = M.one(r"^unify$")
    o.functions.append(mirlib.func_ref(f_uni, "oal-compiler"))
    outs = [p for p in ex.run(f_uni, arg_names=["sets", "left", "right"]) if p.kind == "return"]
    mirlib.check_translator(o, ex, "unify")
    lterm = rterm = None
    nok = 0
    PROP, FUNC = E.index("Tag", "Property"), E.index("Tag", "Func")

    def on_sat(name, model):
        bad.append(("unify", name, None))

    # one class of error: whatever defect the unifier meets first - and which one that is depends on the order of the
    # declarations - it is reported as the same kind of error
    kinds = set()
    for p in outs:
        for e in p.calls():
            if e[1] == "Error::new":
                kinds.add(ms.show(e[2][0])[:40])
    o.query("unify: every error it builds has the same kind (the class of error cannot depend on which defect is met first)", "mirsym/structural",
            "unsat" if len(kinds) == 1 else "violated", 0, kinds=sorted(kinds))
    if len(kinds) != 1:
        bad.append(("unify", "unify reports its defects under different kinds of error (%s)" % ", ".join(sorted(kinds)), None))
    for p in outs:
        red = p.calls("union::reduce")
        if len(red) != 2 or red[0][2][1] != ("sym", "left") or red[1][2][1] != ("sym", "right"):
            bad.append(("unify", "a path does not start with reduce(left), reduce(right)", None))
            o.query("unify: starts with reduce(left), reduce(right)", "mirsym/structural", "violated", 0)
            continue
        l, r = red[0][3], red[1][3]
        cond = S.pc(p.pc)
        d = S.i(ms.disc_of(p.ret, E))
        un = p.calls("UnionFind::union")
        rec = p.calls("unify")
        dl, dr = S.disc(S.v(l)), S.disc(S.v(r))
        eq = S.v(l) == S.v(r)
        if un:
            u = un[0]
            x, y = u[2][1], u[2][2]
            L.expect_unsat("unify: union(x, y) only with x a variable", cond + [S.disc(S.v(x)) != VAR], on_sat)
            L.expect_unsat("unify: union(x, y) only for (reduce(left), reduce(right)) up to orientation",
                           cond + [z3.Not(z3.Or(z3.And(S.v(x) == S.v(l), S.v(y) == S.v(r)), z3.And(S.v(x) == S.v(r), S.v(y) == S.v(l))))], on_sat)
            L.expect_unsat("unify: union only when the operands differ", cond + [eq], on_sat)
            oc = [e for e in p.calls("occurs") if e[2] == (("addr", x), ("addr", y)) and p.events.index(e) < p.events.index(u)]
            if not oc:
                bad.append(("unify", "union(x, y) without a preceding occurs(x, y)", None))
                o.query("unify: occurs(x, y) precedes union(x, y)", "mirsym/structural", "violated", 0, path=mirlib.fmt_pc(p.pc)[:300])
            else:
                L.expect_unsat("unify: union only after occurs(x, y) returned false", cond + [S.b(oc[0][3])], on_sat)
            L.expect_unsat("unify: a path that binds a variable returns Ok", cond + [d != 0], on_sat)
            if len(un) != 1:
                bad.append(("unify", "more than one union on a path", None))
        if p.ret[0] == "variant" and p.ret[2] == "Ok":
            nok += 1
            if not un:
                L.expect_unsat("unify: literal Ok without union only when reduce(left) == reduce(right)", cond + [z3.Not(eq)], on_sat)
                if rec:
                    bad.append(("unify", "literal Ok after a recursive call whose result is dropped", None))
        elif p.ret[0] == "variant" and p.ret[2] == "Err":
            if un:
                bad.append(("unify", "Err after union", None))
        else:
            # result delegated: must be the Property/Property or Func/Func case, wired to the right children
            rets = [e for e in p.calls() if e[3] == p.ret]
            if not rets:
                bad.append(("unify", "a path returns a value that is neither Ok, Err nor a call result: %s" % ms.show(p.ret)[:120], None))
                o.query("unify: delegated result comes from a call", "mirsym/structural", "violated", 0)
                continue
            e = rets[0]
            if e[1] == "unify":
                L.expect_unsat("unify: delegation to unify(payloads) only for Property/Property", cond + [z3.Or(dl != PROP, dr != PROP)], on_sat)
                cl = ("addr", ("deref", child_term(l, "Property", [0], E)))
                cr = ("addr", ("deref", child_term(r, "Property", [0], E)))
                L.expect_unsat("unify: Property/Property recurses on the two payloads", cond + [z3.Or(S.v(e[2][1]) != S.v(cl), S.v(e[2][2]) != S.v(cr))], on_sat)
            elif e[1] == "Result::and_then":
                L.expect_unsat("unify: and_then chain only for Func/Func", cond + [z3.Or(dl != FUNC, dr != FUNC)], on_sat)
                lens = p.calls("Vec::len")
                lb, rb = child_term(l, "Func", [0, 0], E), child_term(r, "Func", [0, 0], E)
                if len(lens) != 2 or lens[0][2][0] != ("addr", lb) or lens[1][2][0] != ("addr", rb):
                    bad.append(("unify", "Func/Func does not compare the two binding counts", None))
                    o.query("unify: Func/Func compares binding counts", "mirsym/structural", "violated", 0)
                else:
                    L.expect_unsat("unify: Func/Func proceeds only with equal binding counts", cond + [S.i(lens[0][3]) != S.i(lens[1][3])], on_sat)
                first = e[2][0]
                rr = [c for c in rec if c[3] == first]
                cl = ("addr", ("deref", child_term(l, "Func", [0, 1], E)))
                cr = ("addr", ("deref", child_term(r, "Func", [0, 1], E)))
                if not rr:
                    bad.append(("unify", "Func/Func: and_then is not fed by unify(ranges)", None))
                    o.query("unify: Func/Func unifies the ranges", "mirsym/structural", "violated", 0)
                else:
                    L.expect_unsat("unify: Func/Func recurses on the two ranges", cond + [z3.Or(S.v(rr[0][2][1]) != S.v(cl), S.v(rr[0][2][2]) != S.v(cr))], on_sat)
                clo = e[2][1]
                okc = closure_unifies_bindings(M, clo, lb, rb)
                o.query("unify: Func/Func closure zips the two binding lists and unifies each pair", "mirsym/structural",
                        "unsat" if okc else "violated", 0)
                if not okc:
                    bad.append(("unify", "Func/Func: the and_then closure does not unify the zipped bindings", None))
            else:
                bad.append(("unify", "result delegated to unexpected callee %s" % e[1], None))
                o.query("unify: delegated result comes from unify/and_then", "mirsym/structural", "violated", 0, callee=e[1])
    # arity mismatch must be an error
    for p in outs:
        lens = p.calls("Vec::len")
        if len(lens) == 2:
            cond = S.pc(p.pc)
            L.expect_unsat("unify: different binding counts => Err", cond + [S.i(lens[0][3]) != S.i(lens[1][3]), S.i(ms.disc_of(p.ret, E)) != 1], on_sat)
    if nok < 3:
        o.inconc("unify: fewer than three literal-Ok paths (eq, var-left, var-right) - unexpected shape")
    o.extra["unify_paths"] = len(outs)



def occurs_lemma(o, S, M, E, children, bad):
    """occurs(a, b): no feasible path returns false for a variant without examining every Tag-typed child."""
    ex = mirlib.executor([M])
    try:
        f_occ = M.one(r"^occurs$")
    except KeyError as e:
        o.inconc(str(e))
        return False
    o.functions.append(mirlib.func_ref(f_occ, "oal-compiler"))
    outs = ex.run(f_occ, arg_names=["a", "b"])
    A, B = ("deref", ("sym", "a")), ("deref", ("sym", "b"))
    examined_any = False
    for (v, path, kind, label) in children:
        c = child_term(B, v, path, E)
        idx = E.index("Tag", v)
        seen_feasible = False
        for p in outs:
            if p.kind != "return":
                continue
            cons = S.pc(p.pc) + [S.disc(S.v(B)) == idx, S.v(A) != S.v(B), z3.Not(S.b(p.ret))]
            verdict, model = S.check("occurs: path feasible for %s returning false" % label, cons)
            if verdict != "sat":
                continue
            seen_feasible = True
            ok = False
            for e in p.calls():
                if not mentions(e[2], c):
                    continue
                if e[1] == "occurs":
                    ok = True
                elif kind == "vec" and e[1].endswith("Iterator::any"):
                    # an iterator adaptor fed with the child: its closure must recurse on the element
                    for a in e[2]:
                        for s in ms.subterms(a):
                            if s[0] == "aggr" and isinstance(s[1], str) and s[1].startswith("{closure@"):
                                key = s[1][len("{closure@"):].rstrip("}")
                                for cf in M.funcs:
                                    if "{closure#" in cf.name and cf.args and key in cf.args[0][1]:
                                        co = mirlib.executor([M]).run(cf)
                                        for q in co:
                                            for ce in q.calls("occurs"):
                                                if len(cf.args) >= 2 and ce[2][1] == ("sym", cf.debug.get(cf.args[1][0], "arg2")):
                                                    ok = True
            name = "occurs descends into %s on every path that returns false" % label
            o.query(name, "mirsym/z3", "unsat" if ok else "sat", 0, nonvacuous=True,
                    path=mirlib.fmt_pc(p.pc)[:300])
            if ok:
                examined_any = True
            else:
                bad.append(("occurs", "occurs(a, b) returns false for b = %s(..) without looking at %s" % (v, label), label))
        if not seen_feasible:
            o.inconc("occurs: no false-returning path is feasible for variant %s (vacuous)" % v)
    # a positive answer from any child, or a == b, must make the answer positive
    for p in outs:
        if p.kind != "return":
            continue
        pos = [a for a, op, v in p.pc if op == "==" and v is True and
               ((a[0] == "app" and a[1] == "occurs") or (a[0] == "op" and a[1] == "Eq" and set((a[2], a[3])) == set((A, B))))]
        if pos:
            okp = p.ret == ms.TRUE
            o.query("occurs: a == b or a positive child makes the answer true", "mirsym/structural", "unsat" if okp else "violated", 0,
                    path=mirlib.fmt_pc(p.pc)[:200])
            if not okp:
                bad.append(("occurs", "occurs(a, b) does not return true although a == b or a child contains a", "Func.range"))
    if not examined_any:
        o.inconc("occurs examines no child at all (lemma vacuous or translator problem)")
    mirlib.check_translator(o, ex, "occurs")

    return True


def fresh_variable_lemmas(o, L, S, M, E, bad):
    """A type variable is (module locator, number): tag() numbers a module's variables from a sequence created for that
    module's own locator, the sequence hands out each number once, and two variables are the same only if both
    components agree - so variables of different modules never collide, whatever the numbers."""
    def structural(name, ok):
        o.query(name, "mirsym/structural", "unsat" if ok else "violated", 0)
        if not ok:
            bad.append(("fresh", name, None))

    def on_sat(name, model):
        bad.append(("fresh", name, None))
    try:
        f_eq = M.sel("tag", "eq", arg0=r"&TagId")
        f_new = M.sel("tag", "new", arg0=r"Locator", ret=r"Seq")
        f_next = M.sel("tag", "next", arg0=r"&mut Seq")
        f_tag = [f for f in M.funcs if f.kind == "fn" and f.name.split("::")[-1] == "tag" and len(f.args) == 2 and "ModuleSet" in f.args[0][1] and "Locator" in f.args[1][1]]
        if len(f_tag) != 1:
            raise KeyError("inference::tag: %d candidates" % len(f_tag))
        f_tag = f_tag[0]
    except Exception as ex:
        o.inconc("MIR: %s" % str(ex)[-200:])
        return
    o.functions += [mirlib.func_ref(f, "oal-compiler") for f in (f_eq, f_new, f_next, f_tag)]
    # TagId == TagId
    ex = mirlib.executor([M])
    a, b = ("deref", ("sym", "a")), ("deref", ("sym", "b"))
    n_true = 0
    for p in ex.run(f_eq, arg_names=["a", "b"]):
        if p.kind != "return" or p.ret == ms.FALSE:
            continue
        n_true += 1
        cond = S.pc(p.pc) + ([] if p.ret == ms.TRUE else [S.b(p.ret)])
        L.expect_unsat("TagId::eq: equal only if the module locators and the numbers are both equal",
                       cond + [z3.Or(S.v(ms.proj(a, ("f", 0), E)) != S.v(ms.proj(b, ("f", 0), E)), S.i(ms.proj(a, ("f", 1), E)) != S.i(ms.proj(b, ("f", 1), E)))], on_sat)
    mirlib.check_translator(o, ex, "TagId::eq")
    if n_true == 0:
        o.inconc("TagId::eq: no path can answer true")
    # Seq::new / Seq::next
    ex = mirlib.executor([M])
    rets = [p for p in ex.run(f_new, arg_names=["loc"]) if p.kind == "return"]
    okn = len(rets) == 1 and any(t == ("sym", "loc") for t in ms.subterms(rets[0].ret)) and any(t == ms.C("int", 0) for t in ms.subterms(rets[0].ret))
    structural("Seq::new: the sequence starts at 0 and carries the locator it was given", okn)
    ex = mirlib.executor([M])
    rets = [p for p in ex.run(f_next, arg_names=["self"]) if p.kind == "return"]
    okx = len(rets) == 1
    if okx:
        p = rets[0]
        st = [e for e in p.events if e[0] == "store" and e[1] == ("sym", "self")]
        direct = [t for t in (p.ret[2] if p.ret[0] == "aggr" else ()) if t[0] == "fld" and t[1][0] == "fld" and t[1][1] == ("deref", ("sym", "self"))]
        old_n = direct[0] if len(direct) == 1 else None
        clones = [e for e in p.calls() if e[1].endswith("Clone::clone")]
        okx = len(st) == 1 and old_n is not None and len(clones) == 1 and clones[0][3] in ms.subterms(p.ret)
        if okx:
            okx = L.expect_unsat("Seq::next: the counter moves on by exactly one (the next variable gets another number)",
                                 S.pc(p.pc) + [S.i(st[0][3]) != S.i(old_n) + 1], on_sat)
            lo = _strip_addr(clones[0][2][0])
            okx = okx and lo[0] == "fld" and lo[1][0] == "fld" and lo[1][1] == ("deref", ("sym", "self")) and lo != old_n
    structural("Seq::next: answers (the sequence's own locator, the current number) and then increments the number", okx)
    # tag(): one sequence, made for the module's own locator
    ex = mirlib.executor([M], max_paths=400)
    news = set()
    for p in ex.run(f_tag, arg_names=["mods", "loc"]):
        for e in p.calls():
            if e[1] == "Seq::new":
                news.add(e[2][0])
    okt = len(news) == 1 and all(t[0] == "app" and t[1].endswith("Clone::clone") and _strip_addr(t[2][0]) in (("sym", "loc"), ("deref", ("sym", "loc"))) for t in news)
    structural("tag(): the variables of a module are numbered by one sequence created with that module's own locator", okt)


def _strip_addr(t):
    while t[0] == "addr":
        t = t[1]
    return t


def closure_unifies_bindings(M, clo, lb, rb):
    """The and_then closure captures (&left_bindings, &right_bindings, sets), zips them and
    calls try_for_each with a closure that calls unify(sets, l, r) on the pair."""
    if clo[0] != "aggr" or not str(clo[1]).startswith("{closure@"):
        return False
    caps = clo[2]
    if ("addr", lb) not in caps or ("addr", rb) not in caps:
        return False
    il, ir = caps.index(("addr", lb)), caps.index(("addr", rb))
    key = clo[1][len("{closure@"):].rstrip("}")
    cf = [f for f in M.funcs if "{closure#" in f.name and f.args and key in f.args[0][1]]
    if len(cf) != 1:
        return False
    # the zipped pairs are walked as a loop - written as `for` or as try_for_each(closure), which the executor runs
    # as a loop too: an exhausted walk answers Ok, one arbitrary pair is handed to unify(sets, l, r), whose failure
    # is the closure's failure and whose success goes on to the next pair
    E = mirlib.enums()
    ex = mirlib.executor([M])
    outs = ex.run(cf[0])
    if ex.unknown:
        return False
    env = ("sym", cf[0].debug.get(cf[0].args[0][0], "arg1"))
    want_l = ms.proj(env, ("f", il), E)
    want_r = ms.proj(env, ("f", ir), E)
    seen_ok = seen_step = seen_err = False
    for p in outs:
        if p.kind not in ("return", "backedge"):
            continue
        zips = [e for e in p.calls() if e[1].endswith("::zip")]
        if len(zips) != 1 or not (mentions([zips[0][2][0]], want_l) and mentions([zips[0][2][1]], want_r)):
            return False
        nx = [e for e in p.calls() if e[1].endswith("Iterator::next")]
        if not nx or not mentions([nx[-1][2][0]], zips[0][3]):
            return False
        us = p.calls("unify")
        if not us:
            if p.kind == "return" and p.ret[0] == "variant" and p.ret[2] == "Ok":
                seen_ok = True
            continue
        pair = ms.proj(ms.proj(nx[-1][3], ("v", "Some"), E), ("f", 0), E)
        if len(us) != 1 or us[0][2][1] != ms.proj(pair, ("f", 0), E) or us[0][2][2] != ms.proj(pair, ("f", 1), E):
            return False
        if p.kind == "backedge":
            seen_step = True
        elif p.ret == us[0][3] or mentions([p.ret], ms.proj(ms.proj(us[0][3], ("v", "Err"), E), ("f", 0), E)):
            seen_err = True
        else:
            return False
    return seen_ok and seen_step and seen_err


def union_steps(o, L, M, bad):
    E = mirlib.enums()
    S = L.smt

    def on_sat(name, model):
        bad.append(("union", name, None))

    # UnionFind::union writes exactly parents[reduce_mut(insert(left))] = reduce_mut(insert(right))
    try:
        f_union = M.one(r"union::<impl[^>]*>::union$")
        f_red = M.one(r"union::<impl[^>]*>::reduce$")
        f_redm = M.one(r"union::<impl[^>]*>::reduce_mut$")
        f_find = M.one(r"union::<impl[^>]*>::find$")
        f_free = M.one(r"^union::reduce$")
    except KeyError as e:
        o.inconc(str(e))
        return
    o.functions.extend(mirlib.func_ref(f, "oal-compiler") for f in (f_union, f_red, f_redm, f_find, f_free))
    ex = mirlib.executor([M])
    outs = [p for p in ex.run(f_union, arg_names=["self", "left", "right"]) if p.kind == "return"]
    mirlib.check_translator(o, ex, "UnionFind::union")
    for p in outs:
        ins = p.calls("UnionFind::insert")
        rm = p.calls("UnionFind::reduce_mut")
        ok = len(ins) == 2 and len(rm) == 2 and ins[0][2][1] == ("sym", "left") and ins[1][2][1] == ("sym", "right") \
            and rm[0][2][1] == ins[0][3] and rm[1][2][1] == ins[1][3]
        o.query("union: v = insert(left), w = insert(right), vrep = reduce_mut(v), wrep = reduce_mut(w)", "mirsym/structural",
                "unsat" if ok else "violated", 0)
        if not ok:
            bad.append(("union", "union does not compute the two representatives of (left, right)", None))
            continue
        writes = [(k, v) for k, v in p.state.heap.items() if k[0] == "app" and k[1].endswith("::index_mut")]
        if len(writes) != 1:
            bad.append(("union", "union performs %d writes into parents" % len(writes), None))
            o.query("union: exactly one write into parents", "mirsym/structural", "violated", 0)
            continue
        k, v = writes[0]
        cond = S.pc(p.pc)
        L.expect_unsat("union: the single write is parents[vrep] = wrep (right representative wins)",
                       cond + [z3.Or(S.v(k[2][1]) != S.v(rm[0][3]), S.v(v) != S.v(rm[1][3]))], on_sat)

    # loops of reduce / reduce_mut: one arbitrary iteration
    for f, nm in ((f_red, "reduce"), (f_redm, "reduce_mut")):
        ex = mirlib.executor([M])
        outs = ex.run(f, arg_names=["self", "v"])
        mirlib.check_translator(o, ex, "UnionFind::" + nm)
        n_exit = n_back = 0
        for p in outs:
            idx = [e for e in p.calls() if e[1].endswith("Index::index")]
            if p.kind not in ("return", "backedge") or not idx or any(e[2] != idx[0][2] for e in idx):
                if p.kind in ("return", "backedge"):
                    bad.append(("union", "%s: loop body reads something other than parents[w]" % nm, None))
                continue
            cur = idx[0][2][1]
            par = ex.raw_deref(p.state, idx[0][3])
            cond = S.pc(p.pc)
            if p.kind == "return":
                n_exit += 1
                L.expect_unsat("%s: stops exactly when parents[w] == w and returns w" % nm,
                               cond + [z3.Or(S.i(par) != S.i(cur), S.v(p.ret) != S.v(cur))], on_sat)
                if nm == "reduce_mut":
                    writes = [(k, v) for k, v in p.state.heap.items() if k[0] == "app" and k[1].endswith("::index_mut")]
                    okw = len(writes) == 1 and writes[0][0][2][1] == ("sym", "v")
                    o.query("reduce_mut: on exit flattens parents[v] (the original index) only", "mirsym/structural", "unsat" if okw else "violated", 0)
                    if not okw:
                        bad.append(("union", "reduce_mut: unexpected writes on exit", None))
                    else:
                        L.expect_unsat("reduce_mut: parents[v] := representative", cond + [S.v(writes[0][1]) != S.v(cur)], on_sat)
            else:
                n_back += 1
                # the loop variable moves to the parent
                moved = [val for (fr, loc), val in p.state.vals.items() if (fr, loc) in p.state.havocked and val == par]
                L.expect_unsat("%s: continues only while parents[w] != w" % nm, cond + [S.i(par) == S.i(cur)], on_sat)
                o.query("%s: the next iteration starts at parents[w]" % nm, "mirsym/structural", "unsat" if moved else "violated", 0)
                if not moved:
                    bad.append(("union", "%s: loop does not move to the parent" % nm, None))
        if n_exit != 1 or n_back != 1:
            o.inconc("UnionFind::%s: expected one exit and one back-edge path, got %d/%d" % (nm, n_exit, n_back))

    # find: representative + 'reduced' flag
    ex = mirlib.executor([M])
    for p in ex.run(f_find, arg_names=["self", "tag"]):
        if p.kind != "return":
            continue
        cond = S.pc(p.pc)
        gf = [e for e in p.calls() if e[1] in ("IndexSet::get_full", "IndexSet::get_index_of")]
        if len(gf) != 1:
            bad.append(("union", "find does not look the tag up exactly once", None))
            continue
        hit = S.disc(S.v(gf[0][3])) == 1
        full = gf[0][1].endswith("get_full")
        rd = p.calls("UnionFind::reduce")
        gi = p.calls("IndexSet::get_index")
        if p.ret[0] == "variant" and p.ret[2] == "None":
            L.expect_unsat("find: None only for an unknown tag", cond + [hit], on_sat)
        elif p.ret[0] == "variant" and p.ret[2] == "Some" and len(rd) == 1 and len(gi) == 1:
            v = ms.proj(ms.proj(gf[0][3], ("v", "Some"), E), ("f", 0), E)
            if full:
                v = ms.proj(v, ("f", 0), E)
            pair = p.ret[3][0]
            rep = ms.proj(ms.proj(gi[0][3], ("v", "Some"), E), ("f", 0), E)
            L.expect_unsat("find: returns tags[reduce(v)] and the flag reduce(v) != v",
                           cond + [z3.Or(S.v(rd[0][2][1]) != S.v(v), S.v(gi[0][2][1]) != S.v(rd[0][3]),
                                         S.v(ms.proj(pair, ("f", 0), E)) != S.v(rep),
                                         S.b(ms.proj(pair, ("f", 1), E)) != (S.i(rd[0][3]) != S.i(v)))], on_sat)
        else:
            bad.append(("union", "find: unexpected return shape %s" % ms.show(p.ret)[:100], None))
    mirlib.check_translator(o, ex, "UnionFind::find")

    # free reduce: recursion into every child; variable case recurses only when find reports a change
    ex = mirlib.executor([M])
    outs = [p for p in ex.run(f_free, arg_names=["sets", "tag"]) if p.kind == "return"]
    mirlib.check_translator(o, ex, "union::reduce")
    T = ("deref", ("sym", "tag"))
    enums_d, structs_d = parse_decls(os.path.join(REPO, TAGSRC))
    for (v, path, kind, label) in tag_children(enums_d, structs_d):
        c = child_term(T, v, path, E)
        idx = E.index("Tag", v)
        hit = False
        for p in outs:
            verdict, _ = S.check("reduce: path feasible for %s" % v, S.pc(p.pc) + [S.disc(S.v(T)) == idx])
            if verdict != "sat":
                continue
            hit = True
            ok = False
            for e in p.calls():
                if not mentions(e[2], c):
                    continue
                if e[1] == "union::reduce":
                    ok = mentions([p.ret], e[3])
                elif kind == "vec":
                    ok = ok or closure_calls(M, e, "union::reduce") and any(mentions([p.ret], x[3]) for x in p.calls() if mentions(x[2], e[3]) or x is e)
            o.query("reduce: rebuilds %s from the reduced child" % label, "mirsym/structural", "unsat" if ok else "violated", 0)
            if not ok:
                bad.append(("union", "reduce() does not substitute inside %s" % label, None))
        if not hit:
            o.inconc("reduce: no path for variant %s" % v)
    VAR = E.index("Tag", "Var")
    for p in outs:
        verdict, _ = S.check("reduce: path feasible for Var", S.pc(p.pc) + [S.disc(S.v(T)) == VAR])
        if verdict != "sat":
            continue
        fd = p.calls("UnionFind::find")
        at = [e for e in p.calls() if e[1] == "Option::and_then"]
        if at:
            ok = len(fd) == 1 and len(at) == 1 and at[0][2][0] == fd[0][3] and closure_then_reduce(M, at[0][2][1])
        else:
            # written as a match: decide from the path itself
            rc = [e for e in p.calls() if e[1] == "union::reduce"]
            ok = len(fd) == 1
            if ok:
                found = S.disc(S.v(fd[0][3])) == 1
                pay = ms.proj(ms.proj(fd[0][3], ("v", "Some"), E), ("f", 0), E)
                changed = z3.And(found, S.b(ms.proj(pay, ("f", 1), E)))
                cond = S.pc(p.pc) + [S.disc(S.v(T)) == VAR]
                if rc:
                    v1, _ = S.check("reduce(var): recursion only after a change", cond + [z3.Not(changed)])
                    ok = v1 == "unsat" and p.ret == rc[0][3] and any(t == ms.proj(pay, ("f", 0), E) for t in ms.subterms(rc[0][2][1]))
                else:
                    v1, _ = S.check("reduce(var): kept only without a change", cond + [changed])
                    ok = v1 == "unsat" and any(t == T or t == ("sym", "tag") for t in ms.subterms(p.ret))
        o.query("reduce: a variable is replaced by reduce(representative) only when find reports a change, else kept", "mirsym/structural",
                "unsat" if ok else "violated", 0)
        if not ok:
            bad.append(("union", "reduce(): variable case is not find(tag).and_then(reduced.then(reduce))", None))


def closure_of(M, clo):
    if clo[0] != "aggr" or not str(clo[1]).startswith("{closure@"):
        return None
    key = clo[1][len("{closure@"):].rstrip("}")
    cf = [f for f in M.funcs if "{closure#" in f.name and f.args and key in f.args[0][1]]
    return cf[0] if len(cf) == 1 else None


def closure_calls(M, e, callee):
    """Does some closure passed to call event `e` call `callee` on its element parameter?"""
    for a in e[2]:
        for s in ms.subterms(a):
            cf = closure_of(M, s) if s[0] == "aggr" else None
            if cf is None or len(cf.args) < 2:
                continue
            ex = mirlib.executor([M])
            for q in ex.run(cf):
                if q.kind == "return":
                    elem = ("sym", cf.debug.get(cf.args[1][0], "arg2"))
                    for ce in q.calls(callee):
                        if ce[2][-1] == elem and ce[3] == q.ret:
                            return True
    return False


def closure_then_reduce(M, clo):
    """|(t, reduced)| reduced.then(|| reduce(sets, t))"""
    E = mirlib.enums()
    cf = closure_of(M, clo)
    if cf is None or len(cf.args) != 2:
        return False
    ex = mirlib.executor([M])
    outs = [q for q in ex.run(cf) if q.kind == "return"]
    if len(outs) != 1:
        return False
    q = outs[0]
    th = [e for e in q.calls() if e[1] == "bool::then"]
    if len(th) != 1 or th[0][3] != q.ret:
        return False
    pair = ("sym", cf.debug.get(cf.args[1][0], "arg2"))
    if th[0][2][0] != ms.proj(pair, ("f", 1), E):
        return False
    inner = closure_of(M, th[0][2][1])
    if inner is None:
        return False
    ex2 = mirlib.executor([M])
    outs2 = [r for r in ex2.run(inner) if r.kind == "return"]
    if len(outs2) != 1:
        return False
    rr = outs2[0].calls("union::reduce")
    # the inner closure captured (sets, t): it must reduce exactly the captured representative
    caps = th[0][2][1][2]
    return len(rr) == 1 and rr[0][3] == outs2[0].ret and ms.proj(pair, ("f", 0), E) in caps


def replay(path):
    mism, rdir, detail = run_matrix()
    for k, v in detail.items():
        print(k, v)
    print("mismatches:", mism)
    return 1 if mism else 0
