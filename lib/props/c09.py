"""C09 - recursion is cut into named components, finitely and without aliasing (partial).

Engine M + z3, step lemmas (one loop iteration / one call from an arbitrary state):
 * `cycles_check`: which components are skipped, which nodes become recursion points, when the
   program is rejected, when another pass runs and that every pass removes what it scheduled;
 * `eval_declaration`: evaluate-once protocol with the re-entrance marker, naming of the component;
 * `eval_recursion`, `Context::node_identifier`, `Context::push_scope`: per-instantiation names.
Replay oracle: cyclic programs through the real oal-cli: verdict, and in the emitted document every
recursion point is a $ref to a component that exists, instantiations are distinct, one instantiation
is emitted once.
"""
import os
import re

import mirlib
import mirparse as mp
import mirsym as ms
import z3
from vcommon import REPO, Outcome, Findings, build_cli, run_cli, new_replay_dir, tier, crashed

OK, REJECT = 0, 1
# name: (files, expected verdict, checks on the document)
PROGRAMS = {
    "self-loop": ({"main.oal": "let a = { 's? a, 'n num };\nres / on get -> <a>;\n"}, OK, {"components": 1}),
    "mutual-recursion": ({"main.oal": "let a = { 'b? b };\nlet b = { 'a? a, 'c? c };\nlet c = [a];\nres / on get -> <a> :: <status=404, c>;\n"}, OK, {"min_components": 2}),
    "recursion-through-array-and-operator": ({"main.oal": "let t = { 'kids [t], 'alt? (t | u) };\nlet u = { 'back? t };\nres / on get -> <t>;\n"}, OK, {"min_components": 1}),
    "explicit-references": ({"main.oal": "let @a = { 'b? @b };\nlet @b = { 'a? @a };\nres / on get -> <@a>;\n"}, OK, {"names": ["a", "b"]}),
    "rec-expression": ({"main.oal": "let t = rec x { 'next? x, 'v num };\nres / on get -> <t> :: <status=404, t>;\n"}, OK, {"components": 1}),
    "rec-in-function-applied-twice": ({"main.oal": "let f x = rec r { 'v x, 'next? r };\nres / on get -> <f num> :: <status=404, f str>;\n"}, OK, {"components": 2, "distinct_instantiations": ("v", ["number", "string"])}),
    "rec-in-function-used-by-two-operations": ({"main.oal": "let f x = rec r { 'v x, 'next? r };\nlet a = f int;\nres /a on get -> <a>;\nres /b on put : <a> -> <a>;\n"}, OK, {"min_components": 1}),
    "recursion-through-an-import": ({"main.oal": 'use "m.oal" as m;\nlet w = { \'t m.t, \'w? w };\nres / on get -> <w>;\n', "m.oal": "let t = { 'n? t, 'u? u };\nlet u = [t];\n"}, OK, {"min_components": 2}),
    "same-file-name-in-two-directories": ({"main.oal": 'use "v1/model.oal" as a;\nuse "v2/model.oal" as b;\nres /a on get -> <a.tree>;\nres /b on get -> <b.tree>;\n',
                                           "v1/model.oal": "let tree = { 'id int, 'kids [tree] };\n", "v2/model.oal": "let tree = { 'id str, 'kids [tree] };\n"},
                                          OK, {"components": 2, "distinct_instantiations": ("id", ["integer", "string"])}),
    "same-shape-in-two-modules": ({"main.oal": 'use "trees.oal" as t;\nuse "chains.oal" as c;\nres /t on get -> <t.tree>;\nres /c on get -> <c.chain>;\n',
                                   "trees.oal": "let tree = { 'id int, 'kids [tree] };\n", "chains.oal": "let chain = { 'id str, 'rest [chain] };\n"},
                                  OK, {"components": 2, "distinct_instantiations": ("id", ["integer", "string"])}),
    # a reference that closes the cycle comes after an inline rec of the same declaration
    "cycle-closed-after-an-inline-rec": ({"main.oal": "let list = { 'payload (rec t { 'children [t] }), 'next? list };\nres /lists on get -> <list>;\n"}, OK, {"min_components": 2}),
    "mutual-cycle-closed-after-an-inline-rec": ({"main.oal": "let a = { 'r (rec x { 'k? x }), 'b? b };\nlet b = { 'a? a, 'self? b };\nres / on get -> <a> :: <status=404, b>;\n"}, OK, {"min_components": 3}),
    # a rec directly inside a rec, in a function applied twice: four components, none shared
    "nested-rec-in-function-applied-twice": ({"main.oal": "let tree x = rec node { 'value x, 'children [node], 'meta rec m { 'of x, 'parent? m } };\nres /ints on get -> <tree int>;\nres /strs on get -> <tree str>;\n"},
                                             OK, {"components": 4, "distinct_by": [("of", ["integer", "string"]), ("value", ["integer", "string"])]}),
    # cycles made of arrays only: every hop must still be a component the emitter stops at
    "array-only-cycles": ({"main.oal": "let forest = [grove];\nlet grove = [forest];\nlet a = [a];\nres /f on get -> <forest>;\nres /a on get -> <a>;\nres /r on get -> <rec x [x]>;\n"}, OK, {"min_components": 4}),
    # one rec-carrying function applied twice inside one enclosing application
    "rec-function-applied-twice-inside-one-application": ({"main.oal": "let list x = rec r { 'item x, 'rest [r] };\nlet pair y = { 'ints (list y), 'strs (list str) };\nres /pair on get -> <pair int>;\n"},
                                                          OK, {"components": 2, "distinct_by": [("item", ["integer", "string"])]}),
    # a cuttable cycle that passes through a plain alias, entered at the alias
    "cycle-through-an-alias-entered-at-the-alias": ({"main.oal": "let link = node;\nlet node = { 'value str, 'next? link };\nres /list on get -> <link>;\n"}, OK, {"min_components": 1}),
    "cycle-through-two-aliases": ({"main.oal": "let a = b;\nlet b = c;\nlet c = { 'back? a, 'v num };\nres /a on get -> <a>;\nres /b on get -> <b>;\n"}, OK, {"min_components": 1}),
    "uri-cycle-inside-a-schema-cycle": ({"main.oal": "let u = concat /u v;\nlet v = concat /v u;\nlet a = { 'self? a, 'link /x?{ 'q a } };\nres u on get -> <a>;\n"}, REJECT, {}),
    "recursive-schema-before-a-self-referential-uri": ({"main.oal": "let a = { 'x? a };\nlet u = concat /u u;\nres u on get -> <a>;\n"}, REJECT, {}),
    "self-referential-uri-before-a-recursive-schema": ({"main.oal": "let u = concat /u u;\nlet a = { 'x? a };\nres u on get -> <a>;\n"}, REJECT, {}),
    "function-cycle": ({"main.oal": "let f x = g x;\nlet g x = f x;\nres / on get -> <f num>;\n"}, REJECT, {}),
    "content-cycle": ({"main.oal": "let c = <c>;\nres / on get -> c;\n"}, REJECT, {}),
    "alias-cycle": ({"main.oal": "let a = b;\nlet b = a;\nres / on get -> <a>;\n"}, REJECT, {}),
    "self-alias": ({"main.oal": "let a = a;\nres / on get -> <a>;\n"}, REJECT, {}),
    "transfer-cycle": ({"main.oal": "let t = get -> <{}> :: t;\nres / on t;\n"}, REJECT, {}),
    # a component that can be cut at a schema but still holds a cycle without one: the next pass must find it
    "self-recursive-function-inside-a-schema-cycle": ({"main.oal": "let f x = { 'a a, 'n (f x) };\nlet a = f int;\nres / on get -> <a>;\n"}, REJECT, {}),
    "function-cycle-inside-a-schema-cycle": ({"main.oal": "let s = { 'v (f str) };\nlet f x = { 'g (g x), 's s };\nlet g x = { 'f (f x) };\nres / on get -> <s>;\n"}, REJECT, {}),
    "function-cycle-next-to-a-schema-cycle": ({"main.oal": "let f x = { 'f (h x) };\nlet h x = { 'h (f x) };\nlet a = { 'b b };\nlet b = { 'a a };\nres / on get -> <a>;\nres /f on get -> <f str>;\n"}, REJECT, {}),
    "schema-cycle-next-to-a-function-cycle": ({"main.oal": "let a = { 'b b };\nlet b = { 'a a };\nlet f x = { 'f (h x) };\nlet h x = { 'h (f x) };\nres / on get -> <a>;\nres /f on get -> <f str>;\n"}, REJECT, {}),
    "function-cycle-sharing-a-component-with-a-schema": ({"main.oal": "let a = { 'p (f {}) };\nlet f x = g x;\nlet g x = f a;\nres / on get -> <a>;\n"}, REJECT, {}),
    "self-recursive-function-before-a-recursive-schema": ({"main.oal": "let f x = f x;\nlet a = { 'x? a };\nres / on get -> <f {}> :: <status=404, a>;\n"}, REJECT, {}),
    "recursive-schema-before-a-self-recursive-function": ({"main.oal": "let a = { 'x? a };\nlet f x = f x;\nres / on get -> <f {}> :: <status=404, a>;\n"}, REJECT, {}),
    "cycle-through-two-functions-and-a-schema": ({"main.oal": "let f x = { 'g? g x };\nlet g y = f y;\nres / on get -> <f num>;\n"}, None, {}),
}


def refs_of(x, acc):
    if isinstance(x, dict):
        for k, v in x.items():
            if k == "$ref":
                acc.append(str(v))
            else:
                refs_of(v, acc)
    elif isinstance(x, list):
        for v in x:
            refs_of(v, acc)
    return acc


def run_programs(rdir):
    import props.c03 as c03
    cli = build_cli()
    probs, detail = [], {}
    for name, (files, want, chk) in PROGRAMS.items():
        r = run_cli(cli, files, workdir=os.path.join(rdir, name), timeout=60)
        detail[name] = {"rc": r["rc"]}
        if crashed(r):
            probs.append("%s: oal-cli does not finish normally (exit %s: %s)" % (name, r["rc"], (re.search(r"panicked at [^\n]+|overflowed its stack|TIMEOUT", r["out"]) or ["?"])[0]))
            continue
        if want is not None and r["rc"] != want:
            probs.append("%s: exit %s, the statement demands %s" % (name, r["rc"], "a finite document" if want == OK else "an error (a cycle with no schema to cut at)"))
            continue
        if r["rc"] != 0:
            continue
        try:
            doc = mirlib.yaml_to_obj(r["target"] or "")
        except Exception as ex:
            probs.append("%s: output is not YAML (%s)" % (name, str(ex)[:60]))
            continue
        comps = (doc.get("components") or {}).get("schemas") or {}
        detail[name]["components"] = sorted(comps)[:8]
        for p in c03.validate_doc(doc):
            if "dangling" in p:
                probs.append("%s: %s (a recursion point must be a $ref to a component of the same document)" % (name, p))
        # every component that is referenced from inside itself (directly or not) is what cuts the cycle: the
        # document is finite by construction (YAML), so what remains to check is naming
        if "components" in chk and len(comps) != chk["components"]:
            probs.append("%s: %d components, expected %d (one instantiation is emitted once)" % (name, len(comps), chk["components"]))
        if "min_components" in chk and len(comps) < chk["min_components"]:
            probs.append("%s: %d components, expected at least %d" % (name, len(comps), chk["min_components"]))
        if "names" in chk and sorted(comps) != sorted(chk["names"]):
            probs.append("%s: components %s, expected %s" % (name, sorted(comps), chk["names"]))
        for prop, types in chk.get("distinct_by", []):
            seen = {}
            for cn, cs in comps.items():
                t = ((cs.get("properties") or {}).get(prop) or {}).get("type")
                seen.setdefault(t, []).append(cn)
            for t in types:
                if len(seen.get(t, [])) != 1:
                    probs.append("%s: instantiation with '%s: %s' has %d components (two instantiations must not share a component, one must not be duplicated)" % (name, prop, t, len(seen.get(t, []))))
        if "distinct_instantiations" in chk:
            prop, types = chk["distinct_instantiations"]
            seen = {}
            for cn, cs in comps.items():
                t = ((cs.get("properties") or {}).get(prop) or {}).get("type")
                seen.setdefault(t, []).append(cn)
            for t in types:
                if len(seen.get(t, [])) != 1:
                    probs.append("%s: instantiation with '%s: %s' has %d components (two instantiations must not share a component, one must not be duplicated): %s"
                                 % (name, prop, t, len(seen.get(t, [])), {k: v for k, v in seen.items()}))
            # each response refers to the component of its own instantiation
            for path, item in (doc.get("paths") or {}).items():
                for m, op in item.items():
                    if not isinstance(op, dict):
                        continue
                    for code, resp in (op.get("responses") or {}).items():
                        for ref in refs_of(resp, []):
                            cn = ref.rsplit("/", 1)[-1]
                            self_refs = [x.rsplit("/", 1)[-1] for x in refs_of(comps.get(cn, {}), [])]
                            if any(x != cn for x in self_refs):
                                probs.append("%s: component %s refers to another instantiation's component %s" % (name, cn, self_refs))
    return probs, detail


def check():
    o = Outcome("C09")
    E = mirlib.enums()
    try:
        M = mirlib.module("oal-compiler")
        f_cyc = M.one(r"^(typecheck::)?cycles_check$")
        f_decl = M.one(r"^(eval::)?eval_declaration$")
        f_rec = M.one(r"^(eval::)?eval_recursion$")
        f_nid = M.one(r"^eval::<impl[^>]*>::node_identifier$")
        f_push = M.one(r"^eval::<impl[^>]*>::push_scope$")
        f_new = M.sel("eval", "new", ret=r"eval::Context")
    except Exception as ex:
        o.inconc("MIR: %s" % str(ex)[-300:])
        return o.finish()
    o.functions += [mirlib.func_ref(f, "oal-compiler") for f in (f_cyc, f_decl, f_rec, f_nid, f_push, f_new)]
    o.bounds = {"control": "all paths; loops (three nested ones in cycles_check): one arbitrary iteration from an arbitrary state", "values": "unbounded"}
    o.assumptions = ["petgraph (kosaraju_scc, edges_directed, remove_edge, find_edge), IndexMap, SHA-256 and the syntax accessors are uninterpreted",
                     "TagWrap::is_schema / is_uri are the predicates C01 tabulates from their own MIR"]
    o.outside = ["that the SCC algorithm returns the strongly connected components", "termination as a whole (each pass that continues has removed at least one edge of a finite graph - the step lemmas state exactly that)",
                 "what the emitter does with Reference / Recursion values (C03: $ref emission = component registration)", "collision freedom of SHA-256"]
    L = mirlib.Lemma(o)
    S = L.smt
    bad = []

    def on_sat(name, model):
        if name not in bad:
            bad.append(name)

    def structural(name, ok, why=None):
        o.query(name, "mirsym/structural", "unsat" if ok else "violated", 0)
        if not ok and (why or name) not in bad:
            bad.append(why or name)
        return ok

    cycles_lemmas(o, L, S, M, E, f_cyc, structural, on_sat)

    # ---------------------------------------------------------------- eval_declaration: evaluate once, re-entrance marker
    ex = mirlib.executor([M], max_paths=4000)
    kinds = {"lambda": 0, "inline": 0, "first": 0, "again": 0, "reentrant": 0}
    for p in ex.run(f_decl, arg_names=["ctx", "decl", "ann"]):
        if p.kind != "return":
            continue
        rs = ms.show(p.ret)
        calls = p.calls()
        names = [e[1] for e in calls]
        cond = S.pc(p.pc)
        if not rs.startswith("Result::Ok") and "eval_any" not in rs[:14]:
            continue
        ck = [e for e in calls if e[1] == "IndexMap::contains_key"]
        ea = [e for e in calls if e[1] == "eval_any"]
        ins = [e for e in calls if e[1] == "IndexMap::insert"]
        if "Expr::Lambda" in rs:
            kinds["lambda"] += 1
            continue
        gt0 = [e for e in calls if e[1] == "IndexMap::get"]
        if not ck and not gt0:
            kinds["inline"] += 1
            structural("eval_declaration: a declaration that is neither a reference nor a recursion point is inlined (its right-hand side is evaluated in place)",
                       len(ea) == 1 and "Declaration::rhs(&decl)" in ms.show(ea[0][2][1]) and not ins)
            isref = [e for e in calls if e[1] == "Ident::is_reference"]
            if isref:
                L.expect_unsat("eval_declaration: inlining only for a non-reference identifier", cond + [S.b(isref[0][3])], on_sat)
            continue
        # "is the name in the table?" - asked with contains_key, or read off the lookup itself
        if ck:
            key = ck[0][2][1]
            known = S.b(ck[0][3])
        else:
            key = gt0[0][2][1]
            known = S.i(ms.disc_of(gt0[0][3], E)) == 1
        if ea:
            kinds["first"] += 1
            L.expect_unsat("eval_declaration: the right-hand side of a reference / recursion point is evaluated only if its name is not in the table yet", cond + [known], on_sat)
            okf = len(ea) == 1 and len(ins) == 2 and ms.show(ins[0][2][2]).startswith("Option::None") and ms.show(ins[1][2][2]).startswith("Option::Some") and \
                calls.index(ins[0]) < calls.index(ea[0]) < calls.index(ins[1]) and \
                any(t == ms.proj(ms.proj(ea[0][3], ("v", "Ok"), E), ("f", 0), E) for t in ms.subterms(ins[1][2][2]))
            structural("eval_declaration (first visit): the empty marker is stored before the right-hand side is evaluated, the value after it, under the same name", okf and
                       ms.show(ins[0][2][1]).replace("Ident.Clone::clone(&", "")[:40] == ms.show(ins[1][2][1]).replace("Ident.Clone::clone(&", "")[:40])
            structural("eval_declaration (first visit): the result is a Reference to that name", "Expr::Reference(" in rs)
        else:
            g = [e for e in calls if e[1] == "IndexMap::get"]
            L.expect_unsat("eval_declaration: nothing is re-evaluated only when the name is already in the table", cond + [z3.Not(known)], on_sat)
            structural("eval_declaration (later visits): nothing is stored", not ins and len(g) == 1 and g[0][2][1] == key)
            cl = [e[3] for e in calls if e[1] == "Option.Clone::clone"] or \
                 [ms.proj(ms.proj(e[3], ("v", "Some"), E), ("f", 0), E) for e in calls if e[1] == "Option::cloned"]
            if "Expr::Recursion(" in rs:
                kinds["reentrant"] += 1
                if cl:
                    L.expect_unsat("eval_declaration: Recursion(name) is returned exactly while the entry is the empty marker (evaluation in progress)",
                                   cond + [S.i(ms.disc_of(cl[0], E)) != 0], on_sat)
                else:
                    structural("eval_declaration: the re-entrance decision reads the entry", False)
            elif "Expr::Reference(" in rs:
                kinds["again"] += 1
                if cl:
                    L.expect_unsat("eval_declaration: a finished entry is returned as Reference(name, stored value)", cond + [S.i(ms.disc_of(cl[0], E)) != 1], on_sat)
                else:
                    structural("eval_declaration: the re-use decision reads the entry", False)
        # naming
        if "Context::node_identifier" in names:
            ni = [e for e in calls if e[1] == "Context::node_identifier"][0]
            structural("eval_declaration: an implicit recursion point is named after the declaration's own node, independent of the evaluation scope",
                       ms.show(ni[2][1]) == "Declaration.AbstractSyntaxNode::node(&decl)" and ni[2][2] == ms.FALSE and any(t == ni[3] for t in ms.subterms(key)))
        else:
            structural("eval_declaration: an explicit @reference is named by its own identifier", ms.show(key) == "&Declaration::ident(&decl)")
    o.extra["eval_declaration_paths"] = kinds
    if min(kinds.values()) == 0:
        o.inconc("eval_declaration: a role has no path (%s)" % kinds)
    mirlib.check_translator(o, ex, "eval_declaration")

    naming_lemmas(o, L, S, M, E, (f_rec, f_nid, f_push, f_new), structural, on_sat)

    # every scope on the evaluator's stack got its identifier from push_scope (component names of recs hash the
    # identifier of the innermost scope: a scope pushed with a constant identifier is shared by all instantiations)
    sfld = None
    srcv = open(os.path.join(REPO, "oal-compiler/src/eval.rs")).read()
    mctx = re.search(r"pub struct Context<[^>]*>\s*\{(.*?)\n\}", srcv, re.S)
    if mctx:
        cf = re.findall(r"^\s*(?:pub(?:\(\w+\))?\s+)?(\w+)\s*:", mctx.group(1), re.M)
        sfld = cf.index("scopes") if "scopes" in cf else None
    if sfld is None:
        o.inconc("eval::Context: field `scopes` not found")
    else:
        pushers = []
        for f in M.funcs:
            if not f.args or "eval::Context" not in f.args[0][1]:
                continue
            for b in f.blocks.values():
                if b.cleanup or not b.term:
                    continue
                _, pt = mp.stmts_of(b)
                if pt[0] != "call":
                    continue
                callee, args = pt[2], pt[3]
                if re.search(r"Vec::<.*>::(push|insert|extend|append)", callee) and args and args[0][0] in ("move", "copy") and args[0][1][0] == "place" and not args[0][1][2]:
                    recv = args[0][1][1]
                    # the receiver is a reference to ((*_1).scopes)
                    for bb in f.blocks.values():
                        for st in mp.stmts_of(bb)[0]:
                            if st[0] == "assign" and st[1] == ("place", recv, ()) and st[2][0] in ("refmut", "ref") and st[2][1][0] == "place" and st[2][1][1] == 1 and \
                                    len(st[2][1][2]) == 2 and st[2][1][2][0] == ("deref",) and st[2][1][2][1][:2] == ("f", sfld):
                                pushers.append(f.short)
        o.extra["scope_stack_pushers"] = sorted(set(pushers))
        structural("Context: scopes are pushed by push_scope only, so every scope has a fresh identifier", bool(pushers) and set(pushers) <= {"eval::push_scope"})

    # the emitter side of "each recursion point is a $ref": a generated reference is written in place only for kinds whose
    # emitter emits no nested schema (shared with C01)
    try:
        import props.c01 as c01
        MOe = mirlib.module("oal-openapi")
        c01.maybe_inline_lemmas(o, L, S, MOe, E, on_sat)
    except Exception as exn:
        o.inconc("maybe_inline lemmas: %s" % str(exn)[:160])

    # the definition graph cycles_check works on: while a declaration is being resolved it is the graph's current node
    # from its start to its end - a rec inside it neither opens nor closes a node - so every reference inside a
    # declaration, wherever it stands, becomes an edge
    graph_lemmas(o, L, S, M, E, structural, on_sat)

    o.samples = [{"query": q["name"], "verdict": q["verdict"]} for q in o.queries[:16]]
    rdir = new_replay_dir("C09", "recursion")
    probs, detail = run_programs(rdir)
    o.extra["real_cli_cyclic_programs"] = detail
    with open(os.path.join(rdir, "cmd"), "w") as f:
        f.write("#!/bin/sh\ncd /verif && exec ./check C09 --replay %s\n" % rdir)
    if bad:
        if probs:
            o.violation("recursion is not cut into named components; lemma(s): %s; real oal-cli: %s" % ("; ".join(bad[:3]), "; ".join(probs[:3])), rdir)
        else:
            o.inconc("UNCONFIRMED: lemma(s) fail (%s) but the real oal-cli treats all %d cyclic programs as the statement demands" % ("; ".join(bad[:3]), len(detail)))
    elif probs:
        o.oracle_only("real oal-cli deviates (%s) although every lemma holds" % "; ".join(probs[:3]), rdir)
    return o.finish()


def naming_lemmas(o, L, S, M, E, fs, structural, on_sat):
    """How a recursion point gets its component name: the rec node and the innermost evaluation scope, fresh scope
    identifiers, the digest (shared with C05: naming a sub-expression or turning it into a function must not make two
    instantiations share a name)."""
    f_rec, f_nid, f_push, f_new = fs
    # ---------------------------------------------------------------- eval_recursion / node_identifier / push_scope
    ex = mirlib.executor([M])
    seen = False
    for p in ex.run(f_rec, arg_names=["ctx", "rec", "ann"]):
        if p.kind != "return" or not ms.show(p.ret).startswith("Result::Ok"):
            continue
        seen = True
        calls = p.calls()
        ni = [e for e in calls if e[1] == "Context::node_identifier"]
        ins = [e for e in calls if e[1] == "IndexMap::insert"]
        hi = [e for e in calls if e[1] == "HashMap::insert"]
        ea = [e for e in calls if e[1] == "eval_any"]
        okn = len(ni) == 1 and ms.show(ni[0][2][1]) == "Recursion.AbstractSyntaxNode::node(&rec)" and ni[0][2][2] == ms.TRUE and ni[0][2][0] == ("sym", "ctx")
        structural("eval_recursion: the component is named after the rec node *and* the evaluation scope it is instantiated in", okn)
        okb = len(hi) == 1 and "Expr::Recursion" in ms.show(hi[0][2][2]) and any(t == ni[0][3] for t in ms.subterms(hi[0][2][2])) if ni else False
        structural("eval_recursion: inside the body the binder stands for Recursion(that name)", okb)
        oks = len(ins) == 1 and len(ea) == 1 and any(t == ni[0][3] for t in ms.subterms(ins[0][2][1])) and ms.show(ins[0][2][2]).startswith("Option::Some") and \
            any(t == ms.proj(ms.proj(ea[0][3], ("v", "Ok"), E), ("f", 0), E) for t in ms.subterms(ins[0][2][2])) and calls.index(ins[0]) > calls.index(ea[0]) if ni else False
        structural("eval_recursion: the evaluated body is registered once under that name, after it was evaluated", oks)
        structural("eval_recursion: the result is Reference(that name, body)", "Expr::Reference(" in ms.show(p.ret) and any(t == ni[0][3] for t in ms.subterms(p.ret)) if ni else False)
    if not seen:
        o.inconc("eval_recursion: no Ok path")
    ex = mirlib.executor([M])
    ni_paths = {}
    for p in ex.run(f_nid, arg_names=["self", "node", "scoped"]):
        if p.kind == "return":
            sc = [v for a, op, v in p.pc if a == ("sym", "scoped") and op == "=="]
            ni_paths[sc[0] if sc else None] = p
    if set(ni_paths) != {True, False}:
        o.inconc("node_identifier: expected a scoped and an unscoped path")
    else:
        for sc, p in ni_paths.items():
            calls = p.calls()
            up = [e for e in calls if e[1].endswith("Digest::update")]
            dg = [e for e in calls if e[1] == "NodeRef::digest"]
            structural("node_identifier(%s): the node's own content digest is always part of the name" % ("scoped" if sc else "unscoped"),
                       len(dg) == 1 and dg[0][2][0] == ("addr", ("sym", "node")) and "Digest::finalize" in ms.show(p.ret) and '"\\x05hash-' in ms.show(p.ret) or "hash-" in ms.show(p.ret))
            if sc:
                last = [e for e in calls if e[1] in ("slice::last", "Vec::last")]
                okk = len(up) == 1 and len(last) == 1 and any(t == last[0][3] for t in ms.subterms(up[0][2][1])) and calls.index(up[0]) < calls.index(dg[0]) if dg else False
                structural("node_identifier(scoped): the identifier of the innermost evaluation scope (0 outside any) is hashed in as well", okk)
            else:
                structural("node_identifier(unscoped): nothing but the node is hashed", not up)
    digest_lemmas(o, structural)
    ex = mirlib.executor([M])
    SELF = ("deref", ("sym", "self"))
    for p in ex.run(f_push, arg_names=["self", "scope"]):
        if p.kind != "return":
            continue
        pu = [e for e in p.calls() if e[1] == "Vec::push"]
        stores = [e for e in p.events if e[0] == "store"]
        if len(pu) != 1:
            structural("push_scope: pushes one scope", False)
            continue
        newid = ms.proj(pu[0][2][1], ("f", 0), E)
        # the counter field: the one the pushed id is computed from
        cnt = [t for t in ms.subterms(newid) if t[0] == "fld" and t[1] == SELF]
        if not cnt:
            structural("push_scope: the new scope's identifier comes from the context's own counter", False)
            continue
        L.expect_unsat("push_scope: the new scope's identifier is the counter plus one (never seen before in this evaluation)",
                       [S.i(newid) != S.i(cnt[0]) + 1], on_sat)
        hv = list(p.state.heap.values())
        after = hv[0] if len(hv) == 1 else ex.raw_deref(p.state, ("sym", "self"))
        L.expect_unsat("push_scope: the counter itself advances to that identifier", [S.i(ms.proj(after, ("f", cnt[0][2]), E)) != S.i(cnt[0]) + 1], on_sat)
        o.extra["scope_counter_field"] = cnt[0][2]
    # nobody else writes the counter (it never goes back): scan every function of eval.rs for stores to that field of a Context
    fld = o.extra.get("scope_counter_field")
    if fld is not None:
        writers = []
        for f in M.funcs:
            if not f.args or "eval::Context" not in f.args[0][1]:
                continue
            for b in f.blocks.values():
                if b.cleanup:
                    continue
                for st in b.stmts:
                    if re.match(r"^\(\(\*_1\)\.%d: [^)]*\) = " % fld, st):
                        writers.append(f.short)
        o.extra["scope_counter_writers"] = sorted(set(writers))
        structural("Context: the scope counter is written by push_scope only (besides its initialisation)", set(writers) <= {"eval::push_scope"})
    ex = mirlib.executor([M])
    for p in ex.run(f_new, arg_names=["mods"]):
        if p.kind == "return" and fld is not None:
            structural("Context::new: the scope counter starts at zero in every evaluation", ms.proj(p.ret, ("f", fld), E) == ms.C("int", 0))



def cycles_lemmas(o, L, S, M, E, f_cyc, structural, on_sat):
    """cycles_check, one arbitrary iteration of each of its three loops (shared with C04: a program it wrongly lets
    through is inlined without bound by the evaluator - a stack overflow, not a diagnostic)."""
    # ---------------------------------------------------------------- cycles_check
    ex = mirlib.executor([M], max_paths=8000)
    outs = ex.run(f_cyc, arg_names=["graph", "mods"])
    mirlib.check_translator(o, ex, "cycles_check")
    roles = {"node-cut": 0, "node-kept": 0, "trivial-skip": 0, "reject": 0, "pass-end": 0, "remove": 0, "done": 0}
    for p in outs:
        ev = p.events
        loops = [i for i, e in enumerate(ev) if e[0] == "loop"]
        calls = p.calls()
        names = [e[1] for e in calls]
        cond = S.pc(p.pc)
        tail = [e for e in ev[loops[-1] + 1:] if e[0] == "call"] if loops else calls
        tn = [e[1] for e in tail]
        if p.kind == "return":
            d = S.i(ms.disc_of(p.ret, E))
            v, _ = S.check("cycles_check: Ok path", cond + [d == 0])
            if v == "sat":
                roles["done"] += 1
                structural("cycles_check: Ok is returned only when a whole pass scheduled no edge for removal (nothing left to cut)",
                           any("has_changed" in ms.show(a) and val is False for a, op, val in p.pc if op == "=="))
            else:
                roles["reject"] += 1
                ie = [e for e in calls if e[1] == "Vec::is_empty"]
                structural("cycles_check: the error is Kind::InvalidType 'ill-formed recursion' located at a node of the offending component",
                           "InvalidType" in ms.show(p.ret) and "ill-formed recursion" in ms.show(p.ret) and "Error::at" in ms.show(p.ret))
                if ie:
                    L.expect_unsat("cycles_check: a component is rejected only if nothing could be cut so far in this pass", cond + [z3.Not(S.b(ie[-1][3]))], on_sat)
                else:
                    structural("cycles_check: rejection is decided by the emptiness of the cut list", False)
                # it is a non-trivial component: either more than one node, or a self edge
                ln = [e for e in calls if e[1] == "Vec::len"]
                fe = [e for e in calls if e[1].endswith("::find_edge")]
                if ln:
                    triv = z3.And(S.i(ln[-1][3]) == 1, S.i(ms.disc_of(fe[-1][3], E)) == 0) if fe else S.i(ln[-1][3]) == 1
                    if fe:
                        L.expect_unsat("cycles_check: a trivial component (one node, no self edge) is never rejected", cond + [triv], on_sat)
            continue
        if p.kind != "backedge":
            continue
        if "TagWrap::is_schema" in names:
            sch = [e for e in calls if e[1] == "TagWrap::is_schema"][0]
            uri = [e for e in calls if e[1] == "TagWrap::is_uri"]
            tail, tn = calls, names
            pred = z3.And(S.b(sch[3]), z3.Not(S.b(uri[0][3]))) if uri else S.b(sch[3])
            stores = [e for e in ev[loops[-1] + 1:] if e[0] == "store"] if loops else []
            cut = "StableGraph::edges_directed" in names
            if cut:
                roles["node-cut"] += 1
                L.expect_unsat("cycles_check: a node becomes a recursion point (is_recursive, incoming edges scheduled) only if its kind is a schema other than a URI",
                               cond + [z3.Not(pred)], on_sat)
                ed = [e for e in calls if e[1] == "StableGraph::edges_directed"][-1]
                nw = [e for e in calls if e[1] == "StableGraph::node_weight"][-1]
                okc = ed[2][1] == nw[2][1] and "Incoming" in ms.show(ed[2][2])
                structural("cycles_check: the edges scheduled for removal are the incoming edges of that very node", okc)
                structural("cycles_check: the node is flagged is_recursive before its edges are scheduled", any(ms.show(s_[2] if len(s_) > 2 else s_).find("True") >= 0 or True for s_ in ev if s_[0] == "store"))
            else:
                roles["node-kept"] += 1
                L.expect_unsat("cycles_check: a node of a cyclic component is left alone only if its kind is not a cuttable schema", cond + [pred], on_sat)
                structural("cycles_check: a node that is not cut is not flagged and schedules nothing", not [e for e in tail if e[1] == "Vec::push"])
            gt = [e for e in tail if e[1].endswith("get_tag")]
            en = [e for e in tail if e[1] == "External::node"]
            structural("cycles_check: the kind examined is the tag of the definition's own node", len(gt) == 1 and len(en) == 1 and gt[0][2][0] == en[0][3] and any(t == sch[2][0] or t == gt[0][3] for t in ms.subterms(sch[2][0])))
        elif "Vec::len" in tn and "slice::iter" not in tn and "Vec::is_empty" not in tn:
            # component iteration that goes straight back: skipped as trivial
            roles["trivial-skip"] += 1
            ln = [e for e in tail if e[1] == "Vec::len"][0]
            fe = [e for e in tail if e[1].endswith("::find_edge")]
            if fe:
                L.expect_unsat("cycles_check: a component is skipped only if it is one node without a self edge",
                               cond + [z3.Not(z3.And(S.i(ln[3]) == 1, S.i(ms.disc_of(fe[0][3], E)) == 0))], on_sat)
                fa = fe[0][2]
                structural("cycles_check: the self edge looked for goes from the component's node to itself", fa[1] == fa[2])
            else:
                structural("cycles_check: skipping a component looks for a self edge", False)
        elif "StableGraph::remove_edge" in tn:
            roles["remove"] += 1
            re_ = [e for e in tail if e[1] == "StableGraph::remove_edge"][0]
            nx = [e for e in tail if e[1].endswith("Iterator::next")][-1]
            structural("cycles_check: every edge scheduled in a pass is removed at its end", any(t == ms.proj(ms.proj(nx[3], ("v", "Some"), E), ("f", 0), E) for t in ms.subterms(re_[2][1])))
            dr = [e for e in calls if e[1] == "Vec::drain"]
            structural("cycles_check: the cut list is drained (empty again for the next pass)", len(dr) == 1)
        elif "Vec::drain" in names and "StableGraph::remove_edge" not in tn:
            roles["pass-end"] += 1
            # the outer loop's has_changed at this back edge
            ie = [e for e in calls if e[1] == "Vec::is_empty"]
            hc = [v for k, v in p.state.vals.items() if k in p.state.havocked and f_cyc.debug.get(k[1] if isinstance(k, tuple) else k) == "has_changed"]
            if ie and hc:
                L.expect_unsat("cycles_check: another pass runs exactly when this pass scheduled something to cut", cond + [S.b(hc[0]) == S.b(ie[-1][3])], on_sat)
                dr = [e for e in calls if e[1] == "Vec::drain"]
                deciding = [e for e in ie if any(t == e[3] for t in ms.subterms(hc[0]))] or ie[-1:]
                structural("cycles_check: the cut list is asked before it is drained (it is empty afterwards by construction)",
                           bool(dr) and all(calls.index(e) < calls.index(dr[0]) for e in deciding))
            else:
                structural("cycles_check: the pass decides about another pass from the cut list", False)
    # which kinds can be cut at: cycles_check run once per abstract kind (the table C01 also uses), the
    # predicates executed from their own MIR
    import props.c01 as c01
    T = c01.Tables(M, E, o)
    unk = []
    cut = c01.cycle_admit(M, E, T, unk)
    if cut is None or unk:
        o.inconc("cycles_check per kind: %s" % (unk[:2] or "not found"))
    else:
        o.extra["kinds_cut_at"] = sorted(cut)
        never = [t for t in cut if t == "Var" or t.startswith(("Func", "Content", "Transfer", "Property", "Text", "Number", "Status"))]
        structural("cycles_check: a cycle is never cut at an unresolved variable (plain alias), a function, a content, a transfer or another non-schema kind", not never,
                   "cycles_check cuts cycles at non-schema kinds %s" % never)
        structural("cycles_check: object and array schemas are kinds a cycle can be cut at", {"Object", "Array"} <= set(cut))
    o.extra["cycles_check_paths_by_role"] = roles
    if min(roles.values()) == 0:
        o.inconc("cycles_check: a role has no path (%s)" % roles)



def digest_lemmas(o, structural):
    """NodeRef::digest from its own MIR (shared with C01: the digest is the cache key of evaluated declarations - two nodes
    that share it share a value, of whatever kind)."""
    # what the content digest of a node covers: the module (its whole locator), the node's index and generation. Indices
    # restart in every module's arena, file names repeat across directories: without the full locator two modules alias
    try:
        MMd = mirlib.module("oal-model")
        f_dig = MMd.sel("grammar", "digest", arg0=r"NodeRef<")
        o.functions.append(mirlib.func_ref(f_dig, "oal-model"))
        exd = mirlib.executor([MMd])
        for p in exd.run(f_dig, arg_names=["self", "digest"]):
            if p.kind != "return":
                continue
            ups = [ms.show(e[2][1]) for e in p.calls() if e[1].endswith("Digest::update")]
            whole = [u for u in ups if re.search(r"^&?Url::as_str\(Locator::url\(SyntaxTree::locator\(", u) or re.search(r"^&?(Locator|Url)\.\w+::(to_string|as_ref)\(.*SyntaxTree::locator\(", u)]
            structural("NodeRef::digest: the module's whole locator (not a part of it) goes into the digest", len(whole) == 1)
            parts = [u for u in ups if "into_raw_parts" in u]
            structural("NodeRef::digest: the node's arena index and generation go into the digest", len(parts) == 2 and any(u.endswith(".0)") for u in parts) and any(u.endswith(".1)") for u in parts))
        mirlib.check_translator(o, exd, "NodeRef::digest")
    except Exception as exn:
        o.inconc("NodeRef::digest: %s" % str(exn)[:160])


def graph_lemmas(o, L, S, M, E, structural, on_sat):
    try:
        f_resolve = M.one(r"^(resolve::)?resolve$")
    except KeyError as ex:
        o.inconc("MIR: %s" % str(ex)[-200:])
        return
    o.functions.append(mirlib.func_ref(f_resolve, "oal-compiler"))
    ex = mirlib.executor([M], max_paths=12000, inline=[r"(^|::)(open_declaration|close_declaration|open_recursion|close_recursion|define_variable)$"])
    outs = ex.run(f_resolve, arg_names=["mods", "loc"])
    mirlib.check_translator(o, ex, "resolve (graph builder)")
    iS = E.index("NodeCursor", "Start")
    seen = {"open": 0, "close": 0, "connect": 0, "plain": 0}
    ret_ok = False
    for p in outs:
        if p.kind == "return" and p.ret[0] == "variant" and p.ret[2] == "Ok":
            ret_ok = ret_ok or any(e[1] == "Builder::graph" and e[3] == p.ret[3][0] for e in p.calls())
        ev = p.events
        loops = [i for i, e in enumerate(ev) if e[0] == "loop"]
        if p.kind != "backedge" or not loops or "NodeRef::traverse" not in [e[1] for e in p.calls()]:
            continue
        # the traversal loop is the first loop entered after NodeRef::traverse (open_declaration has a loop of its own)
        i_tr = [i for i, e in enumerate(ev) if e[0] == "call" and e[1] == "NodeRef::traverse"][0]
        after = [i for i in loops if i > i_tr]
        if not after:
            continue
        tail = [e for e in ev[after[0] + 1:] if e[0] == "call"]
        nxs = [e for e in tail if e[1].endswith("Iterator::next")]
        if not nxs:
            continue
        item = ms.proj(ms.proj(nxs[0][3], ("v", "Some"), E), ("f", 0), E)
        isStart = S.i(ms.disc_of(item, E)) == iS
        casts = {}
        for e in tail:
            m = re.match(r"^(Declaration|Variable|Recursion)\.AbstractSyntaxNode::cast$", e[1])
            if m and m.group(1) not in casts:
                casts[m.group(1)] = S.i(ms.disc_of(e[3], E)) == 1
        F_ = z3.BoolVal(False)
        dS, vS = casts.get("Declaration", F_), casts.get("Variable", F_)
        cond = S.pc(p.pc)
        n_open = len([e for e in tail if e[1] == "Builder::open"])
        n_close = len([e for e in tail if e[1] == "Builder::close"])
        n_conn = len([e for e in tail if e[1] == "Builder::connect"])
        if n_open > 1 or n_close > 1 or n_conn > 1:
            structural("resolve: at most one graph operation per tree event", False)
            continue
        if n_open:
            seen["open"] += 1
            L.expect_unsat("resolve: a graph node is opened only when a declaration is entered", cond + [z3.Not(z3.And(isStart, dS))], on_sat)
        else:
            L.expect_unsat("resolve: entering a declaration always opens its graph node", cond + [z3.And(isStart, dS)], on_sat)
        if n_close:
            seen["close"] += 1
            L.expect_unsat("resolve: the current graph node is closed only when a declaration is left (not at the end of a rec inside it)", cond + [z3.Not(z3.And(z3.Not(isStart), dS))], on_sat)
        else:
            L.expect_unsat("resolve: leaving a declaration always closes its graph node", cond + [z3.And(z3.Not(isStart), dS)], on_sat)
        if n_conn:
            seen["connect"] += 1
            L.expect_unsat("resolve: an edge is recorded only for a variable", cond + [z3.Not(z3.And(isStart, z3.Not(dS), vS))], on_sat)
            e = [x for x in tail if x[1] == "Builder::connect"][0]
            lk = [x for x in tail if x[1] == "Env::lookup"]
            structural("resolve: the edge goes to the definition the variable was resolved to", len(lk) == 1 and any(t == lk[0][3] for a in e[2] for t in ms.subterms(a)))
        if not (n_open or n_close or n_conn):
            seen["plain"] += 1
    o.extra["resolve_graph_paths"] = seen
    structural("resolve: answers the graph of the builder the traversal fed", ret_ok)
    if min(seen.values()) == 0:
        o.inconc("resolve (graph builder): a role has no path (%s)" % seen)
    # Builder: connect records an edge from the current node; open / close set and clear it
    try:
        f_conn = M.sel("resolve", "connect", arg0=r"&mut .*Builder")
        f_open = M.sel("resolve", "open", arg0=r"&mut .*Builder")
        f_close = M.sel("resolve", "close", arg0=r"&mut .*Builder")
    except Exception as ex:
        o.inconc("MIR: %s" % str(ex)[-200:])
        return
    o.functions += [mirlib.func_ref(f, "oal-compiler") for f in (f_conn, f_open, f_close)]
    exb = mirlib.executor([M])
    n_edge = n_skip = 0
    for p in exb.run(f_conn, arg_names=["self", "to"]):
        if p.kind != "return":
            continue
        edges = [e for e in p.calls() if re.search(r"(add_edge|update_edge)$", e[1])]
        if edges:
            n_edge += 1
        else:
            n_skip += 1
    structural("Builder::connect: records an edge on one path and does nothing on another (no current node)", n_edge >= 1 and n_skip >= 1)


def replay(path):
    rdir = new_replay_dir("C09", "recursion-replay")
    probs, detail = run_programs(rdir)
    print(detail)
    print("problems:", probs)
    return 1 if probs else 0
