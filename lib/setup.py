"""Warm caches: Kani harness crate, oal-cli, nightly MIR target dirs. Failures here are
reported but do not fail setup (each check rebuilds what it needs anyway)."""
import os
import sys

sys.path.insert(0, os.path.dirname(os.path.abspath(__file__)))
from vcommon import log


def main():
    rc = 0
    try:
        import kanirun
        ok, out, t = kanirun.prepare("kern")
        log("kani kern crate: %s in %.0fs" % ("built" if ok else "FAILED", t))
    except Exception as ex:
        log("kani warm-up failed:", ex)
    try:
        from vcommon import build_cli
        build_cli()
        log("oal-cli built")
    except Exception as ex:
        log("oal-cli warm-up failed:", ex)
    try:
        import mirdump
        for c in mirdump.CRATES:
            mirdump.dump(c)
            log("MIR of", c, "dumped")
    except Exception as ex:
        log("MIR warm-up failed:", ex)
    return rc


if __name__ == "__main__":
    sys.exit(main())
