"""Meaning-preserving source rewrites of oal programs (text level) and a canonical form of
emitted documents, used by the replay oracle of C05 (and C02).

All rewrites work on a deliberately simple program layout: one statement per line, each ending
in `;`, `use` lines first. The programs they are applied to are written that way.
"""
import json
import re

TOKEN = re.compile(r"\"[^\"]*\"|`[^`]*`|#[^\n]*\n|//[^\n]*|/\*.*?\*/|'[0-9a-zA-Z$@_-]+|@?[0-9a-zA-Z$_-]+|/[0-9a-zA-Z%~_.-]+|->|::|\s+|.", re.S)
PRIMS = ("num", "str", "int", "bool", "uri")
KEYWORDS = set(PRIMS) | {"let", "res", "use", "as", "on", "rec", "get", "put", "post", "patch", "delete", "options", "head", "media", "headers", "status", "concat"}


def statements(src):
    return [x for x in re.split(r"(?<=;)\n", src) if x.strip()]


def join(stmts):
    return "\n".join(s.rstrip("\n") for s in stmts) + "\n"


def trivia(src, style):
    """Comments / whitespace wherever the source already separates tokens with whitespace, and around punctuation."""
    toks = TOKEN.findall(src)
    out = []
    # "varied" (round 13): what a comment may contain - runs of asterisks, slashes, the other comment opener, line breaks,
    # wide characters - taken in turn; every one of them is one comment for the lexer of the pinned tree
    varied = [" /* ** section ** */ ", " /* a * b *** c */ ", " /*\n * multi\n * line\n */ ", " /* // not a line comment */ ", " // /* not a block\n  ",
              " /* / * / */ ", " /* caf\u00e9 \u4e2d \U0001F600 */ ", " /**/ ", " //\n  "]
    fill = {"block": " /* c */ ", "line": " // c\n  ", "space": " \t\n ", "varied": None}[style]
    k = 0
    for i, t in enumerate(toks):
        if style == "varied":
            fill = varied[k % len(varied)]
            k += 1
        if t.isspace():
            out.append(fill)
        elif t in (";", ",", "=", "->", "::", "{", "}", "(", ")", "[", "]", "|", "&", "~") and not (t == "=" and i and toks[i - 1] in ("media", "headers", "status")):
            out.append(fill + t + fill)
        else:
            out.append(t)
    return "".join(out)


def declared_names(src):
    names = []
    for m in re.finditer(r"(?m)^\s*let\s+(@?[A-Za-z_][A-Za-z0-9_$-]*)((?:\s+[A-Za-z_][A-Za-z0-9_$-]*)*)\s*=", src):
        names.append(m.group(1))
        names += m.group(2).split()
    for m in re.finditer(r"\brec\s+([A-Za-z_][A-Za-z0-9_$-]*)", src):
        names.append(m.group(1))
    return [n for n in dict.fromkeys(names) if n not in KEYWORDS]


def rename(src, suffix="_rn"):
    """Every declared name, parameter and rec binder consistently renamed (@references keep their name: it is output)."""
    parts = re.split(r"(`[^`]*`|\"[^\"]*\"|#[^\n]*\n)", src)      # annotations and strings are not code
    for nm in sorted(declared_names(src), key=len, reverse=True):
        if nm.startswith("@"):
            continue
        for i in range(0, len(parts), 2):
            parts[i] = re.sub(r"(?<![A-Za-z0-9_@'$/.-])%s(?![A-Za-z0-9_$-])" % re.escape(nm), nm + suffix, parts[i])
    return "".join(parts)


def canonical_parameters(src):
    """Every function's parameters renamed, consistently inside that function, to p0, p1, ... - so that all functions
    share their parameter names (a consistent renaming that creates every possible name clash between callers and callees)."""
    out = []
    for stmt in statements(src):
        m = re.match(r"^(\s*(?:#[^\n]*\n\s*)*let\s+@?[A-Za-z_][A-Za-z0-9_$-]*)((?:\s+[A-Za-z_][A-Za-z0-9_$-]*)+)(\s*=.*)$", stmt, re.S)
        if not m:
            out.append(stmt)
            continue
        params = m.group(2).split()
        body = m.group(3)
        parts = re.split(r"(`[^`]*`|\"[^\"]*\")", body)
        # two steps, so that swapping names (x y -> p0 p1 where y is already called p0) cannot capture
        for i, nm in enumerate(params):
            for j in range(0, len(parts), 2):
                parts[j] = re.sub(r"(?<![A-Za-z0-9_@'$/.-])%s(?![A-Za-z0-9_$-])" % re.escape(nm), "\x00%d\x00" % i, parts[j])
        body = "".join(parts)
        body = re.sub(r"\x00(\d+)\x00", lambda mm: "p%s" % mm.group(1), body)
        out.append(m.group(1) + "".join(" p%d" % i for i in range(len(params))) + body)
    return join(out)


def permute(src, how):
    st = statements(src)
    uses = [s for s in st if s.lstrip().startswith("use ")]
    rest = [s for s in st if not s.lstrip().startswith("use ")]
    if how == "reversed":
        rest = list(reversed(rest))
    elif how == "rotated":
        rest = rest[1:] + rest[:1]
    elif how == "res-first":
        rest = [s for s in rest if s.lstrip().startswith("res ")] + [s for s in rest if not s.lstrip().startswith("res ")]
    return join(uses + rest)


def parenthesise(src):
    """`let x [params] = RHS;` -> `let x [params] = (RHS);` for right-hand sides that are plain expressions, and `[T]` -> `[(T)]`."""
    out = []
    for s in statements(src):
        m = re.match(r"^(\s*let\s+[^=]+=\s*)(.*?)(\s*(?:`[^`]*`\s*)?);\s*$", s, re.S)
        if m and "#" not in s and not re.match(r"^\s*(get|put|post|patch|delete|options|head)\b", m.group(2)) and "->" not in m.group(2) and " on " not in m.group(2):
            s = "%s(%s)%s;" % (m.group(1), m.group(2), m.group(3))
        out.append(s)
    return join(out)


def name_primitives(src):
    """Each primitive keyword in schema position gets a `let` of its own: `'p num` -> `'p zz_p0` + `let zz_p0 = num;`."""
    k = [0]
    decls = []

    def sub(m):
        nm = "zz_p%d" % k[0]
        k[0] += 1
        decls.append("let %s = %s;" % (nm, m.group(1)))
        return nm

    out = []
    for s in statements(src):
        if s.lstrip().startswith(("use ", "#")):
            out.append(s)
            continue
        # not inside annotations / strings
        parts = re.split(r"(`[^`]*`|\"[^\"]*\"|#[^\n]*\n)", s)
        for i in range(0, len(parts), 2):
            parts[i] = re.sub(r"(?<![A-Za-z0-9_@'$/.-])(%s)(?![A-Za-z0-9_$-])" % "|".join(PRIMS), sub, parts[i])
        out.append("".join(parts))
    st = out
    uses = [s for s in st if s.lstrip().startswith("use ")]
    rest = [s for s in st if not s.lstrip().startswith("use ")]
    return join(uses + decls + rest)


def inline(src, names):
    """Replace every use of the (non-recursive, parameterless, annotation-free) declarations `names` by their
    parenthesised right-hand side and drop the declarations."""
    st = statements(src)
    body = {}
    keep = []
    for s in st:
        m = re.match(r"^\s*let\s+([A-Za-z_][A-Za-z0-9_$-]*)\s*=\s*(.*?)\s*;\s*$", s, re.S)
        if m and m.group(1) in names:
            body[m.group(1)] = m.group(2)
        else:
            keep.append(s)
    out = join(keep)
    for _ in range(len(body) + 1):
        parts = re.split(r"(`[^`]*`|\"[^\"]*\"|#[^\n]*\n)", out)
        for nm, rhs in body.items():
            for i in range(0, len(parts), 2):
                parts[i] = re.sub(r"(?<![A-Za-z0-9_@'$/.-])%s(?![A-Za-z0-9_$-])" % re.escape(nm), lambda m, rhs=rhs: "(" + rhs + ")", parts[i])
        out = "".join(parts)
    return out


def through_identity(src, names):
    """`let a = RHS;` -> `let zz_idK zz_x = zz_x;` + `let a = zz_idK (RHS);` (a single-use function applied to it;
    one function per use: a function's parameter has one kind)."""
    out = []
    k = 0
    for s in statements(src):
        m = re.match(r"^(\s*let\s+([A-Za-z_@][A-Za-z0-9_$-]*)\s*=\s*)(.*?)\s*;\s*$", s, re.S)
        if m and m.group(2) in names:
            out.append("let zz_id%d zz_x = zz_x;" % k)
            s = "%szz_id%d (%s);" % (m.group(1), k, m.group(3))
            k += 1
        out.append(s)
    return join(out)


def abstract_primitive(src, names):
    """`let a = ..int..;` -> `let zz_fK zz_p = ..zz_p..;` + `let a = zz_fK int;` : the body becomes a single-use function of
    one of its primitives (the first one outside annotations and strings), applied to that primitive."""
    out = []
    k = 0
    for s in statements(src):
        m = re.match(r"^(\s*let\s+([A-Za-z_@][A-Za-z0-9_$-]*)\s*=\s*)(.*?)\s*;\s*$", s, re.S)
        if m and m.group(2) in names:
            parts = re.split(r"(`[^`]*`|\"[^\"]*\"|#[^\n]*\n)", m.group(3))
            done = False
            for i in range(0, len(parts), 2):
                mm = re.search(r"(?<![A-Za-z0-9_@'$/.-])(int|num|str|bool)(?![A-Za-z0-9_$-])", parts[i])
                if mm:
                    prim = mm.group(1)
                    parts[i] = parts[i][:mm.start()] + "zz_p" + parts[i][mm.end():]
                    done = True
                    break
            if done:
                out.append("let zz_f%d zz_p = %s;" % (k, "".join(parts)))
                s = "%szz_f%d %s;" % (m.group(1), k, prim)
                k += 1
        out.append(s)
    return join(out)


def to_module(files, names, module="zzmod.oal", qualifier=None):
    """Move the declarations `names` (a dependency-closed group) of main.oal into a new module imported by main."""
    st = statements(files["main.oal"])
    moved = [s for s in st if re.match(r"^\s*(?:#[^\n]*\n\s*)?let\s+(@?[A-Za-z_][A-Za-z0-9_$-]*)", s) and re.match(r"^\s*(?:#[^\n]*\n\s*)?let\s+(@?[A-Za-z_][A-Za-z0-9_$-]*)", s).group(1) in names]
    rest = [s for s in st if s not in moved]
    uses = [s for s in rest if s.lstrip().startswith("use ")]
    other = [s for s in rest if not s.lstrip().startswith("use ")]
    main = join(uses + ['use "%s"%s;' % (module, (" as " + qualifier) if qualifier else "")] + other)
    if qualifier:
        parts = re.split(r"(`[^`]*`|\"[^\"]*\"|#[^\n]*\n)", main)
        for nm in names:
            for i in range(0, len(parts), 2):
                parts[i] = re.sub(r"(?<![A-Za-z0-9_@'$/.-])%s(?![A-Za-z0-9_$-])" % re.escape(nm), qualifier + "." + nm, parts[i])
        main = "".join(parts)
    out = dict(files)
    out["main.oal"] = main
    out[module] = join(moved)
    return out


# ---- canonical form of a document ------------------------------------------------------

def canonical(doc):
    """Generated component names (hash-...) are replaced by H0, H1, ... in order of first reference in a walk of
    `paths` with sorted keys (following references as they are met); object keys are sorted."""
    comps = ((doc.get("components") or {}).get("schemas") or {})
    order = {}

    def walk(x):
        if isinstance(x, dict):
            for k in sorted(x, key=str):
                v = x[k]
                if k == "$ref" and isinstance(v, str):
                    nm = v.rsplit("/", 1)[-1]
                    if nm.startswith("hash-") and nm not in order:
                        order[nm] = "H%d" % len(order)
                        if nm in comps:
                            walk(comps[nm])
                    elif not nm.startswith("hash-") and ("@" + nm) not in order:
                        order["@" + nm] = None
                        if nm in comps:
                            walk(comps[nm])
                else:
                    walk(v)
        elif isinstance(x, list):
            for v in x:
                walk(v)

    walk(doc.get("paths") or {})
    for nm in sorted(comps):
        if nm.startswith("hash-") and nm not in order:
            # unreachable from paths: name it by its own content
            order[nm] = "U" + json.dumps(comps[nm], sort_keys=True)[:40]
    text = json.dumps(doc, sort_keys=True)
    for nm, new in sorted(order.items(), key=lambda kv: -len(kv[0])):
        if new is not None:
            text = text.replace(nm, new)
    return json.loads(text)


def diff_paths(a, b, where="", out=None, limit=6):
    out = [] if out is None else out
    if len(out) >= limit:
        return out
    if type(a) != type(b):
        out.append("%s: %s vs %s" % (where or "/", json.dumps(a)[:60], json.dumps(b)[:60]))
    elif isinstance(a, dict):
        for k in sorted(set(a) | set(b), key=str):
            if k not in a or k not in b:
                out.append("%s/%s: only in the %s document" % (where, k, "original" if k in a else "rewritten"))
            else:
                diff_paths(a[k], b[k], where + "/" + str(k), out, limit)
    elif isinstance(a, list):
        if len(a) != len(b):
            out.append("%s: list lengths %d vs %d" % (where, len(a), len(b)))
        else:
            for i, (x, y) in enumerate(zip(a, b)):
                diff_paths(x, y, where + "/%d" % i, out, limit)
    elif a != b:
        out.append("%s: %s vs %s" % (where, json.dumps(a)[:60], json.dumps(b)[:60]))
    return out
