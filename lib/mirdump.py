"""Dump rustc MIR (`-Zunpretty=mir`, nightly) of /repo's crates, from the current working tree.

The dump is regenerated on every call: the crate's cargo fingerprint in the private
target dir is removed first (a no-op rebuild would print nothing). Third-party build
output is cached in /verif/.cache/mir-target.
"""
import glob
import os
import shutil

from vcommon import CACHE, REPO, run, log

TARGET = os.path.join(CACHE, "mir-target")
OUT = os.path.join(CACHE, "mir")

# name -> (crate dir, cargo target selector, fingerprint glob)
CRATES = {
    "oal-syntax": ("oal-syntax", ["--lib"], "oal-syntax-*"),
    "oal-model": ("oal-model", ["--lib"], "oal-model-*"),
    "oal-compiler": ("oal-compiler", ["--lib"], "oal-compiler-*"),
    "oal-openapi": ("oal-openapi", ["--lib"], "oal-openapi-*"),
    "oal-client": ("oal-client", ["--lib"], "oal-client-*"),
    "oal-cli": ("oal-client", ["--bin", "oal-cli"], "oal-client-*"),
    "oal-lsp": ("oal-client", ["--bin", "oal-lsp"], "oal-client-*"),
    "oal-wasm": ("oal-wasm", ["--lib"], "oal-wasm-*"),
}

_done = {}


def dump(name, force=True):
    """Returns the path of the MIR text for `name`; raises on build failure."""
    if name in _done:
        return _done[name]
    cdir, sel, fp = CRATES[name]
    os.makedirs(OUT, exist_ok=True)
    if force:
        for d in glob.glob(os.path.join(TARGET, "debug", ".fingerprint", fp)):
            shutil.rmtree(d, ignore_errors=True)
    out_path = os.path.join(OUT, name + ".mir")
    cmd = ["cargo", "+nightly", "rustc", "--offline"] + sel + ["--", "-Zunpretty=mir", "-C", "debug-assertions=off", "-Awarnings"]
    import subprocess
    from vcommon import env
    e = env({"CARGO_TARGET_DIR": TARGET})
    with open(out_path + ".tmp", "w") as fo, open(out_path + ".err", "w") as fe:
        rc = subprocess.call(cmd, cwd=os.path.join(REPO, cdir), env=e, stdout=fo, stderr=fe, timeout=1800)
    if rc != 0 or os.path.getsize(out_path + ".tmp") == 0:
        err = open(out_path + ".err").read()[-3000:]
        raise RuntimeError("MIR dump of %s failed (rc=%s):\n%s" % (name, rc, err))
    os.replace(out_path + ".tmp", out_path)
    _done[name] = out_path
    return out_path


if __name__ == "__main__":
    import sys
    import time
    for n in (sys.argv[1:] or list(CRATES)):
        t = time.time()
        p = dump(n)
        print(n, p, os.path.getsize(p), "%.1fs" % (time.time() - t))
