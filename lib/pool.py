"""The pool of programs the checks know to be accepted on the pinned tree: every oracle corpus in one place.

Used as additional replay input: C01 (an accepted program never crashes the back end), C03 (every emitted
document is closed and well formed), C06 (same bytes on every run). A program enters the pool from the
property module that owns it; nothing here is specific to one property.
"""
import importlib


def programs():
    """name -> {file name: text} (main module is main.oal)."""
    out = {}

    def add(prefix, name, files):
        if isinstance(files, str):
            files = {"main.oal": files}
        if files and "main.oal" in files:
            out["%s/%s" % (prefix, name)] = dict(files)

    def mod(n):
        return importlib.import_module("props." + n)

    try:
        for k, v in mod("c02").FACTS.items():
            add("c02", k, v["files"])
    except Exception:
        pass
    try:
        for k, v in mod("c05").BASE.items():
            add("c05", k, v["files"])
    except Exception:
        pass
    try:
        for k, (files, facts, rc) in mod("c08").EVAL_PROGRAMS.items():
            if rc == 0:
                add("c08", k, files)
    except Exception:
        pass
    try:
        for k, (files, want, chk) in mod("c09").PROGRAMS.items():
            if want == 0:
                add("c09", k, files)
    except Exception:
        pass
    try:
        for k, v in mod("c01").EMITTER_PROGRAMS.items():
            add("c01", k, v)
    except Exception:
        pass
    try:
        for k, v in mod("c03").CORPUS.items():
            add("c03", k, v)
    except Exception:
        pass
    try:
        for k, v in mod("c06").PROGRAMS.items():
            if v:
                add("c06", k, v)
    except Exception:
        pass
    try:
        for k, (src, want) in mod("c07").MATRIX.items():
            if want == 0:
                add("c07", k, src)
    except Exception:
        pass
    try:
        import lspcorpus
        for k, P in lspcorpus.PROGRAMS.items():
            add("lsp", k, P["files"])
    except Exception:
        pass
    return out
