"""Engine M: symbolic execution of rustc MIR with uninterpreted calls, decided by z3.

Values are terms (nested tuples). Calls are applications of uninterpreted function
symbols named after the callee (same symbol for the same callee everywhere). Every
non-cleanup path of a function body is executed; a loop is one arbitrary iteration
from an arbitrary pre-state (locals assigned in the loop are havocked at the head,
a path that takes the back-edge ends with kind 'backedge').

Term forms
  ('c', kind, v)            constant; kind in int|bool|str|unit|other
  ('sym', name)             free symbol (argument, havocked local, uninitialised)
  ('app', f, args)          uninterpreted call result
  ('out', f, i, args)       value written by f through its i-th (&mut) argument
  ('fld', t, i) ('down', t, V) ('deref', t) ('idx', t, k)
  ('aggr', path, fields, names)   struct / tuple / array / closure
  ('variant', enum, V, fields)
  ('upd', t, key, v)        functional update, key = ('f', i) | ('v', V)
  ('ite', c, a, b)
  ('disc', t)
  ('op', name, a, b) ('op1', name, a)
  ('ref', placekey, mut)    pointer to a tracked place; ('addr', v) pointer to a value
  ('boxraw', b)             raw pointer inside Box b
"""
import itertools
import re

import mirparse as mp
from mirparse import stmts_of

# --------------------------------------------------------------------------------
# enum tables

BUILTIN_ENUMS = {
    "Option": ["None", "Some"],
    "Result": ["Ok", "Err"],
    "ControlFlow": ["Continue", "Break"],
    "Ordering": ["Less", "Equal", "Greater"],
}


_KNOWN_NAMES = None


def default_helper_pred():
    global _KNOWN_NAMES
    if _KNOWN_NAMES is None:
        import json
        import os
        try:
            d = json.load(open(os.path.join(os.path.dirname(os.path.abspath(__file__)), "firstparty_names.json")))
            _KNOWN_NAMES = set(n for v in d.values() for n in v)
        except (OSError, ValueError):
            _KNOWN_NAMES = set()
    if not _KNOWN_NAMES:
        return None
    return lambda f: f.short not in _KNOWN_NAMES and not re.search(r"::(fmt|clone|eq|ne|hash|cmp|partial_cmp|default|from|into|drop)$", f.short)


def scan_enums(paths):
    """Parse `enum Name { A, B(..), C{..} }` declarations from Rust sources."""
    out = {}
    for p in paths:
        try:
            src = open(p, encoding="utf-8").read()
        except OSError:
            continue
        # string literals first (token regexes contain `//`, brackets and braces), then comments
        src = re.sub(r'r#"(?:.|\n)*?"#|r"[^"]*"|"(?:[^"\\\n]|\\.)*"', '""', src)
        src = re.sub(r"//[^\n]*", "", src)
        src = re.sub(r"/\*(?:.|\n)*?\*/", "", src)
        for m in re.finditer(r"\benum\s+(\w+)\s*(?:<[^>{]*>)?\s*\{", src):
            name = m.group(1)
            i = m.end()
            depth = 1
            j = i
            while j < len(src) and depth:
                if src[j] in "{(<[":
                    depth += 1
                elif src[j] in "})]":
                    depth -= 1
                elif src[j] == ">" and src[j - 1] != "-":
                    depth -= 1
                j += 1
            body = src[i:j - 1]
            vs = []
            d = 0
            cur = ""
            for ch in body:
                if ch in "{(<[":
                    d += 1
                elif ch in "})]>":
                    d -= 1
                if ch == "," and d == 0:
                    vs.append(cur)
                    cur = ""
                else:
                    cur += ch
            vs.append(cur)
            names = []
            for v in vs:
                v = re.sub(r"#\[[^\]]*\]", "", v).strip()
                mm = re.match(r"^(\w+)", v)
                if mm:
                    names.append(mm.group(1))
            if names:
                out.setdefault(name, names)
    return out


# --------------------------------------------------------------------------------
# terms


def C(kind, v):
    return ("c", kind, v)


TRUE = C("bool", True)
FALSE = C("bool", False)
UNIT = C("unit", "()")


def parse_const(text):
    t = text.strip()
    if t == "true":
        return TRUE
    if t == "false":
        return FALSE
    if t == "()":
        return UNIT
    m = re.match(r"^(-?\d+)_(?:[iu](?:8|16|32|64|128|size))$", t)
    if m:
        return C("int", int(m.group(1)))
    m = re.match(r"^(-?\d+)$", t)
    if m:
        return C("int", int(m.group(1)))
    if t.startswith('"') or t.startswith('b"'):
        return C("str", t)
    return C("other", t)


def assume_in(t, cond, val):
    """Simplify nested ite's inside t under the assumption cond == val."""
    if not isinstance(t, tuple) or not t:
        return t
    if t[0] == "ite":
        if t[1] == cond:
            return assume_in(t[2] if val else t[3], cond, val)
    if t[0] in ("c", "sym"):
        return t
    changed = False
    out = []
    for x in t:
        if isinstance(x, tuple) and x:
            y = assume_in(x, cond, val)
            if y is not x:
                changed = True
            out.append(y)
        else:
            out.append(x)
    if not changed:
        return t
    r = tuple(out)
    if r[0] == "ite":
        return ite(r[1], r[2], r[3])
    return r


def ite(c, a, b):
    if c == TRUE:
        return a
    if c == FALSE:
        return b
    a = assume_in(a, c, True)
    b = assume_in(b, c, False)
    if a == b:
        return a
    return ("ite", c, a, b)


class Enums:
    def __init__(self, table):
        self.table = dict(BUILTIN_ENUMS)
        self.table.update(table or {})
        # variants that identify their enum uniquely are also looked up bare
    def split(self, path):
        """Constructor path -> (enum, variant) or None."""
        segs = mp.split_path(mp.strip_generics(path))
        if len(segs) >= 2 and segs[-2] in self.table and segs[-1] in self.table[segs[-2]]:
            return segs[-2], segs[-1]
        return None

    def index(self, enum, variant):
        vs = self.table.get(enum)
        if vs and variant in vs:
            return vs.index(variant)
        return None

    def variants(self, enum):
        return self.table.get(enum)


def disc_of(t, enums):
    k = t[0]
    if k == "variant":
        i = enums.index(t[1], t[2])
        if i is not None:
            return C("int", i)
        return ("disc", t)
    if k == "ite":
        return ite(t[1], disc_of(t[2], enums), disc_of(t[3], enums))
    if k == "upd":
        if t[2][0] == "v":
            return disc_of(t[1], enums)
    if k == "app":
        f = t[1]
        if f == "Result.Try::branch":
            return disc_of(t[2][0], enums)
        if f == "Option.Try::branch":
            d = disc_of(t[2][0], enums)
            if d[0] == "c":
                return C("int", 1 - d[2])
            return ("op", "Sub", C("int", 1), d)
    return ("disc", t)


def proj(t, key, enums):
    """Pure projection with read-over-write normalisation. key: ('f',i) ('v',V) ('idx',k)."""
    k = t[0]
    if k == "ite":
        return ite(t[1], proj(t[2], key, enums), proj(t[3], key, enums))
    if key[0] == "f":
        i = key[1]
        if k == "aggr":
            if i < len(t[2]):
                return t[2][i]
        if k == "upd":
            if t[2] == key:
                return t[3]
            if t[2][0] == "f":
                return proj(t[1], key, enums)
        if k == "boxraw":
            return t
        return ("fld", t, i)
    if key[0] == "v":
        v = key[1]
        if k == "variant":
            if t[2] == v:
                return ("aggr", t[1] + "::" + v, t[3], None)
            return ("bottom", t, v)
        if k == "upd" and t[2][0] == "v":
            if t[2] == key:
                return t[3]
            return ("down", t[1], v)
        if k == "app":
            f = t[1]
            x = t[2][0] if t[2] else None
            if f == "Result.Try::branch":
                if v == "Continue":
                    return ("aggr", "Continue", (proj(proj(x, ("v", "Ok"), enums), ("f", 0), enums),), None)
                if v == "Break":
                    e = proj(proj(x, ("v", "Err"), enums), ("f", 0), enums)
                    return ("aggr", "Break", (("variant", "Result", "Err", (e,)),), None)
            if f == "Option.Try::branch":
                if v == "Continue":
                    return ("aggr", "Continue", (proj(proj(x, ("v", "Some"), enums), ("f", 0), enums),), None)
                if v == "Break":
                    return ("aggr", "Break", (("variant", "Option", "None", ()),), None)
        return ("down", t, v)
    if key[0] == "idx":
        if k == "aggr" and t[1] == "array":
            m = re.match(r"^(\d+) of \d+$", str(key[1]))
            if m and int(m.group(1)) < len(t[2]):
                return t[2][int(m.group(1))]
        return ("idx", t, key[1])
    raise ValueError(key)


def setproj(t, key, nv, enums):
    if key[0] == "f" and t[0] == "aggr" and key[1] < len(t[2]):
        f = list(t[2])
        f[key[1]] = nv
        return ("aggr", t[1], tuple(f), t[3])
    if key[0] == "v" and t[0] == "variant" and t[2] == key[1] and nv[0] == "aggr":
        return ("variant", t[1], t[2], nv[2])
    if t[0] == "upd" and t[2] == key:
        return ("upd", t[1], key, nv)
    if t[0] == "ite":
        return ite(t[1], setproj(t[2], key, assume_in(nv, t[1], True), enums),
                   setproj(t[3], key, assume_in(nv, t[1], False), enums))
    return ("upd", t, key, nv)


def erase_seeds(t):
    if not isinstance(t, tuple) or not t:
        return t
    if t[0] == "sym":
        return ("c", "other", "seedless") if t[1].startswith("seed!") else t
    if t[0] == "c":
        return t
    return tuple(erase_seeds(x) if isinstance(x, tuple) else x for x in t)


def mentions_seed(t):
    for x in subterms(t):
        if x[0] == "sym" and x[1].startswith("seed!"):
            return True
    return False


def subst_seed(t, suffix):
    if not isinstance(t, tuple) or not t:
        return t
    if t[0] == "sym":
        return ("sym", t[1] + suffix) if t[1].startswith("seed!") else t
    if t[0] == "c":
        return t
    return tuple(subst_seed(x, suffix) if isinstance(x, tuple) else x for x in t)


def subterms(t):
    """All subterms (pre-order), tuples only."""
    stack = [t]
    while stack:
        x = stack.pop()
        if isinstance(x, tuple) and x:
            if isinstance(x[0], tuple):
                # a tuple of terms (argument list / field list), not a term itself
                for y in x:
                    if isinstance(y, tuple):
                        stack.append(y)
                continue
            yield x
            for y in x[1:]:
                if isinstance(y, tuple):
                    stack.append(y)


def apps(t, fname=None):
    for x in subterms(t):
        if x and x[0] == "app" and (fname is None or x[1] == fname):
            yield x


def show(t, depth=0):
    """Compact human-readable rendering of a term."""
    if not isinstance(t, tuple) or not t:
        return str(t)
    k = t[0]
    if depth > 12:
        return "..."
    s = lambda x: show(x, depth + 1)
    if k == "c":
        return str(t[2])
    if k == "sym":
        return t[1]
    if k == "app":
        return "%s(%s)" % (t[1], ", ".join(s(a) for a in t[2]))
    if k == "out":
        return "%s#out%d(%s)" % (t[1], t[2], ", ".join(s(a) for a in t[3]))
    if k == "fld":
        return "%s.%d" % (s(t[1]), t[2])
    if k == "down":
        return "(%s as %s)" % (s(t[1]), t[2])
    if k == "deref":
        return "*%s" % s(t[1])
    if k == "addr":
        return "&%s" % s(t[1])
    if k == "ref":
        return "&place%s" % (t[1],)
    if k == "aggr":
        return "%s{%s}" % (t[1], ", ".join(s(a) for a in t[2]))
    if k == "variant":
        return "%s::%s(%s)" % (t[1], t[2], ", ".join(s(a) for a in t[3]))
    if k == "upd":
        return "%s[%s := %s]" % (s(t[1]), t[2], s(t[3]))
    if k == "ite":
        return "ite(%s, %s, %s)" % (s(t[1]), s(t[2]), s(t[3]))
    if k == "disc":
        return "disc(%s)" % s(t[1])
    if k == "op":
        return "%s(%s, %s)" % (t[1], s(t[2]), s(t[3]))
    if k == "op1":
        return "%s(%s)" % (t[1], s(t[2]))
    if k == "asint":
        return s(t[1])
    return "%s(%s)" % (k, ", ".join(s(a) for a in t[1:]))


# --------------------------------------------------------------------------------
# execution state


class State:
    __slots__ = ("vals", "heap", "pc", "pcmap", "events", "notes", "havocked", "entered", "epoch")

    def __init__(self):
        self.vals = {}
        self.heap = {}
        self.pc = []         # [(atom, op, value)]  op in '==' '!=' 'in' ; value int/bool/tuple
        self.pcmap = {}      # atom -> ('==', v) | ('!=', set)
        self.events = []     # [(kind, fname, args, result)]
        self.notes = []
        self.havocked = set()
        self.entered = set()
        self.epoch = 0

    def copy(self):
        s = State()
        s.vals = dict(self.vals)
        s.heap = dict(self.heap)
        s.pc = list(self.pc)
        s.pcmap = {k: (v[0], set(v[1]) if isinstance(v[1], set) else v[1]) for k, v in self.pcmap.items()}
        s.events = list(self.events)
        s.notes = list(self.notes)
        s.havocked = set(self.havocked)
        s.entered = set(self.entered)
        s.epoch = self.epoch
        return s

    def assume_eq(self, atom, v):
        """Returns False if syntactically inconsistent."""
        cur = self.pcmap.get(atom)
        if cur:
            if cur[0] == "==":
                return cur[1] == v
            if v in cur[1]:
                return False
        self.pcmap[atom] = ("==", v)
        self.pc.append((atom, "==", v))
        return True

    def assume_ne(self, atom, vs):
        cur = self.pcmap.get(atom)
        if cur:
            if cur[0] == "==":
                return cur[1] not in vs
            cur[1].update(vs)
        else:
            self.pcmap[atom] = ("!=", set(vs))
        self.pc.append((atom, "notin", tuple(sorted(vs, key=str))))
        return True


class Outcome:
    __slots__ = ("kind", "ret", "state", "info", "func")

    def __init__(self, kind, ret, state, info=None, func=None):
        self.kind = kind      # return | diverge | backedge | unreachable | unknown | limit
        self.ret = ret
        self.state = state
        self.info = info
        self.func = func

    @property
    def pc(self):
        return self.state.pc

    @property
    def events(self):
        return self.state.events

    def calls(self, fname=None):
        return [e for e in self.state.events if e[0] == "call" and (fname is None or e[1] == fname)]


STD_PREFIX = re.compile(r"\b(?:std|core|alloc)::(?:result|option|ops|boxed|vec|string|convert|clone|cmp|default|iter|slice|rc|sync)::")
INT_TY = re.compile(r"^(?:[ui](?:8|16|32|64|128|size))$")

DIVERGE_PANIC = re.compile(r"(panic|unwrap_failed|expect_failed|assert_failed|unreachable_display|panic_bounds_check|"
                           r"slice_(start|end)_index_len_fail|slice_index_order_fail|str_index_overflow_fail|begin_panic|"
                           r"panic_fmt|panic_display|panic_nounwind|panic_cannot_unwind|handle_alloc_error|capacity_overflow)")


class Executor:
    """Symbolic executor over one or more parsed MIR modules."""

    def __init__(self, modules, enums=None, inline=None, summaries=True, max_paths=20000, max_inline_depth=6,
                 seeded=None, seed_insensitive=None):
        self.modules = modules if isinstance(modules, (list, tuple)) else [modules]
        self.enums = enums if isinstance(enums, Enums) else Enums(enums)
        self.inline = [re.compile(x) for x in (inline or [])]
        self.emulate_option_map = False     # opt-in: follow the closure of Option::map / and_then instead of keeping the call opaque
        self.emulate_result_alternatives = False   # opt-in: Result::or_else / unwrap_or / unwrap_or_else fork on Ok / Err (closure bodies followed)
        # private helpers a refactoring introduced are inlined: every first-party function whose name did not
        # exist when the lemmas were written (lib/firstparty_names.json, recorded from the pinned tree)
        self.inline_pred = default_helper_pred()
        self.summaries = summaries
        self.max_paths = max_paths
        self.max_inline_depth = max_inline_depth
        self.frame_seq = itertools.count(1)
        self.sym_seq = itertools.count(1)
        self.unknown = []          # texts of constructs the translator did not understand (on executed paths)
        self.summaries_used = set()
        self.callees = set()
        self.paths = 0
        self.loop_info = {}
        self._resolve_cache = {}
        self._promoted_cache = {}
        self._inline_stack = []
        # callees whose result may depend on a hidden seed (hash iteration order, clock, ...): they get an
        # extra ('sym', 'seed!..') argument; `seed_insensitive` callees do not propagate it
        self.seeded = seeded
        self.seed_insensitive = seed_insensitive
        self.seed_sites = []
        self.call_hook = None       # (callee, fsym, args) -> term | None : override a callee's result

    # ---- symbol naming ---------------------------------------------------------
    def fsym(self, callee):
        return mp.short_name(callee)

    def resolve(self, callee, nargs):
        """Find the MIR body for a call-site callee text (same dump), or None."""
        key = (callee, nargs)
        if key in self._resolve_cache:
            return self._resolve_cache[key]
        s = mp.strip_generics(callee)
        name = mp.split_path(re.sub(r"^<(.+) as .+?>::", r"\1::", s))[-1] if "::" in s else s
        cands = []
        for M in self.modules:
            for f in M.funcs:
                if f.kind != "fn" or len(f.args) != nargs:
                    continue
                fsegs = mp.split_path(mp.strip_generics(re.sub(r"<impl at [^>]*>", "@impl", f.name)))
                if fsegs[-1] != name:
                    continue
                cands.append(f)
        res = None
        if len(cands) == 1:
            res = cands[0]
        elif len(cands) > 1:
            # disambiguate by the type named at the call site
            m = re.match(r"^<(.+) as (.+?)>::", s)
            ty = None
            if m:
                ty = mp.strip_angle(m.group(1)).split("::")[-1]
            else:
                segs = mp.split_path(s)
                if len(segs) >= 2:
                    ty = mp.strip_angle(segs[-2])
            if ty:
                narrowed = [f for f in cands if self.impl_type(f) == ty or (("::" + ty + "::") in ("::" + mp.strip_generics(f.name)))]
                if len(narrowed) == 1:
                    res = narrowed[0]
        self._resolve_cache[key] = res
        return res

    _impl_cache = {}

    def impl_type(self, f):
        site = f.impl_site()
        if not site:
            return None
        if site in self._impl_cache:
            return self._impl_cache[site]
        from vcommon import REPO
        import os
        ty = None
        try:
            lines = open(os.path.join(REPO, site[0]), encoding="utf-8").read().split("\n")
            line = lines[site[1] - 1]
            m = re.match(r"^\s*impl(?:<[^>]*>)?\s+(?:(.+?)\s+for\s+)?(.+?)\s*(?:where|\{|$)", line)
            if m:
                ty = mp.strip_angle(m.group(2)).split("::")[-1]
        except (OSError, IndexError):
            pass
        self._impl_cache[site] = ty
        return ty

    def closure_target(self, t):
        """The MIR body of a closure value (an aggregate `{closure@file:l:c: l:c}{captures}` or a zero-sized constant)."""
        while t[0] == "addr":
            t = t[1]
        txt = None
        if t[0] == "aggr" and isinstance(t[1], str) and "{closure@" in t[1]:
            txt = t[1]
        elif t[0] == "c" and isinstance(t[2], str) and "{closure@" in t[2]:
            txt = t[2]
        if txt is None:
            return None
        m = re.search(r"\{closure@([^}]+)\}", txt)
        if not m:
            return None
        hits = [f for M in self.modules for f in M.funcs if "{closure#" in f.name and f.args and ("{closure@%s}" % m.group(1)) in f.args[0][1]]
        return hits[0] if len(hits) == 1 else None

    def pipeline_stages(self, t):
        """[(source term, [(kind, closure body, closure value)])] - one entry per iterator source - for a pipeline built from
        map / filter / filter_map over iterator sources joined by chain; None if it has another shape (then the call
        stays uninterpreted)."""
        while t[0] == "addr":
            t = t[1]
        if t[0] != "app":
            return None
        base = t[1].split("::")[-1]
        if base in ("map", "filter", "filter_map") and "Iterator" in t[1] and len(t[2]) == 2:
            cf = self.closure_target(t[2][1])
            ctor = None
            if cf is None and base == "map" and t[2][1][0] == "c" and isinstance(t[2][1][2], str):
                path = mp.strip_generics(t[2][1][2].replace("ZeroSized: ", ""))
                ev = self.enums.split(path)
                if ev:
                    ctor = ev            # `.map(Enum::Variant)`: wraps the element
                else:
                    mm = re.search(r"(?:^|::)([A-Z]\w*)::([A-Z]\w*)$", path)
                    if mm:
                        ctor = (mm.group(1), mm.group(2))     # a tuple-variant constructor of a third-party enum
            if ctor is None and (cf is None or len(cf.args) != 2 or cf in self._inline_stack):
                return None
            inner = self.pipeline_stages(t[2][0])
            if inner is None:
                return None
            stage = ("ctor", ctor, None) if ctor is not None else (base, cf, t[2][1])
            return [(src, st + [stage]) for src, st in inner]
        if base == "chain" and "Iterator" in t[1] and len(t[2]) == 2:
            a, b = self.pipeline_stages(t[2][0]), self.pipeline_stages(t[2][1])
            if a is None or b is None:
                return None
            return a + b
        if base in ("cloned", "copied", "by_ref", "fuse") and "Iterator" in t[1]:
            return self.pipeline_stages(t[2][0])
        if re.search(r"(::iter|::iter_mut|IntoIterator::into_iter|::values|::keys|::into_values|::into_keys|::drain|Option::iter|::into_iter)$", t[1]):
            return [(t, [])]
        if "Iterator" in t[1] and base in ("flat_map", "flatten", "zip", "enumerate", "rev", "skip", "take", "skip_while", "take_while", "step_by", "peekable"):
            return [(t, [])]     # an opaque source: its elements are arbitrary
        return None

    def should_inline(self, f):
        if any(r.search(f.name) for r in self.inline):
            return True
        # private helpers: every first-party function of the dumps that the lemma does not treat as atomic
        return self.inline_pred is not None and f.kind == "fn" and "{closure" not in f.name and bool(self.inline_pred(f))

    # ---- places -----------------------------------------------------------------
    def undef(self, frame, func, local):
        nm = func.debug.get(local)
        return ("sym", "%s#%s_%d%s" % (func.short, "f%d" % frame if frame > 1 else "", local, ("=" + nm) if nm else ""))

    def read_local(self, st, frame, func, local):
        v = st.vals.get((frame, local))
        if v is None:
            v = self.undef(frame, func, local)
            st.vals[(frame, local)] = v
        return v

    def apply_proj(self, st, v, p):
        if p[0] == "deref":
            return self.deref(st, v)
        if p[0] == "f":
            ty = p[2] if len(p) > 2 else ""
            if ty.startswith(("std::ptr::Unique<", "core::ptr::Unique<")):
                return ("boxraw", v)
            if v[0] == "boxraw":
                return v
            return proj(v, ("f", p[1]), self.enums)
        if p[0] == "v":
            return proj(v, ("v", p[1]), self.enums)
        if p[0] == "idx":
            return proj(v, ("idx", p[1]), self.enums)
        raise ValueError(p)

    def deref(self, st, v):
        k = v[0]
        if k == "ref":
            return self.read_placekey(st, v[1])
        if k == "ptr":
            return self.readrest(st, self.deref(st, v[1]), v[2])
        if k == "addr":
            return v[1]
        if k == "boxraw":
            b = v[1]
            if b[0] == "box":
                return b[1]
            if b in st.heap:
                return st.heap[b]
            return self.raw_deref(st, b)
        if k == "box":
            return v[1]
        if k == "ite":
            return ite(v[1], self.deref(st, v[2]), self.deref(st, v[3]))
        if v in st.heap:
            return st.heap[v]
        return self.raw_deref(st, v)

    def raw_deref(self, st, v):
        return ("deref", v) if st.epoch == 0 else ("deref", v, st.epoch)

    def read_placekey(self, st, pk):
        frame, func, local, projs = pk
        v = self.read_local(st, frame, func, local)
        for p in projs:
            v = self.apply_proj(st, v, p)
        return v

    def read_place(self, st, frame, func, place):
        return self.read_placekey(st, (frame, func, place[1], place[2]))

    def write_placekey(self, st, pk, nv):
        frame, func, local, projs = pk
        # find last deref in projs
        last = -1
        for i, p in enumerate(projs):
            if p[0] == "deref":
                last = i
        if last < 0:
            if not projs:
                st.vals[(frame, local)] = nv
                return
            base = self.read_local(st, frame, func, local)
            st.vals[(frame, local)] = self.update(st, base, projs, nv)
            return
        # pointer value = place up to (excluding) the deref
        ptr = self.read_placekey(st, (frame, func, local, projs[:last]))
        rest = projs[last + 1:]
        self.write_through(st, ptr, rest, nv)

    def write_through(self, st, ptr, rest, nv):
        k = ptr[0]
        if k == "ref":
            fr, fn, loc, pj = ptr[1]
            self.write_placekey(st, (fr, fn, loc, pj + tuple(rest)), nv)
            return
        if k == "ptr":
            self.write_through(st, ptr[1], tuple(ptr[2]) + tuple(rest), nv)
            return
        if k == "ite":
            st.notes.append("write through conditional pointer (treated as an opaque pointer)")
        key = ptr[1] if k == "boxraw" else ptr
        cur = st.heap.get(key)
        if cur is None:
            cur = self.raw_deref(st, key)
        st.heap[key] = self.update(st, cur, rest, nv)
        st.events.append(("store", key, tuple((p[0], p[1]) if len(p) > 1 else (p[0],) for p in rest), nv))

    def readrest(self, st, v, rest):
        for p in rest:
            v = self.apply_proj(st, v, p)
        return v

    def update(self, st, t, projs, nv):
        if not projs:
            return nv
        p = projs[0]
        if p[0] == "deref":
            # nested deref inside a value: write through the inner pointer
            self.write_through(st, t, projs[1:], nv)
            return t
        key = ("f", p[1]) if p[0] == "f" else (("v", p[1]) if p[0] == "v" else ("idx", p[1]))
        if p[0] == "f" and len(p) > 2 and p[2].startswith(("std::ptr::Unique<", "core::ptr::Unique<")):
            return t
        sub = self.apply_proj(st, t, p)
        if key[0] == "idx":
            return ("upd", t, key, self.update(st, sub, projs[1:], nv))
        return setproj(t, key, self.update(st, sub, projs[1:], nv), self.enums)

    # ---- operands / rvalues -----------------------------------------------------
    def operand(self, st, frame, func, op):
        k = op[0]
        if k == "const":
            return self.constant(st, func, op[1])
        if k in ("copy", "move"):
            return self.read_place(st, frame, func, op[1])
        self.unknown.append("operand: %r" % (op,))
        return ("sym", "unknown%d" % next(self.sym_seq))

    def constant(self, st, func, text):
        m = re.search(r"::promoted\[(\d+)\]$", text)
        if m:
            v = self.promoted(func, int(m.group(1)))
            if v is not None:
                return v
        return parse_const(text)

    def promoted(self, func, k):
        key = (func.name, k)
        if key in self._promoted_cache:
            return self._promoted_cache[key]
        want = func.name + "::promoted[%d]" % k
        res = None
        for M in self.modules:
            for f in M.funcs:
                if f.kind == "const" and f.name == want:
                    outs = self.run(f, [], collect_all=True, _count=False)
                    rets = [o for o in outs if o.kind == "return"]
                    if len(rets) == 1:
                        res = self.export(rets[0].state, rets[0].ret)
        self._promoted_cache[key] = res
        return res

    def export(self, st, v, depth=0):
        """Turn tracked references into value pointers (for values that leave the frame)."""
        if not isinstance(v, tuple) or not v or depth > 40:
            return v
        if v[0] == "ref":
            return ("addr", self.export(st, self.read_placekey(st, v[1]), depth + 1))
        if v[0] == "ptr":
            return ("addr", self.export(st, self.deref(st, v), depth + 1))
        if v[0] == "boxraw":
            return ("addr", self.export(st, self.deref(st, v), depth + 1))
        if v[0] in ("c", "sym"):
            return v
        return tuple(self.export(st, x, depth + 1) if isinstance(x, tuple) else x for x in v)

    def kind_of_operand_type(self, func, op):
        if op[0] in ("copy", "move"):
            pl = op[1]
            if not pl[2]:
                return func.locals.get(pl[1], "")
            last = pl[2][-1]
            if last[0] == "f" and len(last) > 2:
                return last[2]
        return ""

    def rvalue(self, st, frame, func, rv):
        k = rv[0]
        E = self.enums
        if k == "use":
            return self.operand(st, frame, func, rv[1])
        if k == "cast":
            v = self.operand(st, frame, func, rv[1])
            kind = rv[3]
            if kind.startswith("IntToInt") or kind.startswith("Transmute") or kind.startswith("PtrToPtr") or \
               kind.startswith("PointerCoercion") or kind.startswith("FnPtrToPtr") or kind.startswith("PointerExposeProvenance") or \
               kind.startswith("PointerWithExposedProvenance"):
                return v
            return ("op1", "cast:" + kind, v)
        if k in ("ref", "refmut", "rawref", "rawrefmut"):
            pl = rv[1]
            ismut = k in ("refmut", "rawrefmut")
            last = -1
            for i, p in enumerate(pl[2]):
                if p[0] == "deref":
                    last = i
            if last < 0:
                return ("ref", (frame, func, pl[1], pl[2]), ismut)
            # the borrowed place goes through a pointer: resolve that pointer now, so that a
            # later reassignment of the local holding it does not move the borrow
            base = self.read_placekey(st, (frame, func, pl[1], pl[2][:last]))
            rest = tuple(pl[2][last + 1:])
            if base[0] == "ref":
                fr0, fn0, loc0, pj0 = base[1]
                return ("ref", (fr0, fn0, loc0, pj0 + rest), ismut or base[2])
            if not rest:
                return base
            if base[0] == "ptr":
                return ("ptr", base[1], tuple(base[2]) + rest)
            return ("ptr", base, rest)
        if k == "discriminant":
            return disc_of(self.read_place(st, frame, func, rv[1]), E)
        if k == "binop":
            a = self.operand(st, frame, func, rv[2])
            b = self.operand(st, frame, func, rv[3])
            ta = self.kind_of_operand_type(func, rv[2]).strip()
            tb = self.kind_of_operand_type(func, rv[3]).strip()
            if INT_TY.match(ta) or INT_TY.match(tb):
                if a[0] != "c" and a[0] != "asint":
                    a = ("asint", a)
                if b[0] != "c" and b[0] != "asint":
                    b = ("asint", b)
            return self.binop(rv[1], a, b)
        if k == "unop":
            a = self.operand(st, frame, func, rv[2])
            if rv[1] == "Not":
                if a == TRUE:
                    return FALSE
                if a == FALSE:
                    return TRUE
                if a[0] == "op1" and a[1] == "Not":
                    return a[2]
            if rv[1] == "CopyForDeref":
                return a
            return ("op1", rv[1], a)
        if k == "nullop":
            return ("sym", "%s(%s)" % (rv[1], rv[2]))
        if k == "repeat":
            return ("aggr", "repeat", (self.operand(st, frame, func, rv[1]), C("other", rv[2])), None)
        if k == "aggr":
            sub = rv[1]
            vals = tuple(self.operand(st, frame, func, o) for o in rv[3])
            if sub in ("tuple", "array"):
                return ("aggr", sub, vals, None)
            path = rv[2]
            ev = E.split(path)
            if ev:
                return ("variant", ev[0], ev[1], vals)
            return ("aggr", mp.strip_generics(path), vals, rv[4])
        self.unknown.append("rvalue: %s" % (rv[1] if len(rv) > 1 else rv,))
        return ("sym", "unknown%d" % next(self.sym_seq))

    def binop(self, name, a, b):
        if a[0] == "c" and b[0] == "c" and a[1] == b[1] and a[1] in ("int", "bool"):
            x, y = a[2], b[2]
            tbl = {"Eq": x == y, "Ne": x != y}
            if a[1] == "int":
                tbl.update({"Lt": x < y, "Le": x <= y, "Gt": x > y, "Ge": x >= y})
            if name in tbl:
                return TRUE if tbl[name] else FALSE
            if a[1] == "int":
                if name in ("Add", "AddUnchecked"):
                    return C("int", x + y)
                if name in ("Sub", "SubUnchecked"):
                    return C("int", x - y)
        if name == "Eq" and a == b:
            return TRUE
        if name == "Ne" and a == b:
            return FALSE
        if name in ("Eq", "Ne") and a[0] == "variant" and b[0] == "variant" and a[1] == b[1] and a[2] != b[2]:
            return FALSE if name == "Eq" else TRUE
        if name.endswith("WithOverflow"):
            return ("aggr", "tuple", (("op", name[:-12], a, b), ("sym", "ovf%d" % next(self.sym_seq))), None)
        return ("op", name, a, b)

    # ---- calls ------------------------------------------------------------------
    def summary(self, st, frame, func, callee, args, argops):
        """Library summaries. Returns a term or None."""
        E = self.enums
        c = STD_PREFIX.sub("", callee)
        if re.match(r"^<Result<.*> as (?:std::ops::)?Try>::branch$", c):
            self.summaries_used.add("<Result as Try>::branch")
            return ("app", "Result.Try::branch", (args[0],))
        if re.match(r"^<(?:std::option::)?Option<.*> as (?:std::ops::)?Try>::branch$", c):
            self.summaries_used.add("<Option as Try>::branch")
            return ("app", "Option.Try::branch", (args[0],))
        if re.match(r"^<Result<.*> as (?:std::ops::)?FromResidual<.*>>::from_residual$", c):
            self.summaries_used.add("<Result as FromResidual>::from_residual")
            r = args[0]
            e = proj(proj(r, ("v", "Err"), E), ("f", 0), E)
            return ("variant", "Result", "Err", (("app", "From::from", (e,)),))
        if re.match(r"^<(?:std::option::)?Option<.*> as (?:std::ops::)?FromResidual<.*>>::from_residual$", c):
            self.summaries_used.add("<Option as FromResidual>::from_residual")
            return ("variant", "Option", "None", ())
        if re.match(r"^<&?(?:\w+::)*\w+(?:<.*>)? as PartialEq(?:<.*>)?>::(eq|ne)$", c) and self.summaries == True:
            self.summaries_used.add("<T as PartialEq>::eq/ne  (structural equality of the operands)")
            a, b = self.pointee(st, args[0], c), self.pointee(st, args[1], c)
            r = self.binop("Eq", a, b)
            if c.endswith("::ne"):
                r = self.binop("Ne", a, b)
            return r
        if re.match(r"^(?:std::boxed::)?Box::<.*>::new$", c):
            self.summaries_used.add("Box::new")
            return ("box", args[0])
        if re.match(r"^<Box<.*> as (?:AsRef|Deref|Borrow)<.*>>::(as_ref|deref|borrow)$", c) or re.match(r"^<Box<.*> as Deref>::deref$", c):
            self.summaries_used.add("<Box as AsRef/Deref>")
            b = self.deref(st, args[0])
            return ("addr", self.deref(st, ("boxraw", b)))
        if re.match(r"^<Box<.*> as From<.*>>::from$", c) or re.match(r"^<.* as Into<Box<.*>>>::into$", c):
            self.summaries_used.add("Box::from / Into<Box>")
            return ("box", args[0])
        if re.match(r"^(?:std::option::)?Option::<.*>::get_or_insert$", c):
            self.summaries_used.add("Option::get_or_insert")
            p = args[0]
            cur = self.deref(st, p)
            d = disc_of(cur, E)
            newv = ite(self.binop("Eq", d, C("int", 0)), ("variant", "Option", "Some", (args[1],)), cur)
            if p[0] == "ref":
                self.write_placekey(st, p[1], newv)
                fr, fn, loc, pj = p[1]
                return ("ref", (fr, fn, loc, pj + (("v", "Some"), ("f", 0, ""))), True)
            return None
        if re.match(r"^(?:std::option::)?Option::<.*>::get_or_insert_with(?:::<.*>)?$", c) and len(args) == 2:
            # like get_or_insert, the value being `f()`; a fn item such as `T::default` is called, a closure stays a symbol
            f = args[1]
            if f[0] == "c" and isinstance(f[2], str) and "{closure" not in f[2]:
                nm = mp.strip_generics(f[2].replace("ZeroSized: ", ""))
                ty = re.search(r"Option<(.*)>\s*$", self.kind_of_operand_type(func, argops[0]) or "")
                val = ("app", "Default::default<%s>" % mp.strip_generics(ty.group(1)).strip(), ()) if (nm.endswith("::default") and ty) else ("app", self.fsym(nm), ())
            else:
                val = ("app", "call_once", (self.export(st, f),))
            p = args[0]
            if p[0] == "ref":
                self.summaries_used.add("Option::get_or_insert_with")
                cur = self.deref(st, p)
                d = disc_of(cur, E)
                newv = ite(self.binop("Eq", d, C("int", 0)), ("variant", "Option", "Some", (val,)), cur)
                self.write_placekey(st, p[1], newv)
                fr, fn, loc, pj = p[1]
                return ("ref", (fr, fn, loc, pj + (("v", "Some"), ("f", 0, ""))), True)
            return None
        if re.match(r"^(?:std::option::)?Option::<.*>::zip(?:::<.*>)?$", c) and len(args) == 2:
            self.summaries_used.add("Option::zip")
            a, b = args
            da, db = disc_of(a, E), disc_of(b, E)
            both = ("variant", "Option", "Some", (("aggr", "tuple", (proj(proj(a, ("v", "Some"), E), ("f", 0), E), proj(proj(b, ("v", "Some"), E), ("f", 0), E)), None),))
            none = ("variant", "Option", "None", ())
            return ite(self.binop("Eq", da, C("int", 1)), ite(self.binop("Eq", db, C("int", 1)), both, none), none)
        if re.match(r"^(?:std::option::)?Option::<.*>::take$", c) and len(args) == 1 and args[0][0] == "ref":
            self.summaries_used.add("Option::take")
            cur = self.deref(st, args[0])
            self.write_placekey(st, args[0][1], ("variant", "Option", "None", ()))
            return cur
        m = re.match(r"^(?:std::option::|std::result::)?(Option|Result)::<.*>::(is_none|is_some|is_ok|is_err)$", c)
        if m:
            self.summaries_used.add("Option::is_none/is_some, Result::is_ok/is_err")
            d = disc_of(self.deref(st, args[0]), E)
            want = {"is_none": 0, "is_some": 1, "is_ok": 0, "is_err": 1}[m.group(2)]
            return self.binop("Eq", d, C("int", want))
        m = re.match(r"^(?:std::option::)?Option::<.*>::(unwrap_or_else|unwrap_or|unwrap_or_default)(?:::<.*>)?$", c)
        if m and m.group(1) == "unwrap_or" and len(args) == 2:
            self.summaries_used.add("Option::unwrap_or")
            x = args[0]
            return ite(self.binop("Eq", disc_of(x, E), C("int", 1)), proj(proj(x, ("v", "Some"), E), ("f", 0), E), args[1])
        if m and m.group(1) == "unwrap_or_else" and len(args) == 2:
            f0 = args[1]
            while f0[0] == "addr":
                f0 = f0[1]
            if f0[0] == "c" and isinstance(f0[2], str) and "{closure" not in f0[2] and re.match(r"^(ZeroSized: )?[\w:<>@ ./\-,'&\[\]]+$", f0[2]):
                # a plain function as the fallback: Some(v) -> v, None -> that function's answer
                self.summaries_used.add("Option::unwrap_or_else with a function item")
                x = args[0]
                name = self.fsym(f0[2].replace("ZeroSized: ", "").strip())
                alt = ("app", name, ())
                st.events.append(("call", name, (), alt))
                return ite(self.binop("Eq", disc_of(x, E), C("int", 1)), proj(proj(x, ("v", "Some"), E), ("f", 0), E), alt)
        m = re.match(r"^(?:std::option::)?Option::<.*>::(ok_or_else|ok_or)(?:::<.*>)?$", c)
        if m:
            self.summaries_used.add("Option::ok_or / ok_or_else")
            x = args[0]
            d = disc_of(x, E)
            some = ("variant", "Result", "Ok", (proj(proj(x, ("v", "Some"), E), ("f", 0), E),))
            err = ("variant", "Result", "Err", ((("app", "call_once", (self.export(st, args[1]),)) if m.group(1) == "ok_or_else" else args[1]),))
            return ite(self.binop("Eq", d, C("int", 1)), some, err)
        if re.match(r"^<.* as Default>::default$", c):
            self.summaries_used.add("Default::default (a constant per type)")
            m = re.match(r"^<(.*) as Default>::default$", c)
            return ("app", "Default::default<%s>" % mp.strip_angle(m.group(1)), ())
        if re.match(r"^(?:std::mem::|core::mem::)?(?:replace|take)::<.*>$", c) and args and args[0][0] == "ref":
            self.summaries_used.add("mem::replace/take")
            old = self.deref(st, args[0])
            nv = args[1] if len(args) > 1 else ("app", "Default::default", ())
            self.write_placekey(st, args[0][1], nv)
            return old
        return None

    def pointee(self, st, v, callee):
        """For PartialEq on references: compare the referents."""
        x = v
        # `<&T as PartialEq>::eq(&&a, &&b)` has two levels of reference
        n = 2 if re.match(r"^<&", callee) else 1
        for _ in range(n):
            x = self.deref(st, x)
        return x

    # ---- driver -----------------------------------------------------------------
    def run(self, func, args=None, state=None, frame=None, depth=0, collect_all=False, _count=True, arg_names=None):
        """Execute `func`. Returns list of Outcome."""
        if state is None:
            state = State()
        fr = next(self.frame_seq) if frame is None else frame
        if args is None:
            args = []
            for i, (loc, ty) in enumerate(func.args):
                nm = func.debug.get(loc, "arg%d" % (i + 1))
                args.append(("sym", "%s" % nm if arg_names is None else arg_names[i]))
        for (loc, ty), v in zip(func.args, args):
            state.vals[(fr, loc)] = v
        if func not in self.loop_info:
            be = mp.back_edges(func)
            heads = {}
            for u, v in be:
                heads.setdefault(v, set()).add(u)
            info = {}
            for h, tails in heads.items():
                body = mp.loop_blocks(func, h, tails)
                info[h] = (body, mp.assigned_locals(func, body))
            self.loop_info[func] = info
        outs = []
        work = [(0, state)]
        top = depth == 0 and func not in self._inline_stack
        if top:
            self._inline_stack.append(func)
        try:
            while work:
                bbid, st = work.pop()
                self.step_block(func, fr, bbid, st, work, outs, depth)
                if len(outs) + len(work) > self.max_paths:
                    outs.append(Outcome("limit", None, st, "path limit exceeded", func))
                    break
        finally:
            if top:
                self._inline_stack.pop()
        if _count:
            self.paths += len(outs)
        return outs

    def step_block(self, func, fr, bbid, st, work, outs, depth):
        while True:
            blk = func.blocks.get(bbid)
            if blk is None:
                outs.append(Outcome("unknown", None, st, "missing block bb%d" % bbid, func))
                return
            # loop head handling
            li = self.loop_info[func].get(bbid)
            if li is not None:
                key = (fr, bbid)
                if key in st.entered:
                    outs.append(Outcome("backedge", None, st, {"head": bbid}, func))
                    return
                st.entered.add(key)
                body, assigned = li
                entry_vals = {loc: st.vals.get((fr, loc)) for loc in assigned}      # what the loop-carried locals hold on entry
                for loc in sorted(assigned):
                    nm = func.debug.get(loc)
                    base = "%s#loop%d_%d%s" % (func.short, bbid, loc, ("=" + nm) if nm else "")
                    # loop-carried state that was seed-dependent before the loop (an iterator over a hash container)
                    # stays seed-dependent: the symbol that replaces it is itself a seeded one
                    if self.seeded is not None and (fr, loc) in st.vals and mentions_seed(st.vals[(fr, loc)]):
                        base = "seed!" + base
                    flds = assigned[loc]
                    if flds is None or (fr, loc) not in st.vals:
                        st.vals[(fr, loc)] = ("sym", base)
                    else:
                        cur = st.vals[(fr, loc)]
                        for i in sorted(flds):
                            cur = setproj(cur, ("f", i), ("sym", "%s.%d" % (base, i)), self.enums)
                        st.vals[(fr, loc)] = cur
                    st.havocked.add((fr, loc))
                st.heap = {}
                st.epoch = next(self.sym_seq)
                st.events.append(("loop", func.short, bbid, entry_vals))
            ps, pt = stmts_of(blk)
            for s, raw in zip(ps, blk.stmts):
                k = s[0]
                if k == "nop":
                    continue
                if k == "assign":
                    rv = s[2]
                    if rv[0] == "unknown":
                        self.unknown.append("%s: %s" % (func.short, raw))
                        v = ("sym", "unknown%d" % next(self.sym_seq))
                    else:
                        v = self.rvalue(st, fr, func, rv)
                    self.write_placekey(st, (fr, func, s[1][1], s[1][2]), v)
                elif k == "setdisc":
                    cur = self.read_place(st, fr, func, s[1])
                    self.write_placekey(st, (fr, func, s[1][1], s[1][2]), ("app", "setdisc", (cur, C("int", s[2]))))
                elif k == "assume":
                    pass
                else:
                    self.unknown.append("%s: %s" % (func.short, raw))
            k = pt[0]
            if k == "goto":
                bbid = pt[1]
                continue
            if k == "return":
                outs.append(Outcome("return", self.read_local(st, fr, func, 0), st, None, func))
                return
            if k == "unreachable":
                outs.append(Outcome("unreachable", None, st, None, func))
                return
            if k == "resume":
                outs.append(Outcome("diverge", None, st, {"callee": "resume"}, func))
                return
            if k == "drop":
                if pt[2] is None:
                    outs.append(Outcome("diverge", None, st, {"callee": "drop"}, func))
                    return
                bbid = pt[2]
                continue
            if k == "assert":
                c = self.operand(st, fr, func, pt[1])
                want = not pt[2]
                # failure path
                s2 = st.copy()
                if self.assume_bool(s2, c, not want):
                    s2.events.append(("assert-fail", func.short, pt[3], None))
                    outs.append(Outcome("diverge", None, s2, {"callee": "assert", "msg": pt[3], "panic": True}, func))
                if not self.assume_bool(st, c, want) or pt[4] is None:
                    return
                bbid = pt[4]
                continue
            if k == "switch":
                v = self.operand(st, fr, func, pt[1])
                isbool = self.kind_of_operand_type(func, pt[1]).strip() == "bool"
                self.do_switch(func, fr, st, v, pt[2], pt[3], work, isbool)
                return
            if k == "call":
                nxt = self.do_call(func, fr, st, pt, work, outs, depth)
                if nxt is None:
                    return
                bbid = nxt
                continue
            self.unknown.append("%s: terminator %s" % (func.short, blk.term))
            outs.append(Outcome("unknown", None, st, blk.term, func))
            return

    def assume_bool(self, st, c, val):
        if c == TRUE:
            return val
        if c == FALSE:
            return not val
        if c[0] == "op1" and c[1] == "Not":
            return self.assume_bool(st, c[2], not val)
        return st.assume_eq(c, bool(val))

    def do_switch(self, func, fr, st, v, arms, other, work, isbool=False):
        # constant
        if v[0] == "c" and v[1] in ("int", "bool"):
            x = v[2]
            x = int(x) if v[1] == "bool" else x
            for val, tgt in arms:
                if val == x:
                    work.append((tgt, st))
                    return
            if other is not None:
                work.append((other, st))
            return
        if v[0] == "ite":
            for side, val in ((v[2], True), (v[3], False)):
                s2 = st.copy()
                if self.assume_bool(s2, v[1], val):
                    self.do_switch(func, fr, s2, side, arms, other, work, isbool)
            return
        if v[0] == "op" and v[1] == "Sub" and v[2] == C("int", 1):
            # 1 - d  (Option branch discriminant)
            arms2 = tuple((1 - val, tgt) for val, tgt in arms)
            self.do_switch(func, fr, st, v[3], arms2, other, work, False)
            return
        if v[0] == "op1" and v[1] == "Not" and isbool:
            arms2 = tuple((1 - val, tgt) for val, tgt in arms)
            if other is not None and len(arms) == 1:
                arms2 = arms2 + ((arms[0][0], other),)
                other = None
            self.do_switch(func, fr, st, v[2], arms2, other, work, True)
            return
        cur = st.pcmap.get(v)
        if cur and cur[0] == "==":
            x = int(cur[1]) if isinstance(cur[1], bool) else cur[1]
            for val, tgt in arms:
                if val == x:
                    work.append((tgt, st))
                    return
            if other is not None:
                work.append((other, st))
            return
        vals = [val for val, _ in arms]
        for val, tgt in arms:
            s2 = st.copy()
            if s2.assume_eq(v, bool(val) if isbool else val):
                work.append((tgt, s2))
        if other is not None:
            if isbool:
                rest = {True, False} - {bool(x) for x in vals}
                for r in rest:
                    s2 = st.copy()
                    if s2.assume_eq(v, r):
                        work.append((other, s2))
            else:
                s2 = st.copy()
                if s2.assume_ne(v, set(vals)):
                    # a discriminant of a known finite enum: prune if all variants are listed
                    work.append((other, s2))

    def do_call(self, func, fr, st, pt, work, outs, depth):
        _, dest, callee, argops, ret = pt
        args = [self.operand(st, fr, func, a) for a in argops]
        fs = self.fsym(callee)
        self.callees.add(fs)
        # indirect call through a local (closure / fn pointer)
        if ret is None:
            info = {"callee": fs, "raw": callee, "panic": bool(DIVERGE_PANIC.search(callee)),
                    "args": tuple(self.export(st, a) for a in args)}
            st.events.append(("diverge", fs, info["args"], None))
            outs.append(Outcome("diverge", None, st, info, func))
            return None
        res = None
        # `iter.try_for_each(closure)` / `iter.for_each(closure)` is a loop in disguise: run it like one - the path
        # either sees no (further) element, or one arbitrary element whose closure body is executed in place; a body
        # that asks to go on ends the path as a back edge, exactly as the `for` form of the same loop would
        mt = re.search(r"Iterator(?:<.*?>)?>?::(try_for_each|for_each)(?:::<.*>)?$", STD_PREFIX.sub("", callee))
        if mt and self.summaries and len(args) == 2 and ret is not None:
            cf = self.closure_target(args[1])
            if cf is not None and cf not in self._inline_stack and len(cf.args) == 2:
                self.summaries_used.add("Iterator::%s (executed as a loop: no element / one arbitrary element through the closure body)" % mt.group(1))
                it = self.export(st, args[0])
                nxt = ("app", "Iter.Iterator::next", (("addr", it),))
                dty = func.locals.get(dest[1], "") if dest is not None else ""
                if mt.group(1) == "for_each":
                    neutral = UNIT
                elif "ControlFlow" in dty:
                    neutral = ("variant", "ControlFlow", "Continue", (UNIT,))
                elif "Option" in dty.split("<")[0]:
                    neutral = ("variant", "Option", "Some", (UNIT,))
                else:
                    neutral = ("variant", "Result", "Ok", (UNIT,))
                # (A) exhausted
                s0 = st.copy()
                s0.events.append(("loop", func.short, "iter:" + mt.group(1), None))
                s0.events.append(("call", "Iter.Iterator::next", (("addr", it),), nxt))
                if s0.assume_eq(disc_of(nxt, self.enums), 0):
                    if dest is not None:
                        self.write_placekey(s0, (fr, func, dest[1], dest[2]), neutral)
                    work.append((ret, s0))
                # (B) one arbitrary element
                s1 = st.copy()
                s1.events.append(("loop", func.short, "iter:" + mt.group(1), None))
                s1.events.append(("call", "Iter.Iterator::next", (("addr", it),), nxt))
                if s1.assume_eq(disc_of(nxt, self.enums), 1):
                    elem = proj(proj(nxt, ("v", "Some"), self.enums), ("f", 0), self.enums)
                    clo = args[1]
                    carg = ("addr", clo) if cf.args[0][1].strip().startswith("&") else clo
                    fr2 = next(self.frame_seq)
                    self._inline_stack.append(cf)
                    try:
                        sub = self.run(cf, [carg, elem], s1, fr2, depth + 1, _count=False)
                    finally:
                        self._inline_stack.pop()
                    for o in sub:
                        if o.kind != "return":
                            outs.append(o)
                            continue
                        if mt.group(1) == "for_each":
                            outs.append(Outcome("backedge", None, o.state, {"loop": "iter:for_each", "head": -900000}, func))
                            continue
                        d = disc_of(o.ret, self.enums)
                        goes_on = 1 if neutral[2] == "Some" else 0
                        if d[0] == "c":
                            cases = [(d[2] == goes_on, o.state)]
                        else:
                            sa, sb = o.state.copy(), o.state.copy()
                            cases = ([(True, sa)] if sa.assume_eq(d, goes_on) else []) + ([(False, sb)] if sb.assume_ne(d, {goes_on}) else [])
                        for on, s2 in cases:
                            if on:
                                outs.append(Outcome("backedge", None, s2, {"loop": "iter:try_for_each", "head": -900000}, func))
                            else:
                                if dest is not None:
                                    self.write_placekey(s2, (fr, func, dest[1], dest[2]), o.ret)
                                work.append((ret, s2))
                return None
        # Option::map / Option::and_then with a closure whose body is at hand: None stays None, Some(v) runs the body on v
        mo = re.match(r"^(?:std::option::)?Option::<.*>::(map|and_then)(?:::<.*>)?$", STD_PREFIX.sub("", callee))
        if mo and self.summaries and len(args) == 2 and ret is not None and self.emulate_option_map:
            cf = self.closure_target(args[1])
            if cf is not None and cf not in self._inline_stack and len(cf.args) == 2:
                self.summaries_used.add("Option::%s with a closure (None stays None; Some(v): the closure body runs on v)" % mo.group(1))
                x = args[0]
                d = disc_of(x, self.enums)
                for want in (0, 1):
                    s2 = st.copy()
                    okb = (d[2] == want) if d[0] == "c" else s2.assume_eq(d, want)
                    if not okb:
                        continue
                    if want == 0:
                        if dest is not None:
                            self.write_placekey(s2, (fr, func, dest[1], dest[2]), ("variant", "Option", "None", ()))
                        work.append((ret, s2))
                        continue
                    v = proj(proj(x, ("v", "Some"), self.enums), ("f", 0), self.enums)
                    clo = args[1]
                    carg = ("addr", clo) if cf.args[0][1].strip().startswith("&") else clo
                    fr2 = next(self.frame_seq)
                    self._inline_stack.append(cf)
                    try:
                        sub = self.run(cf, [carg, v], s2, fr2, depth + 1, _count=False)
                    finally:
                        self._inline_stack.pop()
                    for o in sub:
                        if o.kind != "return":
                            outs.append(o)
                            continue
                        r = ("variant", "Option", "Some", (o.ret,)) if mo.group(1) == "map" else o.ret
                        if dest is not None:
                            self.write_placekey(o.state, (fr, func, dest[1], dest[2]), r)
                        work.append((ret, o.state))
                return None
        # Option::or(a, b): a when it is Some, b otherwise (same opt-in as Option::map)
        if self.summaries and len(args) == 2 and ret is not None and self.emulate_option_map and \
                re.match(r"^(?:std::option::)?Option::<.*>::or$", STD_PREFIX.sub("", callee)):
            self.summaries_used.add("Option::or (a if a is Some, else b)")
            d = disc_of(args[0], self.enums)
            for want in (1, 0):
                s2 = st.copy()
                okb = (d[2] == want) if d[0] == "c" else s2.assume_eq(d, want)
                if not okb:
                    continue
                if dest is not None:
                    self.write_placekey(s2, (fr, func, dest[1], dest[2]), args[0] if want == 1 else args[1])
                work.append((ret, s2))
            return None
        # Result::or_else / unwrap_or_else with a closure at hand, Result::unwrap_or: Ok keeps the value, Err runs the alternative
        mr = re.match(r"^(?:std::result::)?Result::<.*>::(or_else|unwrap_or_else|unwrap_or|and_then|map)(?:::<.*>)?$", STD_PREFIX.sub("", callee))
        if mr and self.summaries and len(args) == 2 and ret is not None and self.emulate_result_alternatives:
            how = mr.group(1)
            cf = self.closure_target(args[1]) if how != "unwrap_or" else None
            if how == "unwrap_or" or (cf is not None and cf not in self._inline_stack and len(cf.args) == 2):
                self.summaries_used.add("Result::%s (Ok keeps the value; Err: the alternative%s)" % (how, "" if how == "unwrap_or" else " closure runs on the error"))
                x = args[0]
                d = disc_of(x, self.enums)
                for want in (0, 1):
                    s2 = st.copy()
                    okb = (d[2] == want) if d[0] == "c" else s2.assume_eq(d, want)
                    if not okb:
                        continue
                    if how in ("and_then", "map"):
                        # Err stays the error; Ok(v): the closure runs on v (map wraps its answer in Ok again)
                        if want == 1:
                            if dest is not None:
                                self.write_placekey(s2, (fr, func, dest[1], dest[2]), x)
                            work.append((ret, s2))
                            continue
                        okv = proj(proj(x, ("v", "Ok"), self.enums), ("f", 0), self.enums)
                        clo = args[1]
                        carg = ("addr", clo) if cf.args[0][1].strip().startswith("&") else clo
                        fr2 = next(self.frame_seq)
                        self._inline_stack.append(cf)
                        try:
                            sub = self.run(cf, [carg, okv], s2, fr2, depth + 1, _count=False)
                        finally:
                            self._inline_stack.pop()
                        for o in sub:
                            if o.kind != "return":
                                outs.append(o)
                                continue
                            rv = o.ret if how == "and_then" else ("variant", "Result", "Ok", (o.ret,))
                            if dest is not None:
                                self.write_placekey(o.state, (fr, func, dest[1], dest[2]), rv)
                            work.append((ret, o.state))
                        continue
                    if want == 0:
                        v = x if how == "or_else" else proj(proj(x, ("v", "Ok"), self.enums), ("f", 0), self.enums)
                        if dest is not None:
                            self.write_placekey(s2, (fr, func, dest[1], dest[2]), v)
                        work.append((ret, s2))
                        continue
                    if how == "unwrap_or":
                        if dest is not None:
                            self.write_placekey(s2, (fr, func, dest[1], dest[2]), args[1])
                        work.append((ret, s2))
                        continue
                    errv = proj(proj(x, ("v", "Err"), self.enums), ("f", 0), self.enums)
                    clo = args[1]
                    carg = ("addr", clo) if cf.args[0][1].strip().startswith("&") else clo
                    fr2 = next(self.frame_seq)
                    self._inline_stack.append(cf)
                    try:
                        sub = self.run(cf, [carg, errv], s2, fr2, depth + 1, _count=False)
                    finally:
                        self._inline_stack.pop()
                    for o in sub:
                        if o.kind != "return":
                            outs.append(o)
                            continue
                        if dest is not None:
                            self.write_placekey(o.state, (fr, func, dest[1], dest[2]), o.ret)
                        work.append((ret, o.state))
                return None
        # `source.filter(p).map(f)...collect()` is a loop in disguise too: no element, or one arbitrary element pushed
        # through the closures of the pipeline; what reaches the end is logged as `collect::item(pipeline, value)` and the
        # path ends as a back edge - the `for` form of the same loop looks the same up to that event's name
        mc = re.search(r"Iterator(?:<.*?>)?>?::collect(?:::<.*>)?$", STD_PREFIX.sub("", callee))
        if mc and self.summaries and len(args) == 1 and ret is not None:
            chain = self.pipeline_stages(self.export(st, args[0]))
            if chain is not None and any(stages for _, stages in chain):
                self.summaries_used.add("Iterator::collect over map/filter/filter_map/chain closures (executed as a loop: no element / one arbitrary element)")
                pipe = self.export(st, args[0])
                self._emul_seq = getattr(self, "_emul_seq", 0) + 1
                head = -self._emul_seq
                s0 = st.copy()
                s0.events.append(("loop", func.short, "iter:collect", None))
                okz = True
                for src, _ in chain:
                    nxt = ("app", "Iter.Iterator::next", (("addr", src),))
                    s0.events.append(("call", "Iter.Iterator::next", (("addr", src),), nxt))
                    okz = okz and s0.assume_eq(disc_of(nxt, self.enums), 0)
                if okz:
                    r0 = ("app", fs, (pipe,))
                    s0.events.append(("call", fs, (pipe,), r0))
                    if dest is not None:
                        self.write_placekey(s0, (fr, func, dest[1], dest[2]), r0)
                    work.append((ret, s0))
                for k, (src, stages) in enumerate(chain):
                    nxt = ("app", "Iter.Iterator::next", (("addr", src),))
                    s1 = st.copy()
                    s1.events.append(("loop", func.short, "iter:collect", None))
                    s1.events.append(("call", "Iter.Iterator::next", (("addr", src),), nxt))
                    if not s1.assume_eq(disc_of(nxt, self.enums), 1):
                        continue
                    elem = proj(proj(nxt, ("v", "Some"), self.enums), ("f", 0), self.enums)
                    info = {"loop": "iter:collect", "head": head - k * 1000}
                    todo = [(0, s1, elem)]
                    while todo:
                        i, sx, val = todo.pop()
                        if i == len(stages):
                            sx.events.append(("call", "collect::item", (pipe, val), UNIT))
                            outs.append(Outcome("backedge", None, sx, dict(info), func))
                            continue
                        kind, cf, clo = stages[i]
                        if kind == "ctor":
                            todo.append((i + 1, sx, ("variant", cf[0], cf[1], (val,))))
                            continue
                        carg = ("addr", clo) if cf.args[0][1].strip().startswith("&") else clo
                        varg = ("addr", val) if kind == "filter" else val
                        fr2 = next(self.frame_seq)
                        self._inline_stack.append(cf)
                        try:
                            sub = self.run(cf, [carg, varg], sx, fr2, depth + 1, _count=False)
                        finally:
                            self._inline_stack.pop()
                        for o in sub:
                            if o.kind != "return":
                                outs.append(o)
                                continue
                            if kind == "map":
                                todo.append((i + 1, o.state, o.ret))
                            elif kind == "filter":
                                for want in (True, False):
                                    s2 = o.state.copy()
                                    okb = (o.ret == (TRUE if want else FALSE)) if o.ret in (TRUE, FALSE) else s2.assume_eq(o.ret, want)
                                    if not okb:
                                        continue
                                    if want:
                                        todo.append((i + 1, s2, val))
                                    else:
                                        outs.append(Outcome("backedge", None, s2, dict(info, skipped=True), func))
                            else:   # filter_map
                                d = disc_of(o.ret, self.enums)
                                for want in (1, 0):
                                    s2 = o.state.copy()
                                    okb = (d[2] == want) if d[0] == "c" else s2.assume_eq(d, want)
                                    if not okb:
                                        continue
                                    if want:
                                        todo.append((i + 1, s2, proj(proj(o.ret, ("v", "Some"), self.enums), ("f", 0), self.enums)))
                                    else:
                                        outs.append(Outcome("backedge", None, s2, dict(info, skipped=True), func))
                return None
        mu = re.match(r"^(Option|Result)::<.*>::(unwrap|expect)$", STD_PREFIX.sub("", callee))
        if mu and self.summaries:
            self.summaries_used.add("%s::%s (forks: value / panic)" % (mu.group(1), mu.group(2)))
            x = args[0]
            d = disc_of(x, self.enums)
            good, gv = (1, "Some") if mu.group(1) == "Option" else (0, "Ok")
            s2 = st.copy()
            bad_ok = True
            if d[0] == "c":
                bad_ok = d[2] != good
            else:
                bad_ok = s2.assume_ne(d, {good}) if not (d[0] == "ite") else True
            if bad_ok and not (d[0] == "c" and d[2] == good):
                info = {"callee": fs, "raw": callee, "panic": True, "args": tuple(self.export(s2, a) for a in args)}
                s2.events.append(("diverge", fs, info["args"], None))
                outs.append(Outcome("diverge", None, s2, info, func))
            if d[0] == "c":
                if d[2] != good:
                    return None
            elif d[0] != "ite":
                if not st.assume_eq(d, good):
                    return None
            res = proj(proj(x, ("v", gv), self.enums), ("f", 0), self.enums)
        if res is None and self.call_hook is not None:
            res = self.call_hook(callee, fs, args)
        if res is None and self.summaries:
            res = self.summary(st, fr, func, callee, args, argops)
        if res is None:
            target = self.resolve(callee, len(args)) if depth < self.max_inline_depth else None
            if target is not None and self.should_inline(target) and target not in self._inline_stack:
                fr2 = next(self.frame_seq)
                self._inline_stack.append(target)
                try:
                    sub = self.run(target, args, st, fr2, depth + 1, _count=False)
                finally:
                    self._inline_stack.pop()
                for o in sub:
                    if o.kind == "return":
                        s2 = o.state
                        if dest is not None:
                            self.write_placekey(s2, (fr, func, dest[1], dest[2]), o.ret)
                        work.append((ret, s2))
                    else:
                        outs.append(o)
                return None
            # a pointer whose pointee was written/havocked since: pass the current pointee value
            xargs = tuple(("addr", self.export(st, st.heap[a])) if (a[0] in ("sym", "app", "fld", "out") and a in st.heap)
                          else self.export(st, a) for a in args)
            if self.seed_insensitive is not None and self.seed_insensitive(callee, fs):
                xargs = tuple(erase_seeds(a) for a in xargs)
            if self.seeded is not None and self.seeded(callee, fs, xargs):
                xargs = xargs + (("sym", "seed!%s" % fs),)
                self.seed_sites.append((func.short, fs))
            res = ("app", fs, xargs)
            # havoc pointees of &mut arguments
            for i, (a, op) in enumerate(zip(args, argops)):
                ty = self.kind_of_operand_type(func, op)
                ismut = ty.startswith("&mut") or (a[0] == "ref" and a[2])
                if ismut:
                    nv = ("out", fs, i, xargs)
                    n_ev = len(st.events)
                    if a[0] == "ref":
                        self.write_placekey(st, a[1], nv)
                    else:
                        self.write_through(st, a, (), nv)
                    del st.events[n_ev:]      # the havoc is part of the call, not a store of its own
            st.events.append(("call", fs, xargs, res))
        if dest is not None:
            self.write_placekey(st, (fr, func, dest[1], dest[2]), res)
        return ret
