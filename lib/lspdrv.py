"""Drives the real oal-lsp binary over stdio (JSON-RPC with Content-Length framing).

Used only as a replay oracle: history server vs. fresh server on the final texts.
"""
import json
import os
import select
import subprocess
import time

from vcommon import CACHE, REPO, run, env


def build_lsp():
    tdir = os.path.join(CACHE, "repo-target")
    rc, out, t = run(["cargo", "build", "--offline", "-p", "oal-client", "--bin", "oal-lsp"], cwd=REPO, timeout=1500,
                     extra_env={"CARGO_TARGET_DIR": tdir})
    if rc != 0:
        raise RuntimeError("oal-lsp build failed:\n" + out[-3000:])
    return os.path.join(tdir, "debug", "oal-lsp")


class Server:
    def __init__(self, binary, root):
        self.root = root
        self.p = subprocess.Popen([binary], stdin=subprocess.PIPE, stdout=subprocess.PIPE, stderr=subprocess.DEVNULL,
                                  cwd=root, env=env({"RUST_BACKTRACE": "0"}))
        self.buf = b""
        self.seq = 0
        self.diags = {}          # uri -> last published diagnostics
        self.log = []

    def send(self, obj):
        body = json.dumps(obj).encode("utf-8")
        try:
            self.p.stdin.write(b"Content-Length: %d\r\n\r\n" % len(body) + body)
            self.p.stdin.flush()
        except (BrokenPipeError, OSError):
            pass

    def read_msg(self, timeout=10):
        end = time.time() + timeout
        while True:
            i = self.buf.find(b"\r\n\r\n")
            if i >= 0:
                head = self.buf[:i].decode("ascii", "replace")
                n = 0
                for line in head.split("\r\n"):
                    if line.lower().startswith("content-length:"):
                        n = int(line.split(":")[1].strip())
                if len(self.buf) >= i + 4 + n:
                    body = self.buf[i + 4:i + 4 + n]
                    self.buf = self.buf[i + 4 + n:]
                    return json.loads(body.decode("utf-8"))
            left = end - time.time()
            if left <= 0:
                return None
            r, _, _ = select.select([self.p.stdout], [], [], min(left, 0.5))
            if r:
                chunk = os.read(self.p.stdout.fileno(), 65536)
                if not chunk:
                    return None
                self.buf += chunk
            elif self.p.poll() is not None:
                return None

    def request(self, method, params, timeout=15):
        self.seq += 1
        rid = self.seq
        self.send({"jsonrpc": "2.0", "id": rid, "method": method, "params": params})
        end = time.time() + timeout
        while time.time() < end:
            m = self.read_msg(end - time.time())
            if m is None:
                return {"error": "no response (server %s)" % ("dead, rc=%s" % self.p.poll() if self.p.poll() is not None else "silent")}
            if m.get("method") == "textDocument/publishDiagnostics":
                self.diags[m["params"]["uri"]] = m["params"]["diagnostics"]
                continue
            if m.get("id") == rid:
                return m
        return {"error": "timeout"}

    def notify(self, method, params):
        self.send({"jsonrpc": "2.0", "method": method, "params": params})

    def initialize(self):
        uri = "file://" + self.root
        r = self.request("initialize", {
            "processId": None, "rootUri": uri,
            "capabilities": {"general": {"positionEncodings": ["utf-16"]}},
            "workspaceFolders": [{"uri": uri, "name": "w"}]})
        self.notify("initialized", {})
        return r

    def alive(self):
        return self.p.poll() is None

    def shutdown(self):
        try:
            if self.alive():
                self.request("shutdown", None, timeout=5)
                self.notify("exit", None)
                self.p.wait(timeout=5)
        except Exception:
            pass
        if self.p.poll() is None:
            self.p.kill()
        return self.p.poll()


def utf16_offset_to_index(line, col):
    """Index into a Python string for a UTF-16 column (clamped to the line end)."""
    u = 0
    for i, ch in enumerate(line):
        if u >= col:
            return i
        u += 2 if ord(ch) > 0xFFFF else 1
    return len(line)


def apply_edit(text, rng, new):
    """Client-side application of an LSP incremental change (UTF-16 positions)."""
    if rng is None:
        return new

    def off(pos):
        lines = text.split("\n")
        ln = pos["line"]
        if ln >= len(lines):
            return len(text)
        base = sum(len(x) + 1 for x in lines[:ln])
        line = lines[ln]
        body = line[:-1] if line.endswith("\r") else line
        return base + utf16_offset_to_index(body, pos["character"])

    s, e = off(rng["start"]), off(rng["end"])
    return text[:s] + new + text[e:]


def session(binary, root, files, script, probe):
    """files: name -> text written to disk; script: list of ('open'|'change'|'close', name, ...);
    probe: (name, position) for a textDocument/definition request that forces a refresh.
    Returns dict(alive, diags: name -> [(message, range)], definition, texts)."""
    os.makedirs(root, exist_ok=True)
    for n, t in files.items():
        with open(os.path.join(root, n), "w", encoding="utf-8", newline="") as f:
            f.write(t)
    s = Server(binary, root)
    texts = {}
    out = {"alive": True}
    try:
        s.initialize()
        vers = {}                     # version numbers count per document and start again at 1 when it is opened again
        for step in script:
            kind, name = step[0], step[1]
            uri = "file://" + os.path.join(root, name)
            if kind == "open":
                texts[name] = step[2]
                vers[name] = ver = 1
                s.notify("textDocument/didOpen", {"textDocument": {"uri": uri, "languageId": "oal", "version": ver, "text": step[2]}})
            elif kind == "change":
                vers[name] = ver = vers.get(name, 1) + 1
                changes = []
                for rng, new in step[2]:
                    texts[name] = apply_edit(texts[name], rng, new)
                    changes.append({"range": rng, "text": new} if rng is not None else {"text": new})
                s.notify("textDocument/didChange", {"textDocument": {"uri": uri, "version": ver}, "contentChanges": changes})
            elif kind == "close":
                texts.pop(name, None)
                s.notify("textDocument/didClose", {"textDocument": {"uri": uri}})
            elif kind == "sync":
                # a request forces refresh + publication
                s.request("textDocument/definition", {"textDocument": {"uri": uri}, "position": {"line": 0, "character": 0}})
        uri = "file://" + os.path.join(root, probe[0])
        r = s.request("textDocument/definition", {"textDocument": {"uri": uri}, "position": probe[1]})
        out["definition"] = r.get("result") if isinstance(r, dict) else None
        out["definition_error"] = r.get("error") if isinstance(r, dict) else "none"
        pos = {"textDocument": {"uri": uri}, "position": probe[1]}
        for what, method, extra in (("references", "textDocument/references", {"context": {"includeDeclaration": True}}),
                                    ("prepare", "textDocument/prepareRename", {}), ("rename", "textDocument/rename", {"newName": "fresh_name_1"})):
            if not s.alive():
                break
            r = s.request(method, dict(pos, **extra))
            out[what] = (r.get("result"), bool(r.get("error"))) if isinstance(r, dict) else None
        out["alive"] = s.alive()
        out["diags"] = {os.path.basename(u): sorted((d["message"], json.dumps(d["range"], sort_keys=True)) for d in ds) for u, ds in s.diags.items()}
        out["texts"] = dict(texts)
    finally:
        out["exit"] = s.shutdown()
    return out
