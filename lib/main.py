"""./check <ID> [--tier quick|thorough] [--replay <dir>]"""
import importlib
import os
import sys

sys.path.insert(0, os.path.dirname(os.path.abspath(__file__)))


def main():
    args = sys.argv[1:]
    if not args:
        print("usage: check <ID> [--tier quick|thorough] [--replay <dir>]", file=sys.stderr)
        return 2
    prop = args[0].upper()
    replay = None
    i = 1
    while i < len(args):
        if args[i] == "--tier" and i + 1 < len(args):
            os.environ["VERIF_TIER"] = args[i + 1]
            i += 2
        elif args[i] == "--replay" and i + 1 < len(args):
            replay = args[i + 1]
            i += 2
        else:
            print("unknown argument", args[i], file=sys.stderr)
            return 2
    from vcommon import CACHE
    os.makedirs(os.path.join(CACHE, "runs"), exist_ok=True)
    try:
        mod = importlib.import_module("props." + prop.lower())
    except ModuleNotFoundError as ex:
        print("no check for", prop, ex, file=sys.stderr)
        return 2
    if replay:
        return mod.replay(replay)
    return mod.check()


if __name__ == "__main__":
    try:
        sys.exit(main())
    except KeyboardInterrupt:
        sys.exit(2)
    except Exception:
        import traceback
        traceback.print_exc()
        print("INCONCLUSIVE internal error in the check", flush=True)
        sys.exit(2)
