"""Shared plumbing for /verif checks: evidence, findings, subprocesses, verdicts.

Exit codes of a check: 0 = property held on everything explored, 1 = violation
reproduced on the real code (a `VIOLATION property=<id> replay=<path>` line was
printed), 2 = inconclusive (timeout, OOM, solver error, vacuous harness, encoding the
translator does not fully understand, counterexample that does not reproduce).
"""
import hashlib
import json
import os
import re
import resource
import shutil
import subprocess
import sys
import time

VERIF = os.path.dirname(os.path.dirname(os.path.abspath(__file__)))
REPO = os.environ.get("OAL_REPO", "/repo")
CACHE = os.environ.get("VERIF_CACHE", os.path.join(VERIF, ".cache"))
# VERIF_OUT: development only (a second run next to one that is using /verif/evidence); registered commands never set it
_OUT = os.environ.get("VERIF_OUT", VERIF)
EVID = os.path.join(_OUT, "evidence")
REPLAYS = os.path.join(_OUT, "replays")
FINDINGS = os.path.join(VERIF, "known_findings.json")

OFFLINE_ENV = {
    "CARGO_NET_OFFLINE": "true",
    "GOPROXY": "off",
    "PIP_NO_INDEX": "1",
}


def env(extra=None):
    e = dict(os.environ)
    e.update(OFFLINE_ENV)
    # never inherit a guard or flags from the caller
    e.pop("RUSTFLAGS", None)
    if extra:
        e.update(extra)
    return e


def log(*a):
    print(*a, file=sys.stderr, flush=True)


def tier():
    t = os.environ.get("VERIF_TIER", "quick")
    return t if t in ("quick", "thorough") else "quick"


def seed():
    try:
        return int(os.environ.get("VERIF_SEED", "0"))
    except ValueError:
        return 0


def sha(path):
    h = hashlib.sha256()
    with open(path, "rb") as f:
        h.update(f.read())
    return h.hexdigest()[:16]


def src_ref(relpath, pattern=None):
    """Describe a function in /repo: file, content hash and the line of `pattern`."""
    p = os.path.join(REPO, relpath)
    d = {"file": relpath}
    try:
        d["sha256_16"] = sha(p)
        if pattern:
            for i, line in enumerate(open(p, encoding="utf-8"), 1):
                if pattern in line:
                    d["line"] = i
                    d["item"] = pattern.strip()
                    break
    except OSError as ex:
        d["error"] = str(ex)
    return d


def run(cmd, cwd=None, timeout=None, mem_gb=None, extra_env=None, stdin=None):
    """Run a command, return (rc, output, wall_s). rc = -9 on timeout."""
    def limit():
        if mem_gb:
            b = int(mem_gb * (1 << 30))
            resource.setrlimit(resource.RLIMIT_AS, (b, b))
        os.setsid()
    t0 = time.time()
    try:
        p = subprocess.Popen(cmd, cwd=cwd, env=env(extra_env), stdout=subprocess.PIPE,
                             stderr=subprocess.STDOUT, stdin=subprocess.PIPE if stdin is not None else subprocess.DEVNULL,
                             preexec_fn=limit, text=True, errors="replace")
        try:
            out, _ = p.communicate(stdin, timeout=timeout)
            rc = p.returncode
        except subprocess.TimeoutExpired:
            try:
                os.killpg(p.pid, 9)
            except ProcessLookupError:
                pass
            out, _ = p.communicate()
            rc = -9
            out = (out or "") + "\n[TIMEOUT after %ss]" % timeout
    except OSError as ex:
        return 127, str(ex), time.time() - t0
    return rc, out, time.time() - t0


class Findings:
    """known_findings.json: read-only at run time."""

    def __init__(self):
        self.known = []
        self.fixed = []
        if os.path.exists(FINDINGS):
            d = json.load(open(FINDINGS))
            self.known = d.get("known", [])
            self.fixed = d.get("fixed", [])

    def match(self, prop, key):
        """key: dict of role fields; a known entry matches if all its `key` fields agree."""
        for k in self.known:
            if k.get("property") != prop:
                continue
            kk = k.get("key", {})
            if all(key.get(f) == v for f, v in kk.items()):
                return k
        return None


class Outcome:
    """Collects the verdict of one check run and writes evidence."""

    def __init__(self, prop, level="model_checking"):
        self.prop = prop
        self.level = level
        self.t0 = time.time()
        self.tier = tier()
        self.violations = []      # (what, replay_path)
        self.known = []           # what
        self.inconclusive = []    # reason
        self.queries = []         # dicts: name, engine, verdict, time_s, ...
        self.functions = []
        self.assumptions = []
        self.bounds = {}
        self.samples = []
        self.extra = {}
        self.outside = []

    def query(self, name, engine, verdict, time_s, **kw):
        q = {"name": name, "engine": engine, "verdict": verdict, "time_s": round(time_s, 3)}
        q.update(kw)
        self.queries.append(q)
        return q

    def violation(self, what, replay):
        self.violations.append((what, replay))

    def oracle_only(self, what, replay):
        """A violation reproduced on the real code by the replay / translator-validation oracle while every
        solver query held: the defect lies outside the encoded lemmas. It is still a violation of the property on
        the real code (each oracle checks instances of the property statement itself), so it is reported - and
        flagged as not decided by the solver."""
        self.extra.setdefault("violations_outside_the_encoded_lemmas", []).append(what[:400])
        self.violations.append(("[every solver query held; found by the real-code oracle, i.e. outside the encoded lemmas] " + what, replay))

    def known_finding(self, what):
        self.known.append(what)

    def inconc(self, reason):
        log("INCONCLUSIVE:", reason)
        self.inconclusive.append(reason)

    def finish(self):
        wall = time.time() - self.t0
        nq = len(self.queries)
        held = [q for q in self.queries if q["verdict"] in ("unsat", "holds", "SUCCESSFUL")]
        nontrivial = [q for q in self.queries if q.get("nonvacuous", True) and q["verdict"] not in ("timeout", "error")]
        cov = {
            "evaluations": max(nq, 1),
            "distinct_nontrivial": len({q["name"] for q in nontrivial}),
            "rule": "one evaluation = one solver query (a Kani/CBMC harness run or an SMT check over a "
                    "symbolically executed MIR function); it counts as non-trivial when its reachability "
                    "witness (kani::cover / path-feasibility query) was satisfied, i.e. the assertion was "
                    "actually reached under the stated assumptions; distinct = distinct query names",
            "samples": self.samples[:40] if self.samples else [q["name"] for q in self.queries[:10]],
            "obligations": nq,
            "discharged": len(held),
            "queries": self.queries,
            "solver_time_s": round(sum(q.get("time_s", 0) for q in self.queries), 3),
            "functions_encoded": self.functions,
            "bounds": self.bounds,
            "outside_claim": self.outside,
            "known_findings_reported": self.known,
            "inconclusive": self.inconclusive,
            "exhaustive": False,
            "explanation": "Solver verdict over all values inside the stated bounds; see bounds/outside_claim.",
        }
        cov.update(self.extra)
        ev = {
            "property_id": self.prop,
            "tier": self.tier,
            "seed": seed(),
            "level": self.level,
            "coverage": cov,
            "assumptions": self.assumptions,
            "wall_s": round(wall, 2),
            "violations": len(self.violations),
        }
        os.makedirs(EVID, exist_ok=True)
        tmp = os.path.join(EVID, self.prop + ".json.tmp")
        with open(tmp, "w") as f:
            json.dump(ev, f, indent=1, default=str)
        os.replace(tmp, os.path.join(EVID, self.prop + ".json"))
        for w in self.known:
            print("KNOWN-FINDING: property=%s %s" % (self.prop, w), flush=True)
        if self.violations:
            for what, rp in self.violations:
                log("violation:", what)
                print("VIOLATION property=%s replay=%s" % (self.prop, rp), flush=True)
            return 1
        if self.inconclusive:
            print("INCONCLUSIVE property=%s (%d reasons; first: %s)" % (self.prop, len(self.inconclusive), self.inconclusive[0]), flush=True)
            return 2
        print("OK property=%s tier=%s queries=%d held=%d wall=%.1fs" % (self.prop, self.tier, nq, len(held), wall), flush=True)
        return 0


def new_replay_dir(prop, name):
    d = os.path.join(REPLAYS, "%s-%s" % (prop, re.sub(r"[^A-Za-z0-9_.-]", "_", name)))
    if os.path.exists(d):
        shutil.rmtree(d)
    os.makedirs(d)
    return d


# --- the real CLI, built from /repo's working tree --------------------------------

def build_cli(profile="dev"):
    """Build oal-cli from /repo into /verif/.cache (never into /repo/target)."""
    tdir = os.path.join(CACHE, "repo-target")
    cmd = ["cargo", "build", "--offline", "-p", "oal-client", "--bin", "oal-cli"]
    if profile == "release":
        cmd.append("--release")
    rc, out, t = run(cmd, cwd=REPO, timeout=1200, extra_env={"CARGO_TARGET_DIR": tdir})
    if rc != 0:
        raise RuntimeError("oal-cli build failed:\n" + out[-3000:])
    return os.path.join(tdir, "debug" if profile == "dev" else "release", "oal-cli")


def run_cli(cli, files, main="main.oal", base=None, workdir=None, keep=False, pre_target=None, timeout=20):
    """Run the real oal-cli on a set of source files in a fresh directory.
    Returns dict(rc, out, target_bytes or None, dir)."""
    import tempfile
    d = workdir or tempfile.mkdtemp(prefix="oalrun-", dir=os.path.join(CACHE, "runs"))
    os.makedirs(d, exist_ok=True)
    for name, text in files.items():
        os.makedirs(os.path.dirname(os.path.join(d, name)), exist_ok=True)
        with open(os.path.join(d, name), "w", encoding="utf-8") as f:
            f.write(text)
    tgt = os.path.join(d, "out.yaml")
    if pre_target is not None:
        with open(tgt, "w") as f:
            f.write(pre_target)
    cmd = [cli, "-m", main, "-t", "out.yaml"]
    if base:
        cmd += ["-b", base]
    rc, out, t = run(cmd, cwd=d, timeout=timeout, mem_gb=4, extra_env={"RUST_BACKTRACE": "0"})
    tb = None
    if os.path.exists(tgt):
        tb = open(tgt, encoding="utf-8", errors="replace").read()
    res = {"rc": rc, "out": out, "target": tb, "dir": d, "cmd": cmd}
    if not keep and not workdir:
        shutil.rmtree(d, ignore_errors=True)
    return res


def crashed(res):
    """Did the process die abnormally (panic=101, abort=134/-6, segv=139/-11, timeout)?"""
    rc = res["rc"]
    if rc in (0, 1):
        return False
    return True


def panic_location(out):
    m = re.search(r"panicked at ([^\s:]+):(\d+)", out)
    if m:
        return m.group(1), int(m.group(2))
    if "has overflowed its stack" in out:
        return "stack-overflow", 0
    return None


def crate_src(rel):
    """Directory of one of /verif's own crates (drivers/*, kani/*). Their manifests and #[path] attributes name /repo;
    when OAL_REPO points elsewhere (development: several trees checked side by side) a copy with the paths rewritten
    is made under the cache. Registered commands run with the default and use the crate in place."""
    src = os.path.join(VERIF, rel)
    if REPO == "/repo":
        return src
    import shutil as _sh
    dst = os.path.join(CACHE, "src", rel)
    if os.path.exists(dst):
        _sh.rmtree(dst)
    _sh.copytree(src, dst, ignore=_sh.ignore_patterns("target", "Cargo.lock"))
    for root, _, files in os.walk(dst):
        for fn in files:
            if fn.endswith((".rs", ".toml")):
                fp = os.path.join(root, fn)
                with open(fp) as f:
                    t = f.read()
                t2 = t.replace('"/repo/', '"%s/' % REPO)
                if t2 != t:
                    with open(fp, "w") as f:
                        f.write(t2)
    return dst


def build_wasmdrv():
    """Native driver around /repo's playground entry point oal_wasm::compile."""
    import shutil as _sh
    d = crate_src("drivers/wasmdrv")
    lock = os.path.join(REPO, "Cargo.lock")
    if os.path.exists(lock):
        _sh.copyfile(lock, os.path.join(d, "Cargo.lock"))
    tdir = os.path.join(CACHE, "drv-target")
    rc, out, t = run(["cargo", "build", "--offline"], cwd=d, timeout=1500, extra_env={"CARGO_TARGET_DIR": tdir})
    if rc != 0:
        raise RuntimeError("wasmdrv build failed:\n" + out[-3000:])
    return os.path.join(tdir, "debug", "wasmdrv")


def run_wasm(drv, text, timeout=20):
    """-> dict(rc, status 'OK'|'ERR'|None, body, out)"""
    rc, out, t = run([drv], timeout=timeout, mem_gb=4, stdin=text, extra_env={"RUST_BACKTRACE": "0"})
    status, body = None, ""
    if out.startswith("OK\n"):
        status, body = "OK", out[3:]
    elif out.startswith("ERR\n"):
        status, body = "ERR", out[4:]
    return {"rc": rc, "status": status, "body": body, "out": out}
