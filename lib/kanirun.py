"""Engine K: run Kani/CBMC harnesses of /verif/kani/<crate> over /repo's real files."""
import concurrent.futures as cf
import os
import re
import shutil

from vcommon import CACHE, VERIF, REPO, log, run, new_replay_dir

KANI_DIR = os.path.join(VERIF, "kani")


def crate_dir(crate):
    return os.path.join(KANI_DIR, crate)


def target_dir(crate):
    return os.path.join(CACHE, "kani-" + crate)


def prepare(crate):
    """Refresh Cargo.lock from /repo (same third-party versions) and compile once."""
    cd = crate_dir(crate)
    lock = os.path.join(REPO, "Cargo.lock")
    if os.path.exists(lock):
        shutil.copyfile(lock, os.path.join(cd, "Cargo.lock"))
    rc, out, t = run(["cargo", "kani", "--only-codegen", "--target-dir", target_dir(crate)],
                     cwd=cd, timeout=1500)
    ok = rc == 0
    if not ok:
        log(out[-4000:])
    return ok, out, t


RE_TIME = re.compile(r"Verification Time: ([0-9.]+)s")
RE_COVER = re.compile(r"\*\* (\d+) of (\d+) cover properties satisfied")
RE_FAILED = re.compile(r"^Failed Checks: (.*)$", re.M)
RE_VCC = re.compile(r"Generated (\d+) VCC\(s\), (\d+) remaining after simplification")
RE_VARS = re.compile(r"(\d+) variables, (\d+) clauses")


def classify(out, rc):
    """-> dict(verdict=SUCCESSFUL|FAILED|UNWIND|VACUOUS|timeout|error, ...)"""
    r = {"failed_checks": [], "covers": None}
    m = RE_TIME.search(out)
    if m:
        r["solver_s"] = float(m.group(1))
    m = RE_COVER.search(out)
    if m:
        r["covers"] = [int(m.group(1)), int(m.group(2))]
    m = RE_VCC.search(out)
    if m:
        r["vccs"] = int(m.group(1))
    m = RE_VARS.search(out)
    if m:
        r["sat_vars"], r["sat_clauses"] = int(m.group(1)), int(m.group(2))
    r["failed_checks"] = RE_FAILED.findall(out)
    if rc == -9 or "[TIMEOUT" in out:
        r["verdict"] = "timeout"
    elif "Status: ERROR" in out or "CBMC failed" in out or "out of memory" in out.lower() or "std::bad_alloc" in out:
        r["verdict"] = "error"
    elif "VERIFICATION:- SUCCESSFUL" in out:
        if r["covers"] and r["covers"][0] != r["covers"][1]:
            r["verdict"] = "VACUOUS"
        else:
            r["verdict"] = "SUCCESSFUL"
    elif "VERIFICATION:- FAILED" in out:
        fc = r["failed_checks"]
        real = [f for f in fc if "unwinding assertion" not in f]
        if fc and not real:
            r["verdict"] = "UNWIND"
        else:
            r["verdict"] = "FAILED"
    else:
        r["verdict"] = "error"
    return r


def run_harness(crate, harness, timeout=600, mem_gb=12, extra_args=()):
    cmd = ["cargo", "kani", "--harness", harness, "--exact", "--target-dir", target_dir(crate)] + list(extra_args)
    rc, out, t = run(cmd, cwd=crate_dir(crate), timeout=timeout, mem_gb=mem_gb)
    r = classify(out, rc)
    r.update({"harness": harness, "wall_s": round(t, 2), "rc": rc})
    r["_out"] = out
    return r


def run_many(crate, harnesses, timeout=600, mem_gb=12, jobs=None):
    jobs = jobs or min(len(harnesses), max(1, (os.cpu_count() or 4) - 1))
    res = {}
    with cf.ThreadPoolExecutor(max_workers=jobs) as ex:
        futs = {ex.submit(run_harness, crate, h, timeout, mem_gb): h for h in harnesses}
        for f in cf.as_completed(futs):
            h = futs[f]
            r = f.result()
            log("  [K] %-44s %-10s %6.1fs covers=%s" % (h, r["verdict"], r["wall_s"], r["covers"]))
            res[h] = r
    return res


# --- replay: Kani's concrete playback, run natively against the same real files ----

def playback(crate, harness, prop, src_rel):
    """Re-run a FAILED harness with concrete playback in a scratch copy of the crate,
    then execute the generated unit tests natively (dev profile). Returns
    dict(reproduced: bool, tests: [...], replay_dir, detail)."""
    scratch = os.path.join(CACHE, "playback-" + crate)
    shutil.rmtree(scratch, ignore_errors=True)
    os.makedirs(scratch)
    shutil.copytree(crate_dir(crate), os.path.join(scratch, crate))
    shutil.copytree(os.path.join(KANI_DIR, "shadow"), os.path.join(scratch, "shadow"))
    cd = os.path.join(scratch, crate)
    rc, out, t = run(["cargo", "kani", "-Z", "concrete-playback", "--concrete-playback=inplace",
                      "--harness", harness, "--exact", "--target-dir", target_dir(crate) + "-pb"],
                     cwd=cd, timeout=1500, mem_gb=16)
    names = re.findall(r"- (kani_concrete_playback_\w+)", out)
    src = os.path.join(cd, src_rel)
    text = open(src).read() if os.path.exists(src) else ""
    rdir = new_replay_dir(prop, harness)
    with open(os.path.join(rdir, "kani_output.txt"), "w") as f:
        f.write(out[-20000:])
    if not names:
        return {"reproduced": False, "tests": [], "replay_dir": rdir, "detail": "no playback test generated"}
    # keep the generated tests (appended to the harness file by Kani)
    tests_txt = "\n".join(extract_test(text, n) for n in names)
    with open(os.path.join(rdir, "playback_tests.rs"), "w") as f:
        f.write(tests_txt)
    rc2, out2, t2 = run(["cargo", "kani", "playback", "-Z", "concrete-playback", "--", "kani_concrete_playback"],
                        cwd=cd, timeout=1500,
                        extra_env={"CARGO_TARGET_DIR": target_dir(crate) + "-pbt", "RUST_BACKTRACE": "1"})
    failed = re.findall(r"^\s+(\S*kani_concrete_playback_\w+)\s*$", out2.split("failures:")[-1], re.M) if "failures:" in out2 else []
    with open(os.path.join(rdir, "native_run.txt"), "w") as f:
        f.write(out2[-30000:])
    with open(os.path.join(rdir, "cmd"), "w") as f:
        f.write("#!/bin/sh\n# re-run: Kani concrete playback of %s, natively, against /repo's files\n"
                "cd /verif && exec ./check %s --replay %s\n" % (harness, prop, rdir))
    with open(os.path.join(rdir, "meta.json"), "w") as f:
        import json
        json.dump({"property": prop, "crate": crate, "harness": harness, "src_rel": src_rel, "tests": names}, f)
    m = re.search(r"panicked at ([^\n]+)", out2)
    return {"reproduced": bool(failed) and rc2 != 0, "tests": names, "failed_tests": failed,
            "replay_dir": rdir, "detail": (m.group(0) if m else out2[-400:])}


def extract_test(text, name):
    i = text.find("fn " + name)
    if i < 0:
        return ""
    j = text.rfind("#[test]", 0, i)
    # find end: matching braces from first '{' after i
    k = text.find("{", i)
    depth = 0
    e = k
    while e < len(text):
        if text[e] == "{":
            depth += 1
        elif text[e] == "}":
            depth -= 1
            if depth == 0:
                break
        e += 1
    return text[j:e + 1]


def replay_saved(rdir):
    """`./check <ID> --replay <dir>`: append the saved tests to a scratch copy and run them natively."""
    import json
    meta = json.load(open(os.path.join(rdir, "meta.json")))
    crate = meta["crate"]
    scratch = os.path.join(CACHE, "playback-" + crate)
    shutil.rmtree(scratch, ignore_errors=True)
    os.makedirs(scratch)
    shutil.copytree(crate_dir(crate), os.path.join(scratch, crate))
    shutil.copytree(os.path.join(KANI_DIR, "shadow"), os.path.join(scratch, "shadow"))
    cd = os.path.join(scratch, crate)
    with open(os.path.join(cd, meta["src_rel"]), "a") as f:
        f.write("\n" + open(os.path.join(rdir, "playback_tests.rs")).read())
    rc2, out2, t2 = run(["cargo", "kani", "playback", "-Z", "concrete-playback", "--", "kani_concrete_playback"],
                        cwd=cd, timeout=1500,
                        extra_env={"CARGO_TARGET_DIR": target_dir(crate) + "-pbt", "RUST_BACKTRACE": "1"})
    print(out2[-6000:])
    return 1 if rc2 != 0 and "failures:" in out2 else 0


def decide(o, crate, harnesses, src_rel_of, timeout=600, mem_gb=12, findings=None, key_of=None, describe=None):
    """Run harnesses, record each as a query in Outcome `o`, replay failures.
    src_rel_of(h) -> file (relative to the crate) that holds harness h.
    key_of(h, r) -> role key for known-findings matching."""
    ok, out, t = prepare(crate)
    if not ok:
        o.inconc("Kani harness crate '%s' does not build against /repo's current sources (see stderr)" % crate)
        return {}
    res = run_many(crate, harnesses, timeout=timeout, mem_gb=mem_gb)
    for h in harnesses:
        r = res[h]
        v = r["verdict"]
        q = o.query(h, "kani/cbmc", v, r.get("solver_s", r["wall_s"]), wall_s=r["wall_s"], covers=r["covers"],
                    nonvacuous=bool(r["covers"]) and r["covers"][0] == r["covers"][1],
                    vccs=r.get("vccs"), sat_vars=r.get("sat_vars"), sat_clauses=r.get("sat_clauses"))
        if v == "SUCCESSFUL":
            continue
        if v == "FAILED":
            q["failed_checks"] = r["failed_checks"][:5]
            log("  [K] %s FAILED (%s) - replaying natively" % (h, "; ".join(r["failed_checks"][:2])))
            pb = playback(crate, h, o.prop, src_rel_of(h))
            q["replay"] = {k: pb[k] for k in ("reproduced", "tests", "replay_dir", "detail")}
            what = "%s: %s" % (h, describe(h, r, pb) if describe else pb["detail"])
            if pb["reproduced"]:
                key = key_of(h, r) if key_of else {"harness": h}
                k = findings.match(o.prop, key) if findings else None
                if k:
                    o.known_finding("%s [%s]" % (k.get("what", what), h))
                else:
                    o.violation(what, pb["replay_dir"])
            else:
                o.inconc("UNCONFIRMED counterexample for %s: Kani reports a failure that the native playback does not reproduce (%s)" % (h, pb["detail"][:200]))
        elif v == "VACUOUS":
            o.inconc("%s: a reachability witness (kani::cover) is unsatisfiable - harness would pass vacuously" % h)
        elif v == "UNWIND":
            o.inconc("%s: unwinding assertion failed - the stated loop bound is too small for the current code" % h)
        else:
            tail = r["_out"][-600:].replace("\n", " | ")
            o.inconc("%s: %s (%s)" % (h, v, tail[-300:]))
    return res
