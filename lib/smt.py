"""Translation of mirsym terms to z3 (one uninterpreted value sort) and query helpers.

Every check keeps the SMT-LIB text of its queries so that cvc5 can re-decide them.
A z3 `unknown`, an exception, or an `(error` from cvc5 makes the query inconclusive.
"""
import re
import subprocess
import time

import z3

from mirsym import C, TRUE, FALSE


class Smt:
    def __init__(self, enums, timeout_ms=60000):
        self.enums = enums
        self.V = z3.DeclareSort("V")
        self.funcs = {}
        self.axioms = []
        self.cache = {}
        self.timeout_ms = timeout_ms
        self.disc = z3.Function("disc", self.V, z3.IntSort())
        self.intval = z3.Function("intval", self.V, z3.IntSort())
        self.truth = z3.Function("truth", self.V, z3.BoolSort())
        self.mkint = z3.Function("mkint", z3.IntSort(), self.V)
        self.TRUEV = z3.Const("TRUE", self.V)
        self.FALSEV = z3.Const("FALSE", self.V)
        self.axioms.append(self.truth(self.TRUEV))
        self.axioms.append(z3.Not(self.truth(self.FALSEV)))
        self.queries = []      # (name, verdict, time_s, smt2)
        self._consts = {}
        self._ints_seen = set()

    # -- symbols ------------------------------------------------------------------
    def fn(self, name, arity, ret=None):
        key = (name, arity, str(ret))
        f = self.funcs.get(key)
        if f is None:
            sig = [self.V] * arity + [ret if ret is not None else self.V]
            f = z3.Function(clean(name) + ("_%d" % arity), *sig)
            self.funcs[key] = f
        return f

    def const(self, name):
        c = self._consts.get(name)
        if c is None:
            c = z3.Const(clean(name), self.V)
            self._consts[name] = c
        return c

    # -- kinds ----------------------------------------------------------------------
    def kind(self, t):
        k = t[0]
        if k == "c":
            return {"int": "int", "bool": "bool"}.get(t[1], "v")
        if k in ("disc", "asint"):
            return "int"
        if k == "op":
            if t[1] in ("Eq", "Ne", "Lt", "Le", "Gt", "Ge"):
                return "bool"
            if t[1] in ("Add", "Sub", "Mul", "AddUnchecked", "SubUnchecked"):
                return "int"
            return "v"
        if k == "op1":
            if t[1] == "Not":
                return "bool" if self.kind(t[2]) != "int" else "v"
            return "v"
        if k == "ite":
            ka, kb = self.kind(t[2]), self.kind(t[3])
            return ka if ka == kb else "v"
        return "v"

    # -- translation ------------------------------------------------------------------
    def v(self, t):
        key = ("v", t)
        r = self.cache.get(key)
        if r is not None:
            return r
        r = self._v(t)
        self.cache[key] = r
        return r

    def _v(self, t):
        k = t[0]
        if k == "asint":
            return self.v(t[1])
        kd = self.kind(t)
        if kd == "int":
            i = self.i(t)
            r = self.mkint(i)
            self.axioms.append(self.intval(r) == i)
            return r
        if kd == "bool":
            return z3.If(self.b(t), self.TRUEV, self.FALSEV)
        if k == "c":
            return self.const("k!" + str(t[1]) + "!" + str(t[2]))
        if k == "sym":
            return self.const("s!" + t[1])
        if k == "app":
            args = [self.v(a) for a in t[2]]
            r = self.fn("f!" + t[1], len(args))(*args) if args else self.const("f0!" + t[1])
            # library facts: these Option / Result adaptors keep the variant (Some stays Some, None stays None)
            if len(args) == 1 and t[1] in ("Option::cloned", "Option::copied", "Option::as_ref", "Option::as_mut", "Option::as_deref", "Option.Clone::clone",
                                           "Result::as_ref", "Result.Clone::clone"):
                self.axioms.append(self.disc(r) == self.disc(args[0]))
                if t[2][0][0] == "addr":        # ... and a reference to a place has the variant of the place
                    self.axioms.append(self.disc(r) == self.disc(self.v(t[2][0][1])))
            return r
        if k == "out":
            args = [self.v(a) for a in t[3]]
            return self.fn("out%d!%s" % (t[2], t[1]), len(args))(*args)
        if k == "fld":
            return self.fn("fld%d" % t[2], 1)(self.v(t[1]))
        if k == "down":
            return self.fn("down!" + t[2], 1)(self.v(t[1]))
        if k == "deref":
            if len(t) > 2:
                return self.fn("deref@%s" % t[2], 1)(self.v(t[1]))
            return self.fn("deref", 1)(self.v(t[1]))
        if k == "addr":
            r = self.fn("addr", 1)(self.v(t[1]))
            self.axioms.append(self.fn("deref", 1)(r) == self.v(t[1]))
            return r
        if k == "box":
            r = self.fn("box", 1)(self.v(t[1]))
            self.axioms.append(self.fn("deref", 1)(r) == self.v(t[1]))
            return r
        if k == "boxraw":
            return self.fn("boxraw", 1)(self.v(t[1]))
        if k == "idx":
            return self.fn("idx!" + clean(str(t[2])), 1)(self.v(t[1]))
        if k == "aggr":
            args = [self.v(a) for a in t[2]]
            name = "mk!" + str(t[1]) + "!%d" % len(args)
            if not args:
                return self.const(name)
            r = self.fn(name, len(args))(*args)
            for i, a in enumerate(args):
                self.axioms.append(self.fn("fld%d" % i, 1)(r) == a)
            return r
        if k == "variant":
            args = [self.v(a) for a in t[3]]
            name = "mk!%s::%s" % (t[1], t[2])
            r = self.fn(name, len(args))(*args) if args else self.const(name)
            idx = self.enums.index(t[1], t[2])
            if idx is not None:
                self.axioms.append(self.disc(r) == idx)
            body = self.fn("down!" + t[2], 1)(r)
            for i, a in enumerate(args):
                self.axioms.append(self.fn("fld%d" % i, 1)(body) == a)
            return r
        if k == "upd":
            base = self.v(t[1])
            nv = self.v(t[3])
            key = t[2]
            kn = "%s%s" % (key[0], key[1])
            r = self.fn("upd!" + kn, 2)(base, nv)
            if key[0] == "f":
                self.axioms.append(self.fn("fld%d" % key[1], 1)(r) == nv)
            elif key[0] == "v":
                self.axioms.append(self.fn("down!" + key[1], 1)(r) == nv)
                self.axioms.append(self.disc(r) == self.disc(base))
            return r
        if k == "ite":
            return z3.If(self.b(t[1]), self.v(t[2]), self.v(t[3]))
        if k == "op":
            return self.fn("op!" + t[1], 2)(self.v(t[2]), self.v(t[3]))
        if k == "op1":
            return self.fn("op1!" + t[1], 1)(self.v(t[2]))
        if k == "bottom":
            return self.const("bottom")
        if k in ("ref", "ptr"):
            return self.const("ptr!" + clean(repr(t))[:80])
        raise ValueError("smt: unknown term %r" % (t,))

    def i(self, t):
        k = t[0]
        if k == "c" and t[1] == "int":
            return z3.IntVal(t[2])
        if k == "disc":
            return self.disc(self.v(t[1]))
        if k == "asint":
            return self.i(t[1]) if self.kind(t[1]) == "int" else self.intval(self.v(t[1]))
        if k == "op" and t[1] in ("Add", "AddUnchecked"):
            return self.i(t[2]) + self.i(t[3])
        if k == "op" and t[1] in ("Sub", "SubUnchecked"):
            return self.i(t[2]) - self.i(t[3])
        if k == "op" and t[1] == "Mul":
            return self.i(t[2]) * self.i(t[3])
        if k == "ite" and self.kind(t) == "int":
            return z3.If(self.b(t[1]), self.i(t[2]), self.i(t[3]))
        return self.intval(self.v(t))

    def b(self, t):
        k = t[0]
        if k == "c" and t[1] == "bool":
            return z3.BoolVal(t[2])
        if k == "op" and t[1] in ("Eq", "Ne", "Lt", "Le", "Gt", "Ge"):
            ka, kb = self.kind(t[2]), self.kind(t[3])
            op = t[1]
            if op in ("Lt", "Le", "Gt", "Ge") or "int" in (ka, kb):
                a, c = self.i(t[2]), self.i(t[3])
            elif "bool" in (ka, kb):
                a, c = self.b(t[2]), self.b(t[3])
            else:
                a, c = self.v(t[2]), self.v(t[3])
            if op == "Eq":
                return a == c
            if op == "Ne":
                return a != c
            return {"Lt": lambda: a < c, "Le": lambda: a <= c, "Gt": lambda: a > c, "Ge": lambda: a >= c}[op]()
        if k == "op1" and t[1] == "Not":
            return z3.Not(self.b(t[2]))
        if k == "ite":
            return z3.If(self.b(t[1]), self.b(t[2]), self.b(t[3]))
        return self.truth(self.v(t))

    def pc(self, pc):
        """Path condition (list of (atom, op, value)) -> list of z3 constraints."""
        out = []
        for atom, op, val in pc:
            if op == "==":
                if isinstance(val, bool):
                    out.append(self.b(atom) if val else z3.Not(self.b(atom)))
                else:
                    out.append(self.i(atom) == val)
            elif op == "notin":
                for x in val:
                    if isinstance(x, bool):
                        out.append(self.b(atom) != x)
                    else:
                        out.append(self.i(atom) != x)
        return out

    # -- solving ------------------------------------------------------------------
    def check(self, name, constraints, expect=None):
        """Decide satisfiability of axioms + constraints. Returns ('sat', model) / ('unsat', None) /
        ('unknown', reason). Records the query."""
        s = z3.Solver()
        s.set("timeout", self.timeout_ms)
        cs = list(constraints)
        # translation may add axioms lazily; constraints are already translated, so axioms are complete
        for a in self.axioms:
            s.add(a)
        for c in cs:
            s.add(c)
        t0 = time.time()
        try:
            r = s.check()
        except z3.Z3Exception as ex:
            self.queries.append({"name": name, "verdict": "error", "time_s": time.time() - t0, "smt2": None, "error": str(ex)})
            return "unknown", str(ex)
        dt = time.time() - t0
        smt2 = "(set-logic ALL)\n" + s.to_smt2()
        verdict = str(r)
        q = {"name": name, "verdict": verdict, "time_s": dt, "smt2": smt2}
        self.queries.append(q)
        if r == z3.sat:
            return "sat", s.model()
        if r == z3.unsat:
            return "unsat", None
        return "unknown", s.reason_unknown()


def clean(name):
    return re.sub(r"[^A-Za-z0-9_!.@:<>#&\-]", "_", name)


def cvc5_check(smt2, timeout=60):
    """Re-decide a recorded query with cvc5. -> 'sat' | 'unsat' | 'unknown' | 'error: ...'"""
    try:
        p = subprocess.run(["cvc5", "--lang", "smt2", "--tlimit=%d" % (timeout * 1000)], input=smt2, text=True,
                           capture_output=True, timeout=timeout + 10)
    except (OSError, subprocess.TimeoutExpired) as ex:
        return "error: %s" % ex
    out = (p.stdout or "") + (p.stderr or "")
    if "(error" in out or "error" in (p.stderr or "").lower():
        return "error: " + out.strip()[:300]
    for line in out.split("\n"):
        line = line.strip()
        if line in ("sat", "unsat", "unknown"):
            return line
    return "error: no verdict: " + out.strip()[:200]
