"""Bounded symbolic evaluation of Rust iterator pipelines found in MIR terms.

mirsym leaves a pipeline such as

    self.0.iter().rev().map(|s| s.get(e)).skip_while(Option::is_none).map(|s| s.unwrap()).next()

as one nested application term, the adaptors being library calls. This module gives those
adaptors their library semantics over a *symbolic sequence of bounded length* n <= N:
the elements are fresh symbols, the closures are the real closure bodies (their MIR is run
by the same executor, all paths), and the result is a case split (z3 condition, mirsym term)
that a property module compares with a reference inside z3. A pipeline that uses an
adaptor not listed here makes the evaluation fail with `Unsupported` (=> inconclusive).

Value  = [(cond, term)]   a partition: `cond` is a z3 Bool, `term` a mirsym term
Seq    = [(guard, Value, pan)] in iteration order; `guard` (z3 Bool) = the element is present,
         `pan` (z3 Bool) = producing this element panics. Iterators are lazy: a consumer only
         demands elements up to the one that answers it, and only demanded elements can panic
         (`Chains.panics` collects `demanded AND pan`).
"""
import re

import z3

import mirsym as ms


class Unsupported(Exception):
    pass


class Panic(Exception):
    pass


def closure_index(mods):
    idx = {}
    for M in mods:
        for f in M.funcs:
            if "{closure#" in f.name and f.args:
                m = re.search(r"\{closure@([^}]+)\}", f.args[0][1])
                if m:
                    idx[m.group(1)] = f
    return idx


def subst(t, mp, E):
    """Replace whole subterms (keys of mp) and re-normalise projections on the way up."""
    if not isinstance(t, tuple) or not t:
        return t
    if t in mp:
        return mp[t]
    k = t[0]
    if k in ("c", "sym"):
        return t
    if k == "fld":
        return ms.proj(subst(t[1], mp, E), ("f", t[2]), E)
    if k == "down":
        return ms.proj(subst(t[1], mp, E), ("v", t[2]), E)
    if k == "deref":
        x = subst(t[1], mp, E)
        if x[0] == "addr":
            return x[1]
        return ("deref", x)
    if k == "addr":
        x = subst(t[1], mp, E)
        if x[0] == "deref":
            return x[1]
        return ("addr", x)
    if k == "disc":
        return ms.disc_of(subst(t[1], mp, E), E)
    if k == "ite":
        return ms.ite(subst(t[1], mp, E), subst(t[2], mp, E), subst(t[3], mp, E))
    return tuple(subst(x, mp, E) if isinstance(x, tuple) else x for x in t)


class Chains:
    def __init__(self, mods, executor_factory, S, E):
        self.mods = mods
        self.mk = executor_factory
        self.S = S
        self.E = E
        self.cidx = closure_index(mods)
        self.adaptors = set()      # adaptor names interpreted (for evidence)
        self.closures = set()      # closure bodies executed
        self.panics = []           # z3 conditions under which a closure of the pipeline panics
        self._cache = {}

    # ---- closures / callables ----------------------------------------------------
    def _closure_paths(self, f):
        if f.name not in self._cache:
            ex = self.mk()
            names = ["c!"] + ["x%d!" % i for i in range(len(f.args) - 1)]
            outs = ex.run(f, arg_names=names)
            if ex.unknown:
                raise Unsupported("closure %s: untranslatable MIR (%s)" % (f.short, ex.unknown[0][:60]))
            self._cache[f.name] = outs
            self.closures.add(f.short)
        return self._cache[f.name]

    def apply(self, fn, args):
        """fn: mirsym term of a callable; args: list of Values. -> (Value, panic condition)"""
        pans = []
        val = self._apply(fn, args, pans)
        return val, (z3.Or(pans) if pans else z3.BoolVal(False))

    def _apply(self, fn, args, pans):
        S, E = self.S, self.E
        txt = None
        captured = None
        if fn[0] == "aggr" and isinstance(fn[1], str) and "{closure@" in fn[1]:
            txt, captured = fn[1], fn
        elif fn[0] == "c" and isinstance(fn[2], str):
            txt = fn[2]
        elif fn[0] == "addr":
            return self._apply(fn[1], args, pans)
        if txt is None:
            raise Unsupported("callable %s" % ms.show(fn)[:80])
        m = re.search(r"\{closure@([^}]+)\}", txt)
        if m:
            f = self.cidx.get(m.group(1))
            if f is None:
                raise Unsupported("closure body not in the dump: %s" % m.group(1))
            paths = self._closure_paths(f)
            out = []
            combos = [[]]
            for a in args:
                combos = [c + [x] for c in combos for x in a]
            for combo in combos:
                base = z3.And([c for c, _ in combo]) if combo else z3.BoolVal(True)
                mp = {}
                clos = captured if captured is not None else ("aggr", "closure", (), None)
                if f.args[0][1].strip().startswith("&"):
                    mp[("deref", ("sym", "c!"))] = clos
                    mp[("sym", "c!")] = ("addr", clos)
                else:                       # FnOnce: the closure is passed by value
                    mp[("sym", "c!")] = clos
                for i, (_, t) in enumerate(combo):
                    mp[("sym", "x%d!" % i)] = t
                for p in paths:
                    pc = [(subst(a, mp, E), op, v) for a, op, v in p.pc]
                    cond = z3.And([base] + S.pc(pc))
                    if p.kind == "return":
                        out.append((cond, subst(p.ret, mp, E)))
                    elif p.kind in ("diverge", "panic"):
                        pans.append(cond)
                    elif p.kind == "unreachable":
                        continue
                    else:
                        raise Unsupported("closure %s: path kind %s" % (f.short, p.kind))
            return out
        # fn items with known meaning
        name = re.sub(r"::<.*>", "", txt).replace("ZeroSized: ", "").strip()
        x = args[0] if args else None
        if name.endswith("Option::is_none") or name.endswith("Option::is_some"):
            want_none = name.endswith("is_none")
            out = []
            for c, t in x:
                d = ms.disc_of(self._deref(t), E)
                if d[0] == "c":
                    out.append((c, ms.TRUE if ((d[2] == 0) == want_none) else ms.FALSE))
                else:
                    dz = S.i(d)
                    out.append((z3.And(c, dz == 0), ms.TRUE if want_none else ms.FALSE))
                    out.append((z3.And(c, dz == 1), ms.FALSE if want_none else ms.TRUE))
            return out
        if name.endswith("Option::unwrap") or name.endswith("Result::unwrap"):
            out = []
            for c, t in x:
                out.append((z3.And(c, S.i(ms.disc_of(t, E)) == (1 if "Option" in name else 0)), self._some_payload(t) if "Option" in name else ms.proj(ms.proj(t, ("v", "Ok"), E), ("f", 0), E)))
                pans.append(z3.And(c, S.i(ms.disc_of(t, E)) != (1 if "Option" in name else 0)))
            return out
        raise Unsupported("fn item %s" % name)

    def _deref(self, t):
        while t[0] == "addr":
            t = t[1]
        if t[0] == "deref" and t[1][0] == "addr":
            return t[1][1]
        return t

    def _some_payload(self, t):
        return ms.proj(ms.proj(t, ("v", "Some"), self.E), ("f", 0), self.E)

    def truth(self, val):
        """Value of booleans -> z3 Bool."""
        S = self.S
        return z3.Or([z3.And(c, S.b(t)) for c, t in val]) if val else z3.BoolVal(False)

    def is_some(self, val):
        S, E = self.S, self.E
        return z3.Or([z3.And(c, S.i(ms.disc_of(t, E)) == 1) for c, t in val]) if val else z3.BoolVal(False)

    # ---- sequences ------------------------------------------------------------------
    def seq(self, t, env):
        """t: iterator-valued term -> Seq. env: {base collection term: [element terms]}"""
        E = self.E
        while t[0] == "addr":
            t = t[1]
        if t in env:
            return [(z3.BoolVal(True), [(z3.BoolVal(True), e)], z3.BoolVal(False)) for e in env[t]]
        if t[0] != "app":
            raise Unsupported("iterator source %s" % ms.show(t)[:80])
        name, a = t[1], t[2]
        base = name.split("::")[-1]
        self.adaptors.add(name)
        if re.search(r"(Deref::deref|DerefMut::deref_mut|::as_slice|::as_mut_slice|::iter|::iter_mut|IntoIterator::into_iter|::by_ref|::fuse|::peekable)$", name):
            return self.seq(a[0], env)
        if base in ("cloned", "copied") and "Iterator" in name:
            return self.seq(a[0], env)
        if base == "rev":
            return list(reversed(self.seq(a[0], env)))
        if base == "map":
            out = []
            for g, v, pn in self.seq(a[0], env):
                r, rp = self.apply(a[1], [v])
                out.append((g, r, z3.Or(pn, z3.And(g, rp))))
            return out
        if base == "filter":
            out = []
            for g, v, pn in self.seq(a[0], env):
                ref = [(c, ("addr", tt)) for c, tt in v]
                r, rp = self.apply(a[1], [ref])
                out.append((z3.And(g, self.truth(r)), v, z3.Or(pn, z3.And(g, rp))))
            return out
        if base == "filter_map" or base == "flat_map":
            out = []
            for g, v, pn in self.seq(a[0], env):
                r, rp = self.apply(a[1], [v])
                out.append((z3.And(g, self.is_some(r)), [(c, self._some_payload(tt)) for c, tt in r], z3.Or(pn, z3.And(g, rp))))
            return out
        if base == "flatten":
            out = []
            for g, v, pn in self.seq(a[0], env):
                out.append((z3.And(g, self.is_some(v)), [(c, self._some_payload(tt)) for c, tt in v], pn))
            return out
        if base == "skip_while":
            out = []
            started = z3.BoolVal(False)
            for g, v, pn in self.seq(a[0], env):
                ref = [(c, ("addr", tt)) for c, tt in v]
                r, rp = self.apply(a[1], [ref])
                # the predicate is no longer called once an element has been let through
                pn2 = z3.Or(pn, z3.And(g, z3.Not(started), rp))
                started = z3.Or(started, z3.And(g, z3.Not(self.truth(r))))
                out.append((z3.And(g, started), v, pn2))
            return out
        if base == "take_while":
            out = []
            alive = z3.BoolVal(True)
            for g, v, pn in self.seq(a[0], env):
                ref = [(c, ("addr", tt)) for c, tt in v]
                r, rp = self.apply(a[1], [ref])
                pn2 = z3.Or(pn, z3.And(g, alive, rp))
                alive = z3.And(alive, z3.Or(z3.Not(g), self.truth(r)))
                out.append((z3.And(g, alive), v, pn2))
            return out
        if base == "chain":
            return self.seq(a[0], env) + self.seq(a[1], env)
        raise Unsupported("adaptor %s" % name)

    def first(self, s):
        """Option-valued Value: the first present element. Elements after it are never demanded."""
        out = []
        none = z3.BoolVal(True)
        for g, v, pn in s:
            self.panics.append(z3.And(none, pn))
            for c, t in v:
                out.append((z3.And(none, g, c), ("variant", "Option", "Some", (t,))))
            none = z3.And(none, z3.Not(g))
        out.append((none, ("variant", "Option", "None", ())))
        return out

    def value(self, t, env):
        """t: a term that consumes an iterator (next/last/find/find_map/any/all/...), possibly wrapped in
        Option adaptors (cloned/copied/map/and_then/or_else/or) -> Value"""
        E = self.E
        if t[0] != "app":
            return [(z3.BoolVal(True), t)]
        name, a = t[1], t[2]
        base = name.split("::")[-1]
        if "Iterator" in name or "DoubleEndedIterator" in name:
            self.adaptors.add(name)
            if base == "next":
                return self.first(self.seq(a[0], env))
            if base in ("next_back", "last"):
                return self.first(list(reversed(self.seq(a[0], env))))
            if base in ("find", "rfind"):
                s = self.seq(a[0], env)
                if base == "rfind":
                    s = list(reversed(s))
                out = []
                for g, v, pn in s:
                    ref = [(c, ("addr", tt)) for c, tt in v]
                    r, rp = self.apply(a[1], [ref])
                    out.append((z3.And(g, self.truth(r)), v, z3.Or(pn, z3.And(g, rp))))
                return self.first(out)
            if base == "find_map":
                out = []
                for g, v, pn in self.seq(a[0], env):
                    r, rp = self.apply(a[1], [v])
                    out.append((z3.And(g, self.is_some(r)), [(c, self._some_payload(tt)) for c, tt in r], z3.Or(pn, z3.And(g, rp))))
                return self.first(out)
            if base in ("any", "all"):
                conds = []
                undecided = z3.BoolVal(True)
                for g, v, pn in self.seq(a[0], env):
                    r, rp = self.apply(a[1], [v])
                    self.panics.append(z3.And(undecided, z3.Or(pn, z3.And(g, rp))))
                    p = self.truth(r)
                    conds.append(z3.And(g, p) if base == "any" else z3.Or(z3.Not(g), p))
                    undecided = z3.And(undecided, z3.Not(z3.And(g, p)) if base == "any" else z3.Or(z3.Not(g), p))
                r = (z3.Or(conds) if conds else z3.BoolVal(False)) if base == "any" else (z3.And(conds) if conds else z3.BoolVal(True))
                return [(r, ms.TRUE), (z3.Not(r), ms.FALSE)]
            raise Unsupported("consumer %s" % name)
        if name.startswith("Option::") or name.startswith("Option."):
            self.adaptors.add(name)
            if base in ("cloned", "copied", "as_ref", "as_deref"):
                return self.value(a[0], env)
            if base == "map":
                x = self.value(a[0], env)
                out = []
                for c, tt in x:
                    if tt[0] == "variant" and tt[2] == "None":
                        out.append((c, tt))
                    elif tt[0] == "variant" and tt[2] == "Some":
                        rv, rp = self.apply(a[1], [[(c, tt[3][0])]])
                        self.panics.append(rp)
                        for c2, r in rv:
                            out.append((c2, ("variant", "Option", "Some", (r,))))
                    else:
                        raise Unsupported("Option::map on an opaque option")
                return out
            if base in ("or", "or_else"):
                x = self.value(a[0], env)
                if base == "or":
                    y = self.value(a[1], env)
                else:
                    y, yp = self.apply(a[1], [])
                    # what the closure answers may itself be a pipeline over a captured collection
                    y = [(z3.And(c2, c3), t3) for c2, t2 in y for c3, t3 in self.value(t2, env)]
                    self.panics.append(z3.And(z3.Not(self.is_some(x)), yp))
                out = []
                for c, tt in x:
                    if tt[0] == "variant" and tt[2] == "Some":
                        out.append((c, tt))
                    elif tt[0] == "variant" and tt[2] == "None":
                        out += [(z3.And(c, c2), t2) for c2, t2 in y]
                    else:
                        d = self.S.i(ms.disc_of(tt, E))
                        out.append((z3.And(c, d == 1), tt))
                        out += [(z3.And(c, d == 0, c2), t2) for c2, t2 in y]
                return out
        return [(z3.BoolVal(True), t)]
