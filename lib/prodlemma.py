"""Losslessness of the parser, one production at a time (an inductive step over the grammar).

Contract of a sub-parser `p(c, s)`: if it answers Ok((s', n)) then the leaves of n, in order, are exactly the
non-trivia tokens between s and s'; a helper `h(c, s, ns)` that answers Ok(s') has appended to ns nodes whose
leaves are exactly those tokens, and one that answers Err has appended nothing. Assuming the contract for every
callee, every production must establish it for itself: on each path that returns Ok, the cursor it returns is
reached from its own cursor through a chain of sub-parser calls, and the children it composes are - in order - the
nodes of exactly those calls. Each call on the path gets an arbitrary token segment g_i (a z3 sequence); z3 is asked
for an assignment of segments under which the leaves of the returned node differ from the concatenation of the
segments along the cursor chain. Unsat for every path of every production = no token is consumed without becoming
a leaf, none becomes a leaf twice, none is taken from an abandoned alternative, and the order is the source order.

Alternatives (`a(c, s).or_else(|_| b(c, s))`, `.unwrap_or(s)`, `.unwrap_or_else(..)`) are followed through their
closures (mirsym: emulate_result_alternatives), so a path is a straight line of calls.
"""
import re

import z3

import mirlib
import mirsym as ms

READONLY = ("Vec::len", "Vec::is_empty", "slice::len", "slice::is_empty")


def _okp(x, E):
    return ms.proj(ms.proj(x, ("v", "Ok"), E), ("f", 0), E)


def _strip(t):
    while True:
        if t[0] == "addr":
            t = t[1]
        elif t[0] == "app" and len(t[2]) == 1 and t[1].split("::")[-1] in ("deref", "deref_mut", "as_slice", "as_mut_slice", "borrow", "as_ref"):
            t = t[2][0]
        elif t[0] == "out" and t[1] in READONLY:
            t = t[3][t[2]]
        elif t[0] == "cast":
            t = t[-1]
        else:
            return t


def _items(t, own):
    """The list a term stands for -> [('n', node) | ('v', fname, args) | ('base',)], or None when not understood."""
    t = _strip(t)
    if own is not None and t == own:
        return [("base",)]
    if t[0] == "aggr" and t[1] == "array":
        return [("n", e) for e in t[2]]
    if t[0] == "app" and t[1] == "Vec::new" and not t[2]:
        return []
    if t[0] == "out":
        f, k, args = t[1], t[2], t[3]
        if f == "Vec::push" and k == 0:
            b = _items(args[0], own)
            return None if b is None else b + [("n", args[1])]
        if f in ("Vec::pop", "Vec::clear", "Vec::truncate", "Vec::remove", "Vec::insert", "Vec::swap", "Vec::drain", "Vec::retain"):
            return None
        b = _items(args[k], own)
        return None if b is None else b + [("v", f, args)]
    if t[0] == "app" and "into_vec" in t[1]:
        # vec![a, b, ..]: a boxed array literal turned into a vector
        arrays = [x for x in ms.subterms(t) if x[0] == "aggr" and x[1] == "array"]
        if len(arrays) == 1:
            return [("n", e) for e in arrays[0][2]]
    return None


def productions(MS):
    return [f for f in MS.funcs if f.kind == "fn" and any(t.strip().endswith("Cursor") for _, t in f.args)
            and ("ParserMatch" in f.ret or re.search(r"Result<(oal_model::lexicon::)?Cursor", f.ret))]


def check_production(f, MS, E, L, structural, o, tag):
    """-> (paths decided, problems)"""
    S = L.smt
    names = ["a%d" % i for i in range(len(f.args))]
    ci = [i for i, (_, t) in enumerate(f.args) if t.strip().endswith("Cursor")][0]
    names[ci] = "s"
    vi = [i for i, (_, t) in enumerate(f.args) if re.search(r"&mut (std::vec::|alloc::vec::)?Vec<", t)]
    own = ("sym", names[vi[0]]) if vi else None
    helper = bool(re.search(r"Result<(oal_model::lexicon::)?Cursor", f.ret))
    ex = mirlib.executor([MS])
    ex.emulate_result_alternatives = True
    CUR = ("sym", "s")
    SeqT = z3.SeqSort(z3.IntSort())
    empty = z3.Empty(SeqT)
    problems, decided = [], 0
    outs = ex.run(f, arg_names=names)
    mirlib.check_translator(o, ex, f.name)
    for p in outs:
        if p.kind != "return":
            continue
        r = p.ret
        calls = list(p.calls())
        segs = {}

        def g(e):
            k = id(e)
            if k not in segs:
                segs[k] = z3.Const("g!%s!%d" % (e[1].split("::")[-1], len(segs)), SeqT)
            return segs[k]

        def producer(c):
            for e in calls:
                if e[1] in ("Vec::push", "Context::compose", "Context::compose_node") or e[1] in READONLY:
                    continue
                if c == e[3]:
                    return e, "V0"
                if c == _okp(e[3], E):
                    return e, "V1"
                if c == ms.proj(_okp(e[3], E), ("f", 0), E):
                    return e, "N"
            return None, None

        def cursor_args(e):
            return [a for a in e[2] if a == CUR or producer(a)[0] is not None]

        if r[0] == "variant" and r[2] == "Err":
            if own is not None:
                touched = [e[1] for e in calls if e[1] not in READONLY and any(_strip(a) == own or (_items(a, own) or [None])[0] == ("base",) for a in e[2][:1] + e[2][2:3])]
                decided += 1
                if touched:
                    problems.append("%s: a path that answers Err has already appended to the caller's children (%s)" % (f.name, touched[0]))
            continue
        if not (r[0] == "variant" and r[2] == "Ok"):
            e = next((e2 for e2 in calls if e2[3] == r), None)
            decided += 1
            if e is None:
                problems.append("%s: returns %s, which is not a sub-parser's answer" % (f.name, ms.show(r)[:80]))
            elif cursor_args(e) != [CUR]:
                problems.append("%s: the alternative %s does not start at the production's own cursor" % (f.name, e[1]))
            continue
        pay = r[3][0]
        cur, node = (pay, None) if helper else (ms.proj(pay, ("f", 0), E), ms.proj(pay, ("f", 1), E))
        chain, c, why = [], cur, None
        for _ in range(80):
            if c == CUR:
                break
            e, k = producer(c)
            if e is None:
                why = "the cursor it returns (%s) does not come out of a sub-parser" % ms.show(c)[:70]
                break
            ca = cursor_args(e)
            if len(ca) != 1:
                why = "%s is called with %d cursors" % (e[1], len(ca))
                break
            chain.append((e, k))
            c = ca[0]
        else:
            why = "cursor chain too long"
        chain.reverse()
        decided += 1
        if why:
            problems.append("%s: %s" % (f.name, why))
            continue
        consumed = z3.Concat(*([empty, empty] + [g(e) for e, _ in chain]))
        unknown = []

        def call_of(fname, args):
            return next((e for e in calls if e[1] == fname and tuple(e[2]) == tuple(args)), None)

        def leaves_of_list(its):
            out = [empty, empty]
            for it in its:
                if it == ("base",):
                    continue
                if it[0] == "v":
                    e = call_of(it[1], it[2])
                    if e is None:
                        unknown.append(it[1])
                        continue
                    if e[3][0] == "app" and re.search(r"Result<", (resolve_ret(e) or "Result<")):
                        out.append(z3.If(S.disc(S.v(e[3])) == 0, g(e), empty))
                    else:
                        out.append(g(e))
                else:
                    out.append(leaves_of_node(it[1]))
            return z3.Concat(*out)

        def resolve_ret(e):
            fn = ex.resolve(e[1], len(e[2])) if hasattr(ex, "resolve") else None
            if fn is not None:
                return fn.ret
            return "Cursor" if e[1].endswith("repeat") else "Result<"

        def leaves_of_node(n):
            if n[0] == "app" and n[1] in ("Context::compose", "Context::compose_node"):
                its = _items(n[2][2], own)
                if its is None:
                    unknown.append("children of " + ms.show(n[2][1])[:40])
                    return empty
                return leaves_of_list(its)
            for e in calls:
                if e[1] in ("Vec::push",) or e[1] in READONLY:
                    continue
                if n == ms.proj(_okp(e[3], E), ("f", 1), E):
                    return g(e)
            # `if ns.len() == 1 { ns.pop().unwrap() }`: the only element of a list stands for the list
            for e in calls:
                if e[1] == "Vec::pop" and n == ms.proj(ms.proj(e[3], ("v", "Some"), E), ("f", 0), E):
                    lens = [e2 for e2 in calls if e2[1] == "Vec::len" and _strip(e2[2][0]) == _strip(e[2][0])]
                    its = _items(e[2][0], own)
                    if lens and its is not None:
                        v, _ = S.check("%s: the popped node is the only element" % f.name, S.pc(p.pc) + [S.i(lens[0][3]) != 1])
                        if v == "unsat":
                            return leaves_of_list(its)
            unknown.append("node " + ms.show(n)[:60])
            return empty

        if helper:
            its = None
            last = None
            for e in calls:
                if e[1] in READONLY:
                    continue
                for k, a in enumerate(e[2]):
                    x = _items(a, own)
                    if x is not None and x[:1] == [("base",)] and (a[0] == "addr" or a == own):
                        last = ("out", e[1], k, e[2])
            its = [("base",)] if last is None else _items(last, own)
            produced = leaves_of_list(its) if its is not None else None
        else:
            produced = leaves_of_node(node)
        if unknown or produced is None:
            problems.append("%s: not understood: %s" % (f.name, "; ".join(unknown)[:160]))
            continue
        name = "%s: the leaves of the answer are the tokens between the cursors, in order [%s path %d]" % (tag + f.name, "Ok", decided)
        okq = L.expect_unsat(name, S.pc(p.pc) + [produced != consumed])
        if not okq:
            problems.append("%s: consumes %s but its answer does not have exactly their leaves in that order" % (f.name, " ".join(e[1].split("::")[-1] for e, _ in chain) or "nothing"))
    return decided, problems


def base_lemmas(o, MM, E, structural):
    """The leaves of the induction: a token parser answers with the token under its own cursor and the cursor one
    token (plus trivia) further; compose appends one tree node per child, in the order of the list."""
    def sel(name, nargs):
        fs = [f for f in MM.funcs if f.kind == "fn" and f.name.split("::")[-1] == name and len(f.args) == nargs]
        if len(fs) != 1:
            raise KeyError("%s/%d: %d candidates" % (name, nargs, len(fs)))
        return fs[0]
    try:
        f_pop, f_ptw, f_comp, f_cnode = sel("pop", 2), sel("parse_token_with", 3), sel("compose", 3), sel("compose_node", 3)
    except KeyError as ex:
        o.inconc("MIR: %s" % ex)
        return
    o.functions += [mirlib.func_ref(f, "oal-model") for f in (f_pop, f_ptw, f_comp, f_cnode)]
    S, SELF = ("sym", "s"), ("sym", "self")
    # Context::pop
    ex = mirlib.executor([MM])
    ex.emulate_option_map = True
    some = none = 0
    okp = True
    for p in ex.run(f_pop, arg_names=["self", "s"]):
        if p.kind != "return":
            continue
        calls = list(p.calls())
        pk = [e for e in calls if e[1] == "Context::peek"]
        adv = [e for e in calls if e[1] == "TokenList::advance"]
        sk = [e for e in calls if e[1] == "Context::skip_trivia"]
        if p.ret[0] == "variant" and p.ret[2] == "Some":
            some += 1
            tup = p.ret[3][0]
            good = len(pk) == 1 and pk[0][2][1] == S and len(adv) == 1 and adv[0][2][1] == S and len(sk) == 1 and sk[0][2][1] == adv[0][3] and \
                ms.proj(tup, ("f", 0), E) == sk[0][3] and ms.proj(tup, ("f", 1), E) == ms.proj(ms.proj(pk[0][3], ("v", "Some"), E), ("f", 0), E)
            okp = okp and good
        elif p.ret[0] == "variant" and p.ret[2] == "None":
            none += 1
            okp = okp and len(pk) == 1 and pk[0][2][1] == S and not adv
        else:
            okp = False
    mirlib.check_translator(o, ex, "Context::pop")
    structural("Context::pop: answers the token under its own cursor and the cursor one token and the following trivia further; None only at the end", okp and some == 1 and none >= 1)
    # parse_token_with
    ex = mirlib.executor([MM])
    okn = 0
    okt = True
    for p in ex.run(f_ptw, arg_names=["c", "s", "pred"]):
        if p.kind != "return":
            continue
        pops = [e for e in p.calls() if e[1] == "Context::pop"]
        if len(pops) != 1 or pops[0][2][1] != S:
            okt = False
            continue
        if p.ret[0] == "variant" and p.ret[2] == "Ok":
            okn += 1
            item = ms.proj(ms.proj(pops[0][3], ("v", "Some"), E), ("f", 0), E)
            want = ("aggr", "tuple", (ms.proj(item, ("f", 0), E), ("variant", "ParserMatch", "Token", (ms.proj(item, ("f", 1), E),))), None)
            okt = okt and p.ret[3][0] == want
    mirlib.check_translator(o, ex, "parse_token_with")
    structural("parse_token_with: Ok carries the token popped at its own cursor, as a leaf, and the cursor that pop answered", okt and okn == 1)
    # compose / compose_node
    ex = mirlib.executor([MM])
    okc, n_e, n_n = True, 0, 0
    for p in ex.run(f_comp, arg_names=["self", "kind", "children"]):
        if p.kind != "return":
            continue
        cn = [e for e in p.calls() if e[1] == "Context::compose_node"]
        if cn:
            n_n += 1
            okc = okc and p.ret == cn[0][3] and tuple(cn[0][2]) == (SELF, ("sym", "kind"), ("sym", "children"))
        else:
            n_e += 1
            okc = okc and p.ret == ("variant", "ParserMatch", "Syntax", (("sym", "kind"),))
    structural("Context::compose: the node of a non-empty list is compose_node of that very list; an empty list gives the bare kind (no leaves)", okc and n_e == 1 and n_n == 1)
    ex = mirlib.executor([MM])
    kinds, okn2, ret_ok = set(), True, False
    for p in ex.run(f_cnode, arg_names=["self", "kind", "children"]):
        calls = list(p.calls())
        nn = [e for e in calls if e[1] == "SyntaxTree::new_node"]
        it = [e for e in calls if e[1].endswith("IntoIterator::into_iter")]
        if p.kind in ("backedge", "return"):
            okn2 = okn2 and len(it) == 1 and _strip(it[0][2][0]) == ("sym", "children") and nn and \
                nn[0][2][1] == ("app", "SyntaxNode::new", (("variant", "SyntaxTrunk", "Tree", (("sym", "kind"),)),))
        if p.kind == "return":
            ret_ok = bool(nn) and p.ret == ("variant", "ParserMatch", "Node", (nn[0][3],))
        if p.kind != "backedge":
            continue
        nx = [e for e in calls if e[1].endswith("Iterator::next")]
        ap = [e for e in calls if e[1] == "SyntaxTree::append"]
        if len(nx) != 1 or len(ap) != 1 or not nn:
            okn2 = False
            continue
        child = ms.proj(ms.proj(nx[0][3], ("v", "Some"), E), ("f", 0), E)
        parent, added = ap[0][2][1], ap[0][2][2]
        okn2 = okn2 and parent == nn[0][3]
        # which variant of the child is this path about, and is the appended node the one it stands for
        shown = ms.show(added)
        if len(nn) == 2 and added == nn[1][3]:
            inner = nn[1][2][1]
            leaf = [t for t in ms.subterms(inner) if t[0] == "variant" and t[1] == "SyntaxTrunk"]
            if leaf and any(t == child or (t[0] == "deref" and t[1] == child) for t in ms.subterms(leaf[0])):
                kinds.add(leaf[0][2])
            else:
                okn2 = False
        elif len(nn) == 1 and any(t == child or (t[0] == "deref" and t[1] == child) for t in ms.subterms(added)):
            kinds.add("Node")
        else:
            okn2 = False
    mirlib.check_translator(o, ex, "compose_node")
    structural("Context::compose_node: one iteration appends to the new parent exactly the node of the child under the iterator - a fresh leaf for a token, "
               "a fresh empty tree for a bare kind, the child's own node otherwise - and the parent is what is returned", okn2 and ret_ok and kinds == {"Leaf", "Tree", "Node"})
