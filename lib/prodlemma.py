"""Losslessness of the parser, one production at a time (an inductive step over the grammar).

Contract of a sub-parser `p(c, s)`: if it answers Ok((s', n)) then the leaves of n, in order, are exactly the
non-trivia tokens between s and s'; a helper `h(c, s, ns)` that answers Ok(s') has appended to ns nodes whose
leaves are exactly those tokens, and one that answers Err has appended nothing. Assuming the contract for every
callee, every production must establish it for itself: on each path that returns Ok, the cursor it returns is
reached from its own cursor through a chain of sub-parser calls, and the children it composes are - in order - the
nodes of exactly those calls. Each call on the path gets an arbitrary token segment g_i (a z3 sequence); z3 is asked
for an assignment of segments under which the leaves of the returned node differ from the concatenation of the
segments along the cursor chain. Unsat for every path of every production = no token is consumed without becoming
a leaf, none becomes a leaf twice, none is taken from an abandoned alternative, and the order is the source order.

Alternatives (`a(c, s).or_else(|_| b(c, s))`, `.unwrap_or(s)`, `.unwrap_or_else(..)`) are followed through their
closures (mirsym: emulate_result_alternatives), so a path is a straight line of calls.
"""
import re

import z3

import mirlib
import mirsym as ms

READONLY = ("Vec::len", "Vec::is_empty", "slice::len", "slice::is_empty")


def _okp(x, E):
    return ms.proj(ms.proj(x, ("v", "Ok"), E), ("f", 0), E)


def _strip(t):
    while True:
        if t[0] == "addr":
            t = t[1]
        elif t[0] == "app" and len(t[2]) == 1 and t[1].split("::")[-1] in ("deref", "deref_mut", "as_slice", "as_mut_slice", "borrow", "as_ref"):
            t = t[2][0]
        elif t[0] == "out" and t[1] in READONLY:
            t = t[3][t[2]]
        elif t[0] == "cast":
            t = t[-1]
        else:
            return t


def _items(t, own):
    """The list a term stands for -> [('n', node) | ('v', fname, args) | ('base',)], or None when not understood."""
    t = _strip(t)
    if own is not None and t == own:
        return [("base",)]
    if t[0] == "aggr" and t[1] == "array":
        return [("n", e) for e in t[2]]
    if t[0] == "app" and t[1] == "Vec::new" and not t[2]:
        return []
    if t[0] == "out":
        f, k, args = t[1], t[2], t[3]
        if f == "Vec::push" and k == 0:
            b = _items(args[0], own)
            return None if b is None else b + [("n", args[1])]
        if f in ("Vec::pop", "Vec::clear", "Vec::truncate", "Vec::remove", "Vec::insert", "Vec::swap", "Vec::drain", "Vec::retain"):
            return None
        b = _items(args[k], own)
        return None if b is None else b + [("v", f, args)]
    if t[0] == "app" and "into_vec" in t[1]:
        # vec![a, b, ..]: a boxed array literal turned into a vector
        arrays = [x for x in ms.subterms(t) if x[0] == "aggr" and x[1] == "array"]
        if len(arrays) == 1:
            return [("n", e) for e in arrays[0][2]]
    return None


def productions(MS):
    return [f for f in MS.funcs if f.kind == "fn" and any(t.strip().endswith("Cursor") for _, t in f.args)
            and ("ParserMatch" in f.ret or re.search(r"Result<(oal_model::lexicon::)?Cursor", f.ret))]


def check_production(f, MS, E, L, structural, o, tag):
    """-> (paths decided, problems)"""
    S = L.smt
    names = ["a%d" % i for i in range(len(f.args))]
    ci = [i for i, (_, t) in enumerate(f.args) if t.strip().endswith("Cursor")][0]
    names[ci] = "s"
    vi = [i for i, (_, t) in enumerate(f.args) if re.search(r"&mut (std::vec::|alloc::vec::)?Vec<", t)]
    own = ("sym", names[vi[0]]) if vi else None
    helper = bool(re.search(r"Result<(oal_model::lexicon::)?Cursor", f.ret))
    ex = mirlib.executor([MS])
    ex.emulate_result_alternatives = True
    CUR = ("sym", "s")
    SeqT = z3.SeqSort(z3.IntSort())
    empty = z3.Empty(SeqT)
    problems, decided = [], 0
    outs = ex.run(f, arg_names=names)
    mirlib.check_translator(o, ex, f.name)
    for p in outs:
        if p.kind != "return":
            continue
        r = p.ret
        calls = list(p.calls())
        segs = {}

        def g(e):
            k = id(e)
            if k not in segs:
                segs[k] = z3.Const("g!%s!%d" % (e[1].split("::")[-1], len(segs)), SeqT)
            return segs[k]

        def producer(c):
            for e in calls:
                if e[1] in ("Vec::push", "Context::compose", "Context::compose_node") or e[1] in READONLY:
                    continue
                if c == e[3]:
                    return e, "V0"
                if c == _okp(e[3], E):
                    return e, "V1"
                if c == ms.proj(_okp(e[3], E), ("f", 0), E):
                    return e, "N"
            return None, None

        def cursor_args(e):
            return [a for a in e[2] if a == CUR or producer(a)[0] is not None]

        if r[0] == "variant" and r[2] == "Err":
            if own is not None:
                touched = [e[1] for e in calls if e[1] not in READONLY and any(_strip(a) == own or (_items(a, own) or [None])[0] == ("base",) for a in e[2][:1] + e[2][2:3])]
                decided += 1
                if touched:
                    problems.append("%s: a path that answers Err has already appended to the caller's children (%s)" % (f.name, touched[0]))
            continue
        if not (r[0] == "variant" and r[2] == "Ok"):
            e = next((e2 for e2 in calls if e2[3] == r), None)
            decided += 1
            if e is None:
                problems.append("%s: returns %s, which is not a sub-parser's answer" % (f.name, ms.show(r)[:80]))
            elif cursor_args(e) != [CUR]:
                problems.append("%s: the alternative %s does not start at the production's own cursor" % (f.name, e[1]))
            continue
        pay = r[3][0]
        cur, node = (pay, None) if helper else (ms.proj(pay, ("f", 0), E), ms.proj(pay, ("f", 1), E))
        chain, c, why = [], cur, None
        for _ in range(80):
            if c == CUR:
                break
            e, k = producer(c)
            if e is None:
                why = "the cursor it returns (%s) does not come out of a sub-parser" % ms.show(c)[:70]
                break
            ca = cursor_args(e)
            if len(ca) != 1:
                why = "%s is called with %d cursors" % (e[1], len(ca))
                break
            chain.append((e, k))
            c = ca[0]
        else:
            why = "cursor chain too long"
        chain.reverse()
        decided += 1
        if why:
            problems.append("%s: %s" % (f.name, why))
            continue
        consumed = z3.Concat(*([empty, empty] + [g(e) for e, _ in chain]))
        unknown = []

        def call_of(fname, args):
            return next((e for e in calls if e[1] == fname and tuple(e[2]) == tuple(args)), None)

        def leaves_of_list(its):
            out = [empty, empty]
            for it in its:
                if it == ("base",):
                    continue
                if it[0] == "v":
                    e = call_of(it[1], it[2])
                    if e is None:
                        unknown.append(it[1])
                        continue
                    if e[3][0] == "app" and re.search(r"Result<", (resolve_ret(e) or "Result<")):
                        out.append(z3.If(S.disc(S.v(e[3])) == 0, g(e), empty))
                    else:
                        out.append(g(e))
                else:
                    out.append(leaves_of_node(it[1]))
            return z3.Concat(*out)

        def resolve_ret(e):
            fn = ex.resolve(e[1], len(e[2])) if hasattr(ex, "resolve") else None
            if fn is not None:
                return fn.ret
            return "Cursor" if e[1].endswith("repeat") else "Result<"

        def leaves_of_node(n):
            if n[0] == "app" and n[1] in ("Context::compose", "Context::compose_node"):
                its = _items(n[2][2], own)
                if its is None:
                    unknown.append("children of " + ms.show(n[2][1])[:40])
                    return empty
                return leaves_of_list(its)
            for e in calls:
                if e[1] in ("Vec::push",) or e[1] in READONLY:
                    continue
                if n == ms.proj(_okp(e[3], E), ("f", 1), E):
                    return g(e)
            # `if ns.len() == 1 { ns.pop().unwrap() }`: the only element of a list stands for the list
            for e in calls:
                if e[1] == "Vec::pop" and n == ms.proj(ms.proj(e[3], ("v", "Some"), E), ("f", 0), E):
                    lens = [e2 for e2 in calls if e2[1] == "Vec::len" and _strip(e2[2][0]) == _strip(e[2][0])]
                    its = _items(e[2][0], own)
                    if lens and its is not None:
                        v, _ = S.check("%s: the popped node is the only element" % f.name, S.pc(p.pc) + [S.i(lens[0][3]) != 1])
                        if v == "unsat":
                            return leaves_of_list(its)
            unknown.append("node " + ms.show(n)[:60])
            return empty

        if helper:
            its = None
            last = None
            for e in calls:
                if e[1] in READONLY:
                    continue
                for k, a in enumerate(e[2]):
                    x = _items(a, own)
                    if x is not None and x[:1] == [("base",)] and (a[0] == "addr" or a == own):
                        last = ("out", e[1], k, e[2])
            its = [("base",)] if last is None else _items(last, own)
            produced = leaves_of_list(its) if its is not None else None
        else:
            produced = leaves_of_node(node)
        if unknown or produced is None:
            problems.append("%s: not understood: %s" % (f.name, "; ".join(unknown)[:160]))
            continue
        name = "%s: the leaves of the answer are the tokens between the cursors, in order [%s path %d]" % (tag + f.name, "Ok", decided)
        okq = L.expect_unsat(name, S.pc(p.pc) + [produced != consumed])
        if not okq:
            problems.append("%s: consumes %s but its answer does not have exactly their leaves in that order" % (f.name, " ".join(e[1].split("::")[-1] for e, _ in chain) or "nothing"))
    return decided, problems


def base_lemmas(o, MM, E, structural):
    """The leaves of the induction: a token parser answers with the token under its own cursor and the cursor one
    token (plus trivia) further; compose appends one tree node per child, in the order of the list."""
    def sel(name, nargs):
        fs = [f for f in MM.funcs if f.kind == "fn" and f.name.split("::")[-1] == name and len(f.args) == nargs]
        if len(fs) != 1:
            raise KeyError("%s/%d: %d candidates" % (name, nargs, len(fs)))
        return fs[0]
    try:
        f_pop, f_ptw, f_comp, f_cnode = sel("pop", 2), sel("parse_token_with", 3), sel("compose", 3), sel("compose_node", 3)
    except KeyError as ex:
        o.inconc("MIR: %s" % ex)
        return
    o.functions += [mirlib.func_ref(f, "oal-model") for f in (f_pop, f_ptw, f_comp, f_cnode)]
    S, SELF = ("sym", "s"), ("sym", "self")
    # Context::pop
    ex = mirlib.executor([MM])
    ex.emulate_option_map = True
    some = none = 0
    okp = True
    for p in ex.run(f_pop, arg_names=["self", "s"]):
        if p.kind != "return":
            continue
        calls = list(p.calls())
        pk = [e for e in calls if e[1] == "Context::peek"]
        adv = [e for e in calls if e[1] == "TokenList::advance"]
        sk = [e for e in calls if e[1] == "Context::skip_trivia"]
        if p.ret[0] == "variant" and p.ret[2] == "Some":
            some += 1
            tup = p.ret[3][0]
            good = len(pk) == 1 and pk[0][2][1] == S and len(adv) == 1 and adv[0][2][1] == S and len(sk) == 1 and sk[0][2][1] == adv[0][3] and \
                ms.proj(tup, ("f", 0), E) == sk[0][3] and ms.proj(tup, ("f", 1), E) == ms.proj(ms.proj(pk[0][3], ("v", "Some"), E), ("f", 0), E)
            okp = okp and good
        elif p.ret[0] == "variant" and p.ret[2] == "None":
            none += 1
            okp = okp and len(pk) == 1 and pk[0][2][1] == S and not adv
        else:
            okp = False
    mirlib.check_translator(o, ex, "Context::pop")
    structural("Context::pop: answers the token under its own cursor and the cursor one token and the following trivia further; None only at the end", okp and some == 1 and none >= 1)
    # parse_token_with
    ex = mirlib.executor([MM])
    okn = 0
    okt = True
    for p in ex.run(f_ptw, arg_names=["c", "s", "pred"]):
        if p.kind != "return":
            continue
        pops = [e for e in p.calls() if e[1] == "Context::pop"]
        if len(pops) != 1 or pops[0][2][1] != S:
            okt = False
            continue
        if p.ret[0] == "variant" and p.ret[2] == "Ok":
            okn += 1
            item = ms.proj(ms.proj(pops[0][3], ("v", "Some"), E), ("f", 0), E)
            want = ("aggr", "tuple", (ms.proj(item, ("f", 0), E), ("variant", "ParserMatch", "Token", (ms.proj(item, ("f", 1), E),))), None)
            okt = okt and p.ret[3][0] == want
    mirlib.check_translator(o, ex, "parse_token_with")
    structural("parse_token_with: Ok carries the token popped at its own cursor, as a leaf, and the cursor that pop answered", okt and okn == 1)
    # compose / compose_node
    ex = mirlib.executor([MM])
    okc, n_e, n_n = True, 0, 0
    for p in ex.run(f_comp, arg_names=["self", "kind", "children"]):
        if p.kind != "return":
            continue
        cn = [e for e in p.calls() if e[1] == "Context::compose_node"]
        if cn:
            n_n += 1
            okc = okc and p.ret == cn[0][3] and tuple(cn[0][2]) == (SELF, ("sym", "kind"), ("sym", "children"))
        else:
            n_e += 1
            okc = okc and p.ret == ("variant", "ParserMatch", "Syntax", (("sym", "kind"),))
    structural("Context::compose: the node of a non-empty list is compose_node of that very list; an empty list gives the bare kind (no leaves)", okc and n_e == 1 and n_n == 1)
    ex = mirlib.executor([MM])
    kinds, okn2, ret_ok = set(), True, False
    for p in ex.run(f_cnode, arg_names=["self", "kind", "children"]):
        calls = list(p.calls())
        nn = [e for e in calls if e[1] == "SyntaxTree::new_node"]
        it = [e for e in calls if e[1].endswith("IntoIterator::into_iter")]
        if p.kind in ("backedge", "return"):
            okn2 = okn2 and len(it) == 1 and _strip(it[0][2][0]) == ("sym", "children") and nn and \
                nn[0][2][1] == ("app", "SyntaxNode::new", (("variant", "SyntaxTrunk", "Tree", (("sym", "kind"),)),))
        if p.kind == "return":
            ret_ok = bool(nn) and p.ret == ("variant", "ParserMatch", "Node", (nn[0][3],))
        if p.kind != "backedge":
            continue
        nx = [e for e in calls if e[1].endswith("Iterator::next")]
        ap = [e for e in calls if e[1] == "SyntaxTree::append"]
        if len(nx) != 1 or len(ap) != 1 or not nn:
            okn2 = False
            continue
        child = ms.proj(ms.proj(nx[0][3], ("v", "Some"), E), ("f", 0), E)
        parent, added = ap[0][2][1], ap[0][2][2]
        okn2 = okn2 and parent == nn[0][3]
        # which variant of the child is this path about, and is the appended node the one it stands for
        shown = ms.show(added)
        if len(nn) == 2 and added == nn[1][3]:
            inner = nn[1][2][1]
            leaf = [t for t in ms.subterms(inner) if t[0] == "variant" and t[1] == "SyntaxTrunk"]
            if leaf and any(t == child or (t[0] == "deref" and t[1] == child) for t in ms.subterms(leaf[0])):
                kinds.add(leaf[0][2])
            else:
                okn2 = False
        elif len(nn) == 1 and any(t == child or (t[0] == "deref" and t[1] == child) for t in ms.subterms(added)):
            kinds.add("Node")
        else:
            okn2 = False
    mirlib.check_translator(o, ex, "compose_node")
    structural("Context::compose_node: one iteration appends to the new parent exactly the node of the child under the iterator - a fresh leaf for a token, "
               "a fresh empty tree for a bare kind, the child's own node otherwise - and the parent is what is returned", okn2 and ret_ok and kinds == {"Leaf", "Tree", "Node"})


def check_loops(f, MM, E, L, o):
    """Loop invariant of a list combinator (repeat, intersperse): at every loop head, for every live cursor carried by
    the loop, the caller's list holds - after what it held on entry - nodes whose leaves are exactly the tokens between
    the function's own cursor and that cursor. Every stretch of a path between two loop heads (or the entry, a back
    edge, the return) must preserve it: z3 is asked whether the leaves of the nodes pushed in the stretch can differ
    from the concatenation of the token segments along the cursor chain of the stretch. -> (stretches decided, problems)"""
    S = L.smt
    names = ["a%d" % i for i in range(len(f.args))]
    ci = [i for i, (_, t) in enumerate(f.args) if t.strip().endswith("Cursor")][0]
    names[ci] = "s"
    vi = [i for i, (_, t) in enumerate(f.args) if re.search(r"&mut (std::vec::|alloc::vec::)?Vec<", t)]
    if not vi:
        return 0, ["%s: no list argument" % f.name]
    own = ("sym", names[vi[0]])
    CUR = ("sym", "s")
    ex = mirlib.executor([MM])
    ex.emulate_result_alternatives = True
    ex.emulate_option_map = True
    SeqT = z3.SeqSort(z3.IntSort())
    empty = z3.Empty(SeqT)
    problems, decided = [], 0
    cursor_locals = [loc for loc, t in f.locals.items() if isinstance(loc, int) and t.strip().endswith("Cursor")]
    outs = ex.run(f, arg_names=names)
    mirlib.check_translator(o, ex, f.name + " (loops)")
    for p in outs:
        if p.kind not in ("return", "backedge"):
            continue
        if p.kind == "return" and p.ret[0] == "variant" and p.ret[2] == "Err":
            touched = [e[1] for e in p.calls() if e[1] == "Vec::push" and (_items(e[2][0], own) or [None])[:1] == [("base",)]]
            decided += 1
            if touched:
                problems.append("%s: a path that answers Err has appended to the caller's list" % f.name)
            continue
        ev = list(p.events)
        marks = [i for i, e in enumerate(ev) if e[0] == "loop" and e[1] == f.short]
        bounds = [-1] + marks + [len(ev)]
        # a carried cursor is live at a loop head if it held a value there that is itself live (temporaries of the loop
        # body are carried too, holding nothing on entry: the symbols that stand for them are dead)
        dead = set()

        def live_entry(mark):
            entry = ev[mark][3] or {}
            out = {}
            for loc in cursor_locals:
                nm = f.debug.get(loc)
                sym = ("sym", "%s#loop%s_%d%s" % (f.short, ev[mark][2], loc, ("=" + nm) if nm else ""))
                v = entry.get(loc)
                if v is None or v in dead:
                    dead.add(sym)
                else:
                    out[loc] = (v, sym)
            return out
        lives = {m: live_entry(m) for m in marks}
        for k in range(len(bounds) - 1):
            lo, hi = bounds[k], bounds[k + 1]
            seg = [e for e in ev[lo + 1:hi] if e[0] == "call"]
            # cursors the stretch starts from
            if lo < 0:
                starts = {CUR}
            else:
                starts = set(sym for v, sym in lives[lo].values())
            # cursors the stretch ends in
            ends = []
            if hi < len(ev):
                ends = [v for v, sym in lives[hi].values()]
            elif p.kind == "return":
                r = p.ret
                c = r[3][0] if (r[0] == "variant" and r[2] == "Ok") else r
                if c[0] == "aggr" and c[1] == "tuple":
                    c = c[2][0]
                ends = [c]
            else:
                hd = (p.info or {}).get("head")
                mine = [m for m in marks if ev[m][2] == hd]
                carried = lives[mine[-1]] if mine else {}
                fr = [k2[0] for k2 in p.state.vals if isinstance(k2, tuple)][0] if p.state.vals else None
                ends = [p.state.vals[(fr, loc)] for loc in carried if (fr, loc) in p.state.vals]
            pushes = [e for e in seg if e[1] == "Vec::push" and (_items(e[2][0], own) or [None])[:1] == [("base",)]]
            segs = {}

            def g(e):
                if id(e) not in segs:
                    segs[id(e)] = z3.Const("g!%s!%d" % (re.sub(r"\W", "_", e[1])[-12:], len(segs)), SeqT)
                return segs[id(e)]

            def flat_args(e):
                out = []
                for a in e[2]:
                    out += list(a[2]) if (a[0] == "aggr" and a[1] == "tuple") else [a]
                return out

            def producer(c):
                for e in seg:
                    if e[1] in ("Vec::push",) or e[1] in READONLY:
                        continue
                    if c == ms.proj(_okp(e[3], E), ("f", 0), E):
                        return e
                return None
            for end in ends:
                decided += 1
                chain, c, why = [], end, None
                for _ in range(40):
                    if c in starts:
                        break
                    e = producer(c)
                    if e is None:
                        why = "the cursor %s is not reached from the cursor the stretch starts with through sub-parser calls" % ms.show(c)[:60]
                        break
                    ca = [a for a in flat_args(e) if a in starts or producer(a) is not None]
                    if len(ca) != 1:
                        why = "%s is called with %d cursors" % (e[1], len(ca))
                        break
                    chain.append(e)
                    c = ca[0]
                chain.reverse()
                if why:
                    problems.append("%s: %s" % (f.name, why))
                    continue
                consumed = z3.Concat(*([empty, empty] + [g(e) for e in chain]))
                prod, unknown = [empty, empty], []
                for pu in pushes:
                    n = pu[2][1]
                    src = [e for e in seg if e[1] != "Vec::push" and any(n == ms.proj(ms.proj(_okp(e[3], E), ("f", 0), E) if False else _okp(e[3], E), ("f", 1), E) for _ in (0,))]
                    if len(src) == 1:
                        prod.append(g(src[0]))
                    else:
                        unknown.append(ms.show(n)[:50])
                if unknown:
                    problems.append("%s: a pushed node does not come from a sub-parser of the same stretch: %s" % (f.name, unknown[0]))
                    continue
                ok = L.expect_unsat("%s: between two loop heads the nodes appended are the tokens the cursor moved over, in order [stretch %d]" % (f.name, decided),
                                    S.pc(p.pc) + [z3.Concat(*prod) != consumed])
                if not ok:
                    problems.append("%s: in one stretch it consumes %s but appends %d nodes that do not have exactly their leaves in that order" % (
                        f.name, " ".join(e[1].split("::")[-1] for e in chain) or "nothing", len(pushes)))
    return decided, problems


# ---------------------------------------------------------------------------------------------------------------
# Termination of the parser (the induction above is well founded; "cannot hang" for C04)

def _fnref(t):
    """A function-valued argument -> ('fn', name) | ('closure', 'file:line:col') | ('param', name) | None"""
    while t[0] == "addr":
        t = t[1]
    if t[0] == "sym":
        return ("param", t[1])
    txt = None
    if t[0] == "aggr" and isinstance(t[1], str):
        txt = t[1]
    elif t[0] == "c" and isinstance(t[2], str):
        txt = t[2]
    if txt is None:
        return None
    m = re.search(r"\{closure@([^}]+?)(?::\s*\d+:\d+)?\}", txt)
    if m:
        return ("closure", re.match(r"(.*?:\d+:\d+)", m.group(1)).group(1) if re.match(r"(.*?:\d+:\d+)", m.group(1)) else m.group(1))
    m = re.match(r"^(?:ZeroSized: )?(?:[A-Za-z_][\w]*::)*([A-Za-z_]\w*)(?:::<.*>)?(?: as .*)?$", txt.strip())
    if m:
        return ("fn", m.group(1))
    return None


def termination(MS, E, o, structural):
    """No production can be entered again at the same cursor (no left recursion through any chain of calls, also through
    function-valued parameters, which are resolved per call site), and every round of a list loop consumes a token."""
    prods = productions(MS)
    key = {f.name: (f.name.split("::")[-1] if "{closure" not in f.name else f.name) for f in prods}
    by_name = {key[f.name]: f for f in prods}
    by_loc = {}
    for f in prods:
        if "{closure" in f.name and f.args:
            m = re.search(r"\{closure@([^}]+?:\d+:\d+)", f.args[0][1])
            if m:
                by_loc[m.group(1)] = key[f.name]
    paths = {}
    for f in prods:
        names = ["a%d" % i for i in range(len(f.args))]
        ci = [i for i, (_, t) in enumerate(f.args) if t.strip().endswith("Cursor")][0]
        names[ci] = "s"
        ex = mirlib.executor([MS])
        ex.emulate_result_alternatives = True
        outs = [p for p in ex.run(f, arg_names=names) if p.kind == "return"]
        if ex.unknown:
            o.inconc("termination: %s: untranslatable MIR (%s)" % (f.name, ex.unknown[0][:60]))
        paths[key[f.name]] = (names, outs)
    CUR = ("sym", "s")
    unknown = set()
    nullable = set()          # (production, frozenset of nullable function parameters) that may succeed on nothing
    loops = []

    def resolve(ref, env):
        """-> list of (production name, its parameter environment) a function value stands for; [] for a token parser"""
        if ref is None:
            return None
        if ref[0] == "fn":
            if ref[1] in ("parse_token", "parse_token_with"):
                return []
            return [(ref[1], {})] if ref[1] in by_name else None
        if ref[0] == "closure":
            return [(by_loc[ref[1]], {})] if ref[1] in by_loc else None
        if ref[0] == "param":
            return env.get(ref[1])
        return None

    def is_nullable(targets):
        return bool(targets) and any(walk(t, e)[0] for t, e in targets)

    memo = {}
    stack = []

    def walk(me, env):
        """-> (may succeed without consuming, {productions called at the own cursor})"""
        k = (me, tuple(sorted((a, tuple(sorted(t for t, _ in v))) for a, v in env.items())))
        if k in memo:
            return memo[k]
        if k in stack:
            return (k in nullable, set())
        stack.append(k)
        names, outs = paths[me]
        nul, first = False, set()
        for p in outs:
            calls = [e for e in p.calls() if e[1] not in ("Vec::push", "Context::compose", "Context::compose_node") and e[1] not in READONLY]
            at_own = {CUR}
            for e in calls:
                ca = [a for a in e[2] if a in at_own]
                short = e[1].split("::")[-1]
                if short in ("parse_token", "parse_token_with"):
                    continue
                tg, n2 = None, False
                if short == "memoize":
                    tg = resolve(_fnref(e[2][-1]), env)
                    n2 = is_nullable(tg) if ca else False
                elif short == "repeat":
                    arr = [x for x in ms.subterms(e[2][-1]) if x[0] == "aggr" and x[1] == "array"]
                    elems = [resolve(_fnref(x), env) for x in (arr[0][2] if arr else ())]
                    if not arr or any(x is None for x in elems):
                        unknown.add("%s: repeat over an unknown list of parsers" % me)
                        elems = [x for x in elems if x is not None]
                    tg, pre = [], True
                    for x in elems:
                        if pre:
                            tg += x
                        pre = pre and is_nullable(x)
                    n2 = True
                    loops.append((me, "repeat", any(not is_nullable(x) for x in elems)))
                elif short == "intersperse":
                    pa, inf = resolve(_fnref(e[2][3]), env), resolve(_fnref(e[2][4]), env)
                    if pa is None or inf is None:
                        unknown.add("%s: intersperse over an unknown parser" % me)
                    pa, inf = pa or [], inf or []
                    pn = is_nullable(pa)
                    tg = pa + (inf if pn else [])
                    n2 = pn
                    loops.append((me, "intersperse", (not pn) or not is_nullable(inf)))
                elif short in by_name:
                    g = by_name[short]
                    env2 = {}
                    for i2, a in enumerate(e[2]):
                        if i2 < len(g.args) and ("fn(" in g.args[i2][1] or "ParserFn" in g.args[i2][1]):
                            r = resolve(_fnref(a), env)
                            if r is None:
                                unknown.add("%s: passes an unknown function to %s" % (me, short))
                                r = []
                            env2["a%d" % i2] = r
                    tg = [(short, env2)]
                    n2 = is_nullable(tg) if ca else False
                elif e[1] in names:                           # a call through a function-valued parameter
                    tg = env.get(e[1])
                    if tg is None:
                        unknown.add("%s: calls the parameter %s, which no call site binds" % (me, e[1]))
                        tg = []
                    n2 = is_nullable(tg) if ca else False
                elif ca:
                    unknown.add("%s: %s is given the cursor but is not a known parser" % (me, e[1]))
                    continue
                else:
                    continue
                if ca:
                    for t, e3 in tg or []:
                        first.add(t)
                        first.update(walk(t, e3)[1] if (t, e3) != (me, env) else ())
                    if n2:
                        at_own.update([e[3], _okp(e[3], E), ms.proj(_okp(e[3], E), ("f", 0), E)])
            r = p.ret
            if r[0] == "variant" and r[2] == "Ok":
                pay = r[3][0]
                cur = pay if pay in at_own else (pay[2][0] if pay[0] == "aggr" and pay[1] == "tuple" else ms.proj(pay, ("f", 0), E))
                nul = nul or cur in at_own
            elif r[0] != "variant":
                nul = nul or r in at_own       # the answer of a sub-parser handed on: on nothing iff that sub-parser did
        stack.pop()
        if nul:
            nullable.add(k)
        memo[k] = (nul, first)
        return memo[k]

    reach = {}
    for me in sorted(by_name):
        if any(("fn(" in t or "ParserFn" in t) for _, t in by_name[me].args):
            continue                  # analysed at its call sites, with the functions it is given
        reach[me] = walk(me, {})
    # a second pass after the memo table has settled (recursive productions see their final answers)
    memo.clear()
    del loops[:]
    for me in sorted(reach):
        reach[me] = walk(me, {})
    self_reach = sorted(me for me, (nul, first) in reach.items() if me in first)
    nullable_names = sorted(me for me, (nul, first) in reach.items() if nul)
    o.extra["parser_termination"] = {"productions": len(prods), "may_succeed_without_consuming": nullable_names,
                                     "first_call_edges": sum(len(v[1]) for v in reach.values()), "loops": sorted(set(loops))[:40]}
    for u in sorted(unknown):
        o.inconc("termination: " + u)
    structural("parser: no production can be entered again before a token has been consumed (first-call closure of %d productions, function-valued parameters resolved per call site) - "
               "recursion descends only with progress" % len(prods), not self_reach and sum(len(v[1]) for v in reach.values()) >= 40,
               "parser: %s can be entered again at the same cursor (left recursion)" % self_reach[0] if self_reach else None)
    badloops = [l for l in loops if not l[2]]
    structural("parser: every round of a repeat / intersperse loop consumes at least one token (some element cannot succeed on nothing)", not badloops and len(set(loops)) >= 8,
               "parser: a %s loop in %s can go round without consuming a token" % (badloops[0][1], badloops[0][0]) if badloops else None)
