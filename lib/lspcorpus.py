"""Annotated programs and an oracle for the language server's definition / references / rename
answers (replay oracle for C17 and C18), driven through the real oal-lsp binary."""
import json
import os
import re

import lspdrv
from vcommon import build_cli, run_cli

OAL_TOML = '[api]\nmain = "main.oal"\ntarget = "out.yaml"\n'

# Each occurrence: (file, line, col, name, role, binder-id).  role: decl | use | binder | quse (qualifier use) | qdecl
P1 = {
    "files": {"main.oal": "let a = num;\nlet f x = { 'p x, 'q a };\nlet r = rec t { 'n [t] };\nres / on get -> <f a> :: <r>;\n"},
    "occ": [
        ("main.oal", 0, 4, "a", "decl", "a"), ("main.oal", 1, 4, "f", "decl", "f"), ("main.oal", 1, 6, "x", "binder", "x"),
        ("main.oal", 1, 15, "x", "use", "x"), ("main.oal", 1, 21, "a", "use", "a"), ("main.oal", 2, 4, "r", "decl", "r"),
        ("main.oal", 2, 12, "t", "binder", "t"), ("main.oal", 2, 20, "t", "use", "t"), ("main.oal", 3, 17, "f", "use", "f"),
        ("main.oal", 3, 19, "a", "use", "a"), ("main.oal", 3, 26, "r", "use", "r"),
    ],
    "nonident": [("main.oal", 0, 9), ("main.oal", 3, 0), ("main.oal", 3, 13), ("main.oal", 1, 12)],
}
P2 = {
    "files": {"main.oal": 'use "m.oal" as m;\nlet u = m.t;\nres / on get -> <m.t & u>;\n', "m.oal": "let t = { 'k num };\nlet v = t;\n"},
    "occ": [
        ("main.oal", 0, 15, "m", "qdecl", "m"), ("main.oal", 1, 4, "u", "decl", "u"), ("main.oal", 1, 8, "m", "quse", "m"),
        ("main.oal", 1, 10, "t", "use", "t"), ("main.oal", 2, 17, "m", "quse", "m"), ("main.oal", 2, 19, "t", "use", "t"),
        ("main.oal", 2, 23, "u", "use", "u"), ("m.oal", 0, 4, "t", "decl", "t"), ("m.oal", 1, 4, "v", "decl", "v"), ("m.oal", 1, 8, "t", "use", "t"),
    ],
    "nonident": [("main.oal", 0, 6)],
}
P3 = {   # shadowing: a parameter named like a declaration; a @reference
    "files": {"main.oal": "let x = str;\nlet g x = [x];\nlet @n = { 'v x };\nres / on get -> <g @n>;\n"},
    "occ": [
        ("main.oal", 0, 4, "x", "decl", "x0"), ("main.oal", 1, 4, "g", "decl", "g"), ("main.oal", 1, 6, "x", "binder", "x1"),
        ("main.oal", 1, 11, "x", "use", "x1"), ("main.oal", 2, 4, "@n", "decl", "n"), ("main.oal", 2, 14, "x", "use", "x0"),
        ("main.oal", 3, 17, "g", "use", "g"), ("main.oal", 3, 19, "@n", "use", "n"),
    ],
    "nonident": [],
}
P4 = {   # two sibling modules of the same shape: their declarations sit at the same arena indices
    "files": {"main.oal": 'use "b.oal" as b;\nuse "c.oal" as c;\nlet user = { \'id b.id, \'name b.name };\nlet file = { \'id c.id, \'size c.size };\nres /u on get -> <user>;\nres /f on get -> <file>;\n',
              "b.oal": "let id = num;\nlet name = str;\n", "c.oal": "let id = str;\nlet size = int;\n"},
    "occ": [
        ("main.oal", 0, 15, "b", "qdecl", "qb"), ("main.oal", 1, 15, "c", "qdecl", "qc"),
        ("main.oal", 2, 4, "user", "decl", "user"), ("main.oal", 2, 17, "b", "quse", "qb"), ("main.oal", 2, 19, "id", "use", "b.id"),
        ("main.oal", 2, 29, "b", "quse", "qb"), ("main.oal", 2, 31, "name", "use", "b.name"),
        ("main.oal", 3, 4, "file", "decl", "file"), ("main.oal", 3, 17, "c", "quse", "qc"), ("main.oal", 3, 19, "id", "use", "c.id"),
        ("main.oal", 3, 29, "c", "quse", "qc"), ("main.oal", 3, 31, "size", "use", "c.size"),
        ("main.oal", 4, 18, "user", "use", "user"), ("main.oal", 5, 18, "file", "use", "file"),
        ("b.oal", 0, 4, "id", "decl", "b.id"), ("b.oal", 1, 4, "name", "decl", "b.name"),
        ("c.oal", 0, 4, "id", "decl", "c.id"), ("c.oal", 1, 4, "size", "decl", "c.size"),
    ],
    "nonident": [("main.oal", 2, 13)],
}
P5 = {   # an unqualified import next to a qualified one; a module imported by two modules
    "files": {"main.oal": 'use "t.oal";\nuse "au.oal" as a;\nlet page = { \'first ident, \'items [item] };\nres /items on get -> <page>;\nres /audit on get -> <a.entry>;\n',
              "t.oal": "let ident = num;\nlet item = { 'id ident, 'name str };\n",
              "au.oal": 'use "t.oal" as t;\nlet entry = { \'subject t.ident, \'what str };\n'},
    "occ": [
        ("main.oal", 1, 16, "a", "qdecl", "qa"), ("main.oal", 2, 4, "page", "decl", "page"), ("main.oal", 2, 20, "ident", "use", "t.ident"),
        ("main.oal", 2, 35, "item", "use", "t.item"), ("main.oal", 3, 22, "page", "use", "page"), ("main.oal", 4, 22, "a", "quse", "qa"),
        ("main.oal", 4, 24, "entry", "use", "au.entry"),
        ("t.oal", 0, 4, "ident", "decl", "t.ident"), ("t.oal", 1, 4, "item", "decl", "t.item"), ("t.oal", 1, 17, "ident", "use", "t.ident"),
        ("au.oal", 0, 15, "t", "qdecl", "qt"), ("au.oal", 1, 4, "entry", "decl", "au.entry"), ("au.oal", 1, 23, "t", "quse", "qt"),
        ("au.oal", 1, 25, "ident", "use", "t.ident"),
    ],
    "nonident": [("main.oal", 0, 2), ("t.oal", 1, 13)],
}
P6 = {   # two live local binders of the same name: parameter vs. rec binder, rec inside rec
    "files": {"main.oal": "let tree x = { 'value x, 'kids rec x [{ 'v num, 'kids x }] };\nlet deep = rec y { 'outer y, 'inner rec y [y] };\n"
                          "res / on get -> <tree num> :: <status=404, deep>;\n"},
    "occ": [
        ("main.oal", 0, 4, "tree", "decl", "tree"), ("main.oal", 0, 9, "x", "binder", "xp"), ("main.oal", 0, 22, "x", "use", "xp"),
        ("main.oal", 0, 35, "x", "binder", "xr"), ("main.oal", 0, 54, "x", "use", "xr"),
        ("main.oal", 1, 4, "deep", "decl", "deep"), ("main.oal", 1, 15, "y", "binder", "yo"), ("main.oal", 1, 26, "y", "use", "yo"),
        ("main.oal", 1, 40, "y", "binder", "yi"), ("main.oal", 1, 43, "y", "use", "yi"),
        ("main.oal", 2, 17, "tree", "use", "tree"), ("main.oal", 2, 43, "deep", "use", "deep"),
    ],
    "nonident": [("main.oal", 0, 31)],
}
P7 = {   # modules in sub-directories: an import is relative to the module that contains the `use`
    "files": {"main.oal": 'use "lib/a.oal" as a;\nuse "util.oal" as r;\nres / on get -> <a.w> :: <status=404, r.t>;\n',
              "util.oal": "let t = { 'root str };\n", "lib/a.oal": 'use "util.oal" as u;\nlet w = { \'v u.t };\n', "lib/util.oal": "let t = { 'lib num };\n"},
    "occ": [
        ("main.oal", 0, 19, "a", "qdecl", "qa"), ("main.oal", 1, 18, "r", "qdecl", "qr"),
        ("main.oal", 2, 17, "a", "quse", "qa"), ("main.oal", 2, 19, "w", "use", "a.w"), ("main.oal", 2, 38, "r", "quse", "qr"), ("main.oal", 2, 40, "t", "use", "root.t"),
        ("util.oal", 0, 4, "t", "decl", "root.t"),
        ("lib/a.oal", 0, 18, "u", "qdecl", "qu"), ("lib/a.oal", 1, 4, "w", "decl", "a.w"), ("lib/a.oal", 1, 13, "u", "quse", "qu"), ("lib/a.oal", 1, 15, "t", "use", "lib.t"),
        ("lib/util.oal", 0, 4, "t", "decl", "lib.t"),
    ],
    "nonident": [("lib/a.oal", 1, 10)],
}
P8 = {   # one name, three roles: import qualifier, declaration, parameter - renaming one must not touch the others
    "files": {"main.oal": 'use "lib.oal" as t;\nlet t = { \'id t.ident, \'label t.label };\nlet f t = { \'v t };\nres /things on get -> <t> :: <status=404, f num>;\n',
              "lib.oal": 'let ident = int;\nlet label = str;\n'},
    "occ": [
        ('main.oal', 0, 17, 't', 'qdecl', 'qt'),
        ('main.oal', 1, 4, 't', 'decl', 'dt'),
        ('main.oal', 1, 14, 't', 'quse', 'qt'),
        ('main.oal', 1, 16, 'ident', 'use', 'lib.ident'),
        ('main.oal', 1, 30, 't', 'quse', 'qt'),
        ('main.oal', 1, 32, 'label', 'use', 'lib.label'),
        ('main.oal', 2, 4, 'f', 'decl', 'f'),
        ('main.oal', 2, 6, 't', 'binder', 'pt'),
        ('main.oal', 2, 15, 't', 'use', 'pt'),
        ('main.oal', 3, 23, 't', 'use', 'dt'),
        ('main.oal', 3, 42, 'f', 'use', 'f'),
        ('lib.oal', 0, 4, 'ident', 'decl', 'lib.ident'),
        ('lib.oal', 1, 4, 'label', 'decl', 'lib.label'),
    ],
    "nonident": [("main.oal", 1, 8)],
}
P9 = {   # identifiers that start a line: a range that begins at column 0 must not reach back into the previous line
    "files": {"main.oal": "let item = { 'id num };\nlet cursor = { 'after str };\nlet page = { 'items [item] } &   // one page of items, then where to continue\ncursor;\nres /items on get -> <page> ::\n<status=404,\ncursor>;\n"},
    "occ": [('main.oal', 0, 4, 'item', 'decl', 'item'), ('main.oal', 1, 4, 'cursor', 'decl', 'cursor'), ('main.oal', 2, 4, 'page', 'decl', 'page'), ('main.oal', 2, 21, 'item', 'use', 'item'),
            ('main.oal', 3, 0, 'cursor', 'use', 'cursor'), ('main.oal', 4, 22, 'page', 'use', 'page'), ('main.oal', 6, 0, 'cursor', 'use', 'cursor')],
    "nonident": [("main.oal", 2, 11)],
}
P10 = {   # identifier tokens with nothing between them (application to an @reference written without a space)
    "files": {"main.oal": "let @item = { 'sku str };\nlet @tag = str;\nlet wrap x = [x];\nlet pair a b = { 'a a, 'b b };\nres /w on get -> <wrap@item>;\nres /p on get -> <pair@tag@item>;\n"},
    "occ": [('main.oal', 0, 4, '@item', 'decl', 'item'), ('main.oal', 1, 4, '@tag', 'decl', 'tag'), ('main.oal', 2, 4, 'wrap', 'decl', 'wrap'), ('main.oal', 2, 9, 'x', 'binder', 'wx'), ('main.oal', 2, 14, 'x', 'use', 'wx'),
            ('main.oal', 3, 4, 'pair', 'decl', 'pair'), ('main.oal', 3, 9, 'a', 'binder', 'pa'), ('main.oal', 3, 11, 'b', 'binder', 'pb'), ('main.oal', 3, 20, 'a', 'use', 'pa'), ('main.oal', 3, 26, 'b', 'use', 'pb'),
            ('main.oal', 4, 18, 'wrap', 'use', 'wrap'), ('main.oal', 4, 22, '@item', 'use', 'item'), ('main.oal', 5, 18, 'pair', 'use', 'pair'), ('main.oal', 5, 22, '@tag', 'use', 'tag'), ('main.oal', 5, 26, '@item', 'use', 'item')],
    "nonident": [("main.oal", 4, 17)],
}
P11 = {   # a built-in function among the identifiers
    "files": {"main.oal": "let base = /items;\nlet one = concat base /{ 'id int };\nres base on get -> <[{ 'self one }]>;\nres one on get -> <{ 'name str }>;\n"},
    "occ": [('main.oal', 0, 4, 'base', 'decl', 'base'), ('main.oal', 1, 4, 'one', 'decl', 'one'), ('main.oal', 1, 17, 'base', 'use', 'base'), ('main.oal', 2, 4, 'base', 'use', 'base'),
            ('main.oal', 2, 29, 'one', 'use', 'one'), ('main.oal', 3, 4, 'one', 'use', 'one')],
    "nonident": [("main.oal", 0, 9)],
}
P12 = {   # two parameters of one name: the use denotes the one evaluation binds (the last) - if the program is accepted at all
    "files": {"main.oal": "let f x x = { 'v x };\nres /a on get -> <f num str>;\n"},
    "occ": [('main.oal', 0, 4, 'f', 'decl', 'f'), ('main.oal', 0, 8, 'x', 'binder', 'x2'), ('main.oal', 0, 17, 'x', 'use', 'x2'), ('main.oal', 1, 18, 'f', 'use', 'f')],
    "nonident": [("main.oal", 0, 10)],
    "may_be_rejected": True,
}
P13 = {   # a qualifier spelled like a member of the module it names
    "files": {"main.oal": 'use "item.oal" as item;\nlet a = item.item;\nlet b = item.other;\nres / on get -> <{ \'a a, \'b b }>;\n',
              "item.oal": "let item = { 'i num };\nlet other = str;\n"},
    "occ": [('main.oal', 0, 18, 'item', 'qdecl', 'q'), ('main.oal', 1, 4, 'a', 'decl', 'a'), ('main.oal', 1, 8, 'item', 'quse', 'q'), ('main.oal', 1, 13, 'item', 'use', 'lib.item'),
            ('main.oal', 2, 4, 'b', 'decl', 'b'), ('main.oal', 2, 8, 'item', 'quse', 'q'), ('main.oal', 2, 13, 'other', 'use', 'lib.other'),
            ('main.oal', 3, 22, 'a', 'use', 'a'), ('main.oal', 3, 28, 'b', 'use', 'b'),
            ('item.oal', 0, 4, 'item', 'decl', 'lib.item'), ('item.oal', 1, 4, 'other', 'decl', 'lib.other')],
    "nonident": [("main.oal", 1, 6)],
}
P14 = {   # declarations that span several lines and do not start their line; annotated declarations
    "files": {"main.oal": 'use "lib.oal" as lib;  let people = [\n  lib.person\n];\n    let page = {\n      \'items people,\n      \'next lib.id\n    }; let last = page;\nres /p on get -> <last>;\n',
              "lib.oal": "let id = num; let person = {\n  'id id,\n  'name str\n};\n# description: \"a team\"\nlet team = [\n  person\n];\n"},
    "occ": [('main.oal', 0, 17, 'lib', 'qdecl', 'q'), ('main.oal', 0, 27, 'people', 'decl', 'people'), ('main.oal', 1, 2, 'lib', 'quse', 'q'), ('main.oal', 1, 6, 'person', 'use', 'lib.person'),
            ('main.oal', 3, 8, 'page', 'decl', 'page'), ('main.oal', 4, 13, 'people', 'use', 'people'), ('main.oal', 5, 12, 'lib', 'quse', 'q'), ('main.oal', 5, 16, 'id', 'use', 'lib.id'),
            ('main.oal', 6, 11, 'last', 'decl', 'last'), ('main.oal', 6, 18, 'page', 'use', 'page'), ('main.oal', 7, 18, 'last', 'use', 'last'),
            ('lib.oal', 0, 4, 'id', 'decl', 'lib.id'), ('lib.oal', 0, 18, 'person', 'decl', 'lib.person'), ('lib.oal', 1, 6, 'id', 'use', 'lib.id'),
            ('lib.oal', 5, 4, 'team', 'decl', 'lib.team'), ('lib.oal', 6, 2, 'person', 'use', 'lib.person')],
    "nonident": [("main.oal", 0, 35)],
}
P15 = {   # top-level declarations are in scope throughout their module: uses that stand before the declaration
    "files": {"main.oal": 'use "types.oal" as t;\nres /a on get -> <label & t.base>;\nlet wrap x = { \'w x, \'l label };\nlet label = { \'text str };\nres /b on get -> <wrap label>;\n',
              "types.oal": "let base = { 'id num, 'more later };\nlet later = [str];\n"},
    "occ": [('main.oal', 0, 19, 't', 'qdecl', 'q'), ('main.oal', 1, 18, 'label', 'use', 'label'), ('main.oal', 1, 26, 't', 'quse', 'q'), ('main.oal', 1, 28, 'base', 'use', 'lib.base'),
            ('main.oal', 2, 4, 'wrap', 'decl', 'wrap'), ('main.oal', 2, 9, 'x', 'binder', 'wx'), ('main.oal', 2, 18, 'x', 'use', 'wx'), ('main.oal', 2, 24, 'label', 'use', 'label'),
            ('main.oal', 3, 4, 'label', 'decl', 'label'), ('main.oal', 4, 18, 'wrap', 'use', 'wrap'), ('main.oal', 4, 23, 'label', 'use', 'label'),
            ('types.oal', 0, 4, 'base', 'decl', 'lib.base'), ('types.oal', 0, 28, 'later', 'use', 'lib.later'), ('types.oal', 1, 4, 'later', 'decl', 'lib.later')],
    "nonident": [("main.oal", 1, 24)],
}
P16 = {   # characters of every UTF-8 width on the lines above the cursor (comments, annotations, a path segment); CRLF in the module
    "files": {'main.oal': '// Catalogue d\u2019\u00e9t\u00e9 \u2014 entr\u00e9es du r\u00e9pertoire \U0001F4D6\nuse "lib.oal" as lib;\n/* \u4e2d\u6587 */ let entry = { \'item lib.item, \'n num };\n# description: "d\u00e9j\u00e0 vu \U0001F600"\nlet page = [entry];\nres /\u00e9 on get -> <page> :: <status=404, lib.item>;\n',
              'lib.oal': "// \u00e9l\u00e9ments\r\nlet item = { 'k str }; // \u2014\r\nlet other = item;\r\n"},
    "occ": [('main.oal', 1, 17, 'lib', 'qdecl', 'q'), ('main.oal', 2, 13, 'entry', 'decl', 'entry'), ('main.oal', 2, 29, 'lib', 'quse', 'q'), ('main.oal', 2, 33, 'item', 'use', 'lib.item'),
            ('main.oal', 4, 4, 'page', 'decl', 'page'), ('main.oal', 4, 12, 'entry', 'use', 'entry'), ('main.oal', 5, 18, 'page', 'use', 'page'), ('main.oal', 5, 40, 'lib', 'quse', 'q'),
            ('main.oal', 5, 44, 'item', 'use', 'lib.item'), ('lib.oal', 1, 4, 'item', 'decl', 'lib.item'), ('lib.oal', 2, 4, 'other', 'decl', 'lib.other'), ('lib.oal', 2, 12, 'item', 'use', 'lib.item')],
    "nonident": [("main.oal", 2, 37), ("main.oal", 5, 48)],
}
PROGRAMS = {"wide-characters-above-the-cursor": P16, "uses-before-the-declaration": P15, "declarations-over-several-lines-mid-line": P14, "qualifier-spelled-like-a-member": P13, "two-parameters-of-one-name": P12, "built-in-function-in-use": P11, "adjacent-identifier-tokens": P10, "uses-at-the-start-of-a-line": P9, "one-name-three-roles": P8, "modules-in-sub-directories": P7, "unqualified-import": P5, "nested-same-name-binders": P6, "single-module": P1, "two-modules": P2, "shadowing-and-reference": P3, "sibling-modules-same-shape": P4}


def relname(uri, root):
    """File name of a document relative to the workspace root (modules may live in sub-directories)."""
    p = uri[len("file://"):] if uri.startswith("file://") else uri
    try:
        return os.path.relpath(p, root)
    except ValueError:
        return os.path.basename(p)


def pos(l, c):
    return {"line": l, "character": c}


def contains(rng, l, c):
    s, e = rng["start"], rng["end"]
    return (s["line"], s["character"]) <= (l, c) <= (e["line"], e["character"])


def text_of(files, fn, rng):
    lines = files[fn].split("\n")
    s, e = rng["start"], rng["end"]
    if s["line"] != e["line"]:
        return None
    return lines[s["line"]][s["character"]:e["character"]]


def extent_text(files, fn, rng):
    """The text a (possibly multi-line) range selects in the client's copy of the document; None when the range names a
    position the document does not have (a line past the end, a column past its line's end)."""
    lines = files[fn].split("\n")

    def off(p):
        if p["line"] >= len(lines):
            return None
        line = lines[p["line"]]
        body = line[:-1] if line.endswith("\r") else line
        u16 = sum(2 if ord(ch) > 0xFFFF else 1 for ch in body)
        if p["character"] > u16:
            return None
        return sum(len(x) + 1 for x in lines[:p["line"]]) + lspdrv.utf16_offset_to_index(body, p["character"])
    a, b = off(rng["start"]), off(rng["end"])
    if a is None or b is None or b < a:
        return None
    return files[fn][a:b]


def is_binding_construct(text, name, role):
    """Is `text` the construct that binds `name`: the whole declaration / import statement, or the binder itself."""
    if text is None:
        return False
    if text == name:
        return True
    t = text.strip()
    if role == "qdecl":
        return t.startswith("use") and t.endswith(";") and t.count(";") == 1 and name in t
    # a declaration: from its first token (annotations included) to its terminator, and nothing after it
    body = t
    while body.startswith("#") or body.startswith("`"):
        body = body.split("\n", 1)[1].lstrip() if "\n" in body else ""
    return body.startswith("let") and t.endswith(";") and body.count(";") == 1 and name in body.split("=", 1)[0]


def apply_edits(files, changes, root):
    out = dict(files)
    for uri, edits in (changes or {}).items():
        fn = relname(uri, root)
        lines = out[fn].split("\n")
        for ed in sorted(edits, key=lambda e: (e["range"]["start"]["line"], e["range"]["start"]["character"]), reverse=True):
            s, e = ed["range"]["start"], ed["range"]["end"]
            ln = lines[s["line"]]
            lines[s["line"]] = ln[:s["character"]] + ed["newText"] + ln[e["character"]:]
        out[fn] = "\n".join(lines)
    return out


def run(rdir, want=("definition", "references", "rename")):
    """Returns (problems, detail)."""
    binary = lspdrv.build_lsp()
    cli = build_cli()
    probs, detail = [], {}
    for pname, P in PROGRAMS.items():
        root = os.path.join(rdir, pname)
        os.makedirs(root, exist_ok=True)
        files = dict(P["files"])
        for n, t in list(files.items()) + [("oal.toml", OAL_TOML)]:
            os.makedirs(os.path.dirname(os.path.join(root, n)), exist_ok=True)
            with open(os.path.join(root, n), "w", encoding="utf-8", newline="") as f:
                f.write(t)
        # original and renamed programs are compiled at the same location (implicit component names hash the URL)
        cdir = os.path.join(root, "compile")
        base = run_cli(cli, files, workdir=cdir)
        d = detail.setdefault(pname, {"requests": 0, "silent": []})
        if P.get("may_be_rejected") and base["rc"] != 0:
            d["skipped"] = "not accepted on this tree"
            continue

        def fresh():
            s = lspdrv.Server(binary, root)
            s.initialize()
            for n, t in files.items():
                s.notify("textDocument/didOpen", {"textDocument": {"uri": "file://" + os.path.join(root, n), "languageId": "oal", "version": 1, "text": t}})
            return s

        s = fresh()
        asked = {}

        def req(method, fn, l, c, extra=None):
            nonlocal s
            params = {"textDocument": {"uri": "file://" + os.path.join(root, fn)}, "position": pos(l, c)}
            params.update(extra or {})
            d["requests"] += 1
            r = s.request(method, params, timeout=8)
            if method in ("textDocument/definition", "textDocument/references") and "result" in r:
                asked.setdefault((method, fn, l, c, json.dumps(extra, sort_keys=True)), r.get("result"))
            if "error" in r and "result" not in r:
                d["silent"].append("%s %s:%d:%d" % (method.split("/")[-1], fn, l, c))
                probs.append("%s: the server does not answer %s at %s:%d:%d (%s)" % (pname, method.split("/")[-1], fn, l, c, r.get("error")))
                s.shutdown()
                s = fresh()
                return None
            return r.get("result")

        binders = {}
        for fn, l, c, name, role, bid in P["occ"]:
            if role in ("decl", "binder", "qdecl"):
                binders[bid] = (fn, l, c, name)
        uses = {}
        for fn, l, c, name, role, bid in P["occ"]:
            if role in ("use", "quse"):
                uses.setdefault(bid, []).append((fn, l, c, name))
        for fn, l, c, name, role, bid in P["occ"]:
            # ---- definition
            if "definition" in want and role == "use":
                r = req("textDocument/definition", fn, l, c)
                if r is not None:
                    bfn, bl, bc, _ = binders[bid]
                    ok = isinstance(r, dict) and relname(r.get("uri", ""), root) == bfn and contains(r["range"], bl, bc)
                    if not ok:
                        probs.append("%s: definition of '%s' at %s:%d:%d does not point at its binder %s:%d:%d (got %s)" % (pname, name, fn, l, c, bfn, bl, bc, json.dumps(r)[:120]))
                    else:
                        # ... and the location is the binding construct - all of it and nothing else
                        brole = [o2[4] for o2 in P["occ"] if o2[5] == bid and o2[4] in ("decl", "binder", "qdecl")][0]
                        ext = extent_text(files, bfn, r["range"])
                        if not is_binding_construct(ext, binders[bid][3], brole):
                            probs.append("%s: definition of '%s' at %s:%d:%d answers a range that is not the construct binding it (%s selects %r)" % (
                                pname, name, fn, l, c, json.dumps(r["range"], sort_keys=True), (ext or "")[:60] if ext is not None else None))
            # ---- references
            if "references" in want and role == "decl":
                r = req("textDocument/references", fn, l, c, {"context": {"includeDeclaration": False}})
                if r is not None:
                    got = sorted((relname(x["uri"], root), x["range"]["start"]["line"], x["range"]["start"]["character"]) for x in r)
                    exp = sorted((u[0], u[1], u[2] + (0 if not u[3].startswith("@") else 0)) for u in uses.get(bid, []))
                    if got != exp:
                        probs.append("%s: references of '%s' are %s, expected %s" % (pname, name, got, exp))
                    # inverse: each reference goes back to this declaration
                    for (ufn, ul, uc) in got:
                        if "definition" in want:
                            r2 = req("textDocument/definition", ufn, ul, uc)
                            if r2 is not None and not (isinstance(r2, dict) and relname(r2.get("uri", ""), root) == fn and contains(r2["range"], l, c)):
                                probs.append("%s: reference %s:%d:%d of '%s' does not lead back to it" % (pname, ufn, ul, uc, name))
            # ---- rename
            if "rename" in want:
                pr = req("textDocument/prepareRename", fn, l, c)
                if pr is None:
                    continue
                if pr and role != "binder":
                    new = ("@zz9" if name.startswith("@") else "zz9")
                    r = req("textDocument/rename", fn, l, c, {"newName": new})
                    if r is None:
                        continue
                    ch = (r or {}).get("changes") or {}
                    edits = [(relname(u, root), e) for u, es in ch.items() for e in es]
                    # the name being renamed is the one the server announced in prepareRename
                    oldname = text_of(files, fn, pr) if isinstance(pr, dict) and "start" in pr else name
                    new = ("@zz9" if (oldname or "").startswith("@") else "zz9")
                    if r is not None and any(e["newText"] != new for es in ((r or {}).get("changes") or {}).values() for e in es):
                        r = req("textDocument/rename", fn, l, c, {"newName": new})
                        ch = (r or {}).get("changes") or {}
                        edits = [(relname(u, root), e) for u, es in ch.items() for e in es]
                    bad_text = [e for f2, e in edits if text_of(files, f2, e["range"]) != oldname]
                    if bad_text:
                        probs.append("%s: rename of '%s' at %s:%d:%d edits text that is not the old name: %s" % (pname, name, fn, l, c, [text_of(files, f2, e["range"]) for f2, e in edits][:4]))
                        continue
                    spans = sorted((f2, e["range"]["start"]["line"], e["range"]["start"]["character"], e["range"]["end"]["character"]) for f2, e in edits)
                    if any(a[0] == b[0] and a[1] == b[1] and a[3] > b[2] for a, b in zip(spans, spans[1:])):
                        probs.append("%s: rename of '%s' returns overlapping edits" % (pname, name))
                        continue
                    if oldname == name and isinstance(pr, dict) and "start" in pr and contains(pr, l, c):
                        exp_n = 1 + len(uses.get(bid, []))
                        if len(edits) != exp_n:
                            probs.append("%s: rename of '%s' at %s:%d:%d returns %d edits, expected %d (binder + uses)" % (pname, name, fn, l, c, len(edits), exp_n))
                            continue
                    new_files = apply_edits(files, ch, root)
                    try:
                        os.remove(os.path.join(cdir, "out.yaml"))
                    except OSError:
                        pass
                    after = run_cli(cli, new_files, workdir=cdir)
                    a, b = (base["target"] or ""), (after["target"] or "")
                    if (oldname or "").startswith("@"):
                        o1, n1 = re.escape(oldname[1:]), new[1:]
                        a = re.sub(r"(?<=#/components/schemas/)%s(?=')" % o1, n1, a)
                        a = re.sub(r"(?m)^    %s:$" % o1, "    %s:" % n1, a)
                    if after["rc"] != base["rc"] or a != b:
                        probs.append("%s: after renaming '%s' the program %s" % (pname, name, "is rejected" if after["rc"] != 0 else "compiles to a different document"))
        # ---- every other word of the sources (built-in functions, keywords, property names, ...): whatever the server
        # offers for rename must be renamed without taking the server down, and the result must still mean the same
        if "rename" in want:
            known = {(fn, l, c) for fn, l, c, _, _, _ in P["occ"]}
            for fn, text in files.items():
                for l, line in enumerate(text.split("\n")):
                    for m in re.finditer(r"[@A-Za-z_][A-Za-z0-9_$@-]*", line):
                        c = len(line[:m.start()].encode("utf-16-le")) // 2
                        if (fn, l, c) in known or (m.start() > 0 and line[m.start() - 1] in "'\"`"):
                            continue
                        pr = req("textDocument/prepareRename", fn, l, c)
                        if not (isinstance(pr, dict) and "start" in pr):
                            continue
                        oldname = text_of(files, fn, pr)
                        new = ("@zz8" if (oldname or "").startswith("@") else "zz8")
                        r = req("textDocument/rename", fn, l, c, {"newName": new})
                        if r is None:
                            continue            # already reported: the server did not answer
                        ch = (r or {}).get("changes") or {}
                        edits = [(relname(u, root), e) for u, es in ch.items() for e in es]
                        if any(text_of(files, f2, e["range"]) != oldname for f2, e in edits):
                            probs.append("%s: rename of '%s' at %s:%d:%d edits text that is not the old name" % (pname, oldname, fn, l, c))
                            continue
                        if not edits:
                            continue
                        new_files = apply_edits(files, ch, root)
                        try:
                            os.remove(os.path.join(cdir, "out.yaml"))
                        except OSError:
                            pass
                        after = run_cli(cli, new_files, workdir=cdir)
                        a2, b2 = (base["target"] or ""), (after["target"] or "")
                        if (oldname or "").startswith("@"):
                            o1, n1 = re.escape(oldname[1:]), new[1:]
                            a2 = re.sub(r"(?<=#/components/schemas/)%s(?=')" % o1, n1, a2)
                            a2 = re.sub(r"(?m)^    %s:$" % o1, "    %s:" % n1, a2)
                        if after["rc"] != base["rc"] or a2 != b2:
                            probs.append("%s: after renaming '%s' (offered at %s:%d:%d) the program %s" % (pname, oldname, fn, l, c, "is rejected" if after["rc"] != 0 else "compiles to a different document"))
        for fn, l, c in P.get("nonident", []):
            if "definition" in want:
                r = req("textDocument/definition", fn, l, c)
                if r not in (None, []) and r is not None:
                    probs.append("%s: definition at a non-identifier %s:%d:%d returns %s" % (pname, fn, l, c, json.dumps(r)[:80]))
            if "references" in want:
                r = req("textDocument/references", fn, l, c, {"context": {"includeDeclaration": False}})
                if r not in (None, []):
                    probs.append("%s: references at a non-identifier %s:%d:%d returns %s" % (pname, fn, l, c, json.dumps(r)[:80]))
        s.shutdown()
        # ---- round 13: the same texts reached by another road. Every document is opened with an unsaved line on top, the
        # server is made to evaluate that (one request), and the documents are closed without saving: the current texts are
        # the files on disk again - the texts the answers above were given for - so every answer has to be the same.
        if asked and not d["silent"]:
            s2 = lspdrv.Server(binary, root)
            s2.initialize()
            for n, t in files.items():
                s2.notify("textDocument/didOpen", {"textDocument": {"uri": "file://" + os.path.join(root, n), "languageId": "oal", "version": 1, "text": "// unsaved\n" + t}})
            n0 = sorted(files)[0]
            s2.request("textDocument/definition", {"textDocument": {"uri": "file://" + os.path.join(root, n0)}, "position": pos(0, 0)}, timeout=8)
            for n in files:
                s2.notify("textDocument/didClose", {"textDocument": {"uri": "file://" + os.path.join(root, n)}})
            differ = 0
            for (method, fn, l, c, extra), r1 in asked.items():
                params = {"textDocument": {"uri": "file://" + os.path.join(root, fn)}, "position": pos(l, c)}
                params.update(json.loads(extra) or {})
                d["requests"] += 1
                r2 = s2.request(method, params, timeout=8)
                def canon(x):      # the order of a list of locations is not part of the answer
                    return sorted(json.dumps(y, sort_keys=True) for y in x) if isinstance(x, list) else json.dumps(x, sort_keys=True)
                if "result" not in r2 or canon(r2.get("result")) != canon(r1):
                    differ += 1
                    if differ <= 2:
                        probs.append("%s: %s at %s:%d:%d answers %s after the documents were opened with an unsaved line, evaluated and closed unsaved, "
                                     "but %s for the same texts on a fresh server" % (pname, method.split("/")[-1], fn, l, c, json.dumps(r2.get("result", r2.get("error")))[:100], json.dumps(r1)[:100]))
                    if "result" not in r2:
                        break
            d["reopened_and_closed"] = {"requests": len(asked), "differ": differ}
            s2.shutdown()
    return probs, detail
