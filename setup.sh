#!/bin/sh
# Run once after a fresh restore (offline): warm the third-party build caches under
# /verif/.cache so that the first check does not pay for them. Every check still
# rebuilds everything that depends on /repo's sources from /repo's current tree.
export CARGO_NET_OFFLINE=true GOPROXY=off PIP_NO_INDEX=1
HERE="$(cd "$(dirname "$0")" && pwd)"
mkdir -p "$HERE/.cache/runs" "$HERE/evidence" "$HERE/replays"
exec python3-vt "$HERE/lib/setup.py"
