#![allow(dead_code, unused_imports, unused_variables)]
//! Shadow `oal-model`: real sources, stub `Locator`.

pub mod locator {
    use std::fmt::{Debug, Display, Formatter};

    /// Stub of `oal_model::locator::Locator` (an `Arc<Url>` in the real crate).
    /// Span / position arithmetic never looks inside a locator.
    #[derive(Clone, Copy, PartialEq, Eq, PartialOrd, Ord, Hash, Default)]
    pub struct Locator(pub u8);

    pub struct StubUrl;
    impl StubUrl {
        pub fn as_str(&self) -> &str {
            "file:///main.oal"
        }
    }
    static URL: StubUrl = StubUrl;

    impl Locator {
        pub fn url(&self) -> &StubUrl {
            &URL
        }
    }
    /// Only so that the repository's own `#[test]`s type-check in playback builds.
    impl TryFrom<&str> for Locator {
        type Error = std::convert::Infallible;
        fn try_from(_s: &str) -> Result<Self, Self::Error> {
            Ok(Locator(0))
        }
    }
    impl Debug for Locator {
        fn fmt(&self, _f: &mut Formatter) -> std::fmt::Result {
            Ok(())
        }
    }
    impl Display for Locator {
        fn fmt(&self, _f: &mut Formatter) -> std::fmt::Result {
            Ok(())
        }
    }
}

#[path = "/repo/oal-model/src/span.rs"]
pub mod span;
#[path = "/repo/oal-model/src/lexicon.rs"]
pub mod lexicon;
#[path = "/repo/oal-model/src/grammar.rs"]
pub mod grammar;
