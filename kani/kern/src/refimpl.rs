//! Reference conversions written over *bytes* (lead-byte classes), sharing no code
//! with the `chars()` / `len_utf8()` / `len_utf16()` based implementation, plus the
//! heap-free symbolic text builder used by all text harnesses.

/// Builds a text of `n <= K` arbitrary Unicode scalar values in `buf`.
/// `\r` only occurs directly before `\n` (the property's alphabet has LF and CRLF).
pub fn sym_text<const K: usize, const B: usize>(buf: &mut [u8; B]) -> (&str, usize) {
    let n: usize = kani::any();
    kani::assume(n <= K);
    let mut len = 0usize;
    let mut prev_cr = false;
    let mut i = 0;
    while i < K {
        if i < n {
            let c: char = kani::any();
            if prev_cr {
                kani::assume(c == '\n');
            }
            prev_cr = c == '\r';
            len += c.encode_utf8(&mut buf[len..]).len();
        }
        i += 1;
    }
    kani::assume(!prev_cr);
    (unsafe { std::str::from_utf8_unchecked(&buf[..len]) }, n)
}

/// Same, without the CR restriction (for functions that do not interpret line ends).
pub fn sym_text_any<const K: usize, const B: usize>(buf: &mut [u8; B]) -> (&str, usize) {
    let n: usize = kani::any();
    kani::assume(n <= K);
    let mut len = 0usize;
    let mut i = 0;
    while i < K {
        if i < n {
            let c: char = kani::any();
            len += c.encode_utf8(&mut buf[len..]).len();
        }
        i += 1;
    }
    (unsafe { std::str::from_utf8_unchecked(&buf[..len]) }, n)
}

#[inline]
pub fn is_cont(b: u8) -> bool {
    b & 0xC0 == 0x80
}

/// Is `i` a character boundary of the UTF-8 text `b`?
pub fn is_boundary(b: &[u8], i: usize) -> bool {
    i == b.len() || (i < b.len() && !is_cont(b[i]))
}

/// Does `i` point between a CR and its LF?
pub fn mid_crlf(b: &[u8], i: usize) -> bool {
    i > 0 && i < b.len() && b[i - 1] == b'\r' && b[i] == b'\n'
}

/// Reference (line, UTF-16 column) -> byte offset with LSP clamping.
/// The flag is false when the column falls strictly inside a surrogate pair
/// (protocol-undefined; the returned offset is then the start of that character).
pub fn ref_position_to_offset(b: &[u8], line: u32, ch: u32) -> (usize, bool) {
    let mut l = 0u32;
    let mut col = 0u32;
    let mut i = 0usize;
    while i < b.len() {
        let c = b[i];
        if !is_cont(c) {
            if l == line {
                if c == b'\n' || c == b'\r' {
                    return (i, true);
                }
                if col == ch {
                    return (i, true);
                }
                if c >= 0xF0 {
                    if col + 1 == ch {
                        return (i, false);
                    }
                    col += 2;
                } else {
                    col += 1;
                }
            } else if c == b'\n' {
                l += 1;
            }
        }
        i += 1;
    }
    (b.len(), true)
}

/// Reference byte offset -> (line, UTF-16 column); offsets >= len give the end position.
pub fn ref_offset_to_position(b: &[u8], off: usize) -> (u32, u32) {
    let mut l = 0u32;
    let mut col = 0u32;
    let mut i = 0usize;
    while i < b.len() {
        if i >= off {
            break;
        }
        let c = b[i];
        if !is_cont(c) {
            if c == b'\n' {
                l += 1;
                col = 0;
            } else if c >= 0xF0 {
                col += 2;
            } else {
                col += 1;
            }
        }
        i += 1;
    }
    (l, col)
}

/// Number of scalar values that start before byte offset `off`.
pub fn ref_char_index(b: &[u8], off: usize) -> usize {
    let mut n = 0usize;
    let mut i = 0usize;
    while i < b.len() {
        if i < off && !is_cont(b[i]) {
            n += 1;
        }
        i += 1;
    }
    n
}
