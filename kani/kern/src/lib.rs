#![allow(dead_code, unused_imports, unused_variables)]
//! Kani harnesses over the repository's own leaf kernels.
//!
//! Every `mod` below that carries a `#[path]` attribute (or an `include!`) is the
//! file in /repo, compiled as written (private and `pub(crate)` items included).

#[path = "/repo/oal-client/src/lsp/unicode.rs"]
mod unicode;

#[path = "/repo/oal-syntax/src/errors.rs"]
mod errors;

#[path = "/repo/oal-syntax/src/atom.rs"]
mod atom;

/// The real lexer, textually included so that the harness submodule below can see
/// its private conversion functions (`parse_number`, `parse_quoted_string`,
/// `parse_prefixed_string`, `parse_http_status`) without any hook in /repo.
mod lexer {
    include!("/repo/oal-syntax/src/lexer.rs");

    #[cfg(kani)]
    mod h_lexer;
}

#[cfg(kani)]
mod refimpl;
#[cfg(kani)]
mod h_unicode;
#[cfg(kani)]
mod h_kernels;
