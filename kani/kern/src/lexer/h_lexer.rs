//! C04 kernels: the private token-text conversions of oal-syntax/src/lexer.rs on
//! every string their token regex admits (regexes are compared with the source
//! attributes by the driver at run time).

use super::*;

const MAXD: usize = 24;

/// `parse_number` on 1..=24 ASCII digits ([0-9]+) never panics.
#[kani::proof]
#[kani::unwind(26)]
fn c04_parse_number_total() {
    let n: usize = kani::any();
    kani::assume(n >= 1 && n <= MAXD);
    let mut buf = [b'0'; MAXD];
    let mut i = 0;
    while i < MAXD {
        if i < n {
            let d: u8 = kani::any();
            kani::assume(d >= b'0' && d <= b'9');
            buf[i] = d;
        }
        i += 1;
    }
    let s = unsafe { std::str::from_utf8_unchecked(&buf[..n]) };
    let r = parse_number(s);
    std::mem::forget(r);
    kani::cover!(n == MAXD, "longest literal");
    kani::cover!(n == 20 && buf[0] == b'1' && buf[1] == b'8', "20 digits around u64::MAX");
}

macro_rules! quoted_harness {
    ($name:ident, $k:literal, $b:literal, $unw:literal) => {
        /// `parse_quoted_string` on `q <any text without q> q` (q = '"' or '`')
        /// never panics and returns exactly the inner slice.
        #[kani::proof]
        #[kani::unwind($unw)]
        fn $name() {
            let q: u8 = if kani::any() { b'"' } else { b'`' };
            let mut buf = [0u8; $b];
            buf[0] = q;
            let n: usize = kani::any();
            kani::assume(n <= $k);
            let mut len = 1usize;
            let mut i = 0;
            while i < $k {
                if i < n {
                    let c: char = kani::any();
                    kani::assume(c != q as char);
                    len += c.encode_utf8(&mut buf[len..]).len();
                }
                i += 1;
            }
            buf[len] = q;
            len += 1;
            let s = unsafe { std::str::from_utf8_unchecked(&buf[..len]) };
            let r = parse_quoted_string(s);
            assert!(r.len() == len - 2);
            assert!(r.as_ptr() == s[1..].as_ptr());
            kani::cover!(n == $k && len > $k + 2, "multibyte payload of full length");
            kani::cover!(n == 0, "empty payload");
        }
    };
}
quoted_harness!(c04_parse_quoted_k3, 3, 14, 5);
quoted_harness!(c04_parse_quoted_k6, 6, 26, 8);

macro_rules! prefixed_harness {
    ($name:ident, $k:literal, $b:literal, $unw:literal) => {
        /// `parse_prefixed_string` on `p <any text>` (p one ASCII byte: # / ')
        /// never panics and returns exactly the suffix.
        #[kani::proof]
        #[kani::unwind($unw)]
        fn $name() {
            let p: u8 = kani::any();
            kani::assume(p == b'#' || p == b'/' || p == b'\'');
            let mut buf = [0u8; $b];
            buf[0] = p;
            let n: usize = kani::any();
            kani::assume(n <= $k);
            let mut len = 1usize;
            let mut i = 0;
            while i < $k {
                if i < n {
                    let c: char = kani::any();
                    len += c.encode_utf8(&mut buf[len..]).len();
                }
                i += 1;
            }
            let s = unsafe { std::str::from_utf8_unchecked(&buf[..len]) };
            let r = parse_prefixed_string(s);
            assert!(r.len() == len - 1);
            assert!(r.as_ptr() == s[1..].as_ptr());
            kani::cover!(n == $k && len > $k + 1, "multibyte payload of full length");
        }
    };
}
prefixed_harness!(c04_parse_prefixed_k3, 3, 13, 5);
prefixed_harness!(c04_parse_prefixed_k6, 6, 25, 8);

/// `parse_http_status` on every string matching `[1-5]XX` returns the matching range.
#[kani::proof]
fn c04_parse_http_status_total() {
    let d: u8 = kani::any();
    kani::assume(d >= b'1' && d <= b'5');
    let buf = [d, b'X', b'X'];
    let s = unsafe { std::str::from_utf8_unchecked(&buf) };
    let r = parse_http_status(s);
    let want = match d {
        b'1' => atom::HttpStatusRange::Info,
        b'2' => atom::HttpStatusRange::Success,
        b'3' => atom::HttpStatusRange::Redirect,
        b'4' => atom::HttpStatusRange::ClientError,
        _ => atom::HttpStatusRange::ServerError,
    };
    assert!(r == atom::HttpStatus::Range(want));
    kani::cover!(d == b'5', "server error range");
}
