//! C03 status-domain kernel: `HttpStatus::try_from(u64)` (oal-syntax/src/atom.rs).

use crate::atom::HttpStatus;

/// For every u64: Ok(Code(c)) with c == v iff 100 <= v <= 599, Err otherwise;
/// no panic, and the `unsafe NonZeroU16::new_unchecked` never sees 0.
#[kani::proof]
fn c03_http_status_try_from() {
    let v: u64 = kani::any();
    let r = HttpStatus::try_from(v);
    match r {
        Ok(HttpStatus::Code(c)) => {
            assert!((100..=599).contains(&v));
            assert!(c.get() as u64 == v);
        }
        Ok(HttpStatus::Range(_)) => assert!(false),
        Err(_) => assert!(!(100..=599).contains(&v)),
    }
    kani::cover!(v == 100, "lowest code");
    kani::cover!(v == 599, "highest code");
    kani::cover!(v == 600, "first rejected");
    kani::cover!(v == 99, "last rejected below");
}
