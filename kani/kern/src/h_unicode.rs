//! C16 (and the kernel part of C15): position/offset conversions of
//! /repo/oal-client/src/lsp/unicode.rs and /repo/oal-model/src/span.rs against the
//! byte-level reference, for every text of <= K Unicode scalar values.

use crate::refimpl::*;
use crate::unicode::{position_to_utf8, utf8_range_to_position, utf8_to_position};
use lsp_types::Position;
use oal_model::locator::Locator;
use oal_model::span::{CharSpan, Span};

macro_rules! edit_harness {
    ($k:literal, $b:literal, $unw:literal, $name:ident) => {
        /// C15 kernel: for an edit range (p, q) with p <= q, both protocol-defined
        /// positions, the server's offsets (position_to_utf8 on its copy) are exactly the
        /// client's (reference conversion), ordered, within the text and on character
        /// boundaries - so `replace_range(start..end, ..)` cannot panic and changes the
        /// same bytes the client changed.
        #[kani::proof]
        #[kani::unwind($unw)]
        fn $name() {
            let mut buf = [0u8; $b];
            let (text, n) = sym_text::<$k, $b>(&mut buf);
            let b = text.as_bytes();
            let (pl, pc, ql, qc): (u32, u32, u32, u32) = kani::any();
            kani::assume(pl < ql || (pl == ql && pc <= qc));
            let (cs, xs) = ref_position_to_offset(b, pl, pc);
            let (ce, xe) = ref_position_to_offset(b, ql, qc);
            kani::assume(xs && xe);
            let start = position_to_utf8(text, Position { line: pl, character: pc });
            let end = position_to_utf8(text, Position { line: ql, character: qc });
            assert!(start == cs && end == ce);
            assert!(start <= end && end <= b.len());
            assert!(text.is_char_boundary(start) && text.is_char_boundary(end));
            kani::cover!(n == $k && start > 0 && start < end && end < b.len(), "interior edit");
            kani::cover!(n == $k && ql > pl && end == b.len(), "edit up to the end of the text");
        }
    };
}
edit_harness!(3, 12, 14, c15_edit_offsets_k3);
edit_harness!(4, 16, 18, c15_edit_offsets_k4);
edit_harness!(5, 20, 22, c15_edit_offsets_k5);
edit_harness!(6, 24, 26, c15_edit_offsets_k6);

macro_rules! unicode_harnesses {
    ($k:literal, $b:literal, $unw:literal,
     $h1:ident, $h2:ident, $h3:ident, $h4:ident, $h5:ident, $h6:ident) => {
        /// H1: offset on a char boundary (not between CR and LF) round-trips.
        #[kani::proof]
        #[kani::unwind($unw)]
        fn $h1() {
            let mut buf = [0u8; $b];
            let (text, n) = sym_text::<$k, $b>(&mut buf);
            let b = text.as_bytes();
            let i: usize = kani::any();
            kani::assume(i <= b.len());
            kani::assume(is_boundary(b, i));
            kani::assume(!mid_crlf(b, i));
            let p = utf8_to_position(text, i);
            let j = position_to_utf8(text, p);
            assert!(j == i);
            kani::cover!(n == $k && i == b.len() && b.len() > $k, "full-length multibyte text");
            kani::cover!(i > 0 && i < b.len() && p.line > 0 && p.character > 0, "interior position on a later line");
        }

        /// H2: position -> offset equals the reference for every (line, character).
        #[kani::proof]
        #[kani::unwind($unw)]
        fn $h2() {
            let mut buf = [0u8; $b];
            let (text, n) = sym_text::<$k, $b>(&mut buf);
            let b = text.as_bytes();
            let line: u32 = kani::any();
            let ch: u32 = kani::any();
            let got = position_to_utf8(text, Position { line, character: ch });
            let (want, exact) = ref_position_to_offset(b, line, ch);
            assert!(got <= b.len());
            assert!(is_boundary(b, got));
            if exact {
                assert!(got == want);
            } else {
                // inside a surrogate pair: protocol-undefined; must stay on that line
                assert!(got >= want);
                let (l2, _) = ref_offset_to_position(b, got);
                assert!(l2 == line);
            }
            kani::cover!(exact && got < b.len() && line > 0 && ch > 0, "exact interior");
            kani::cover!(exact && line == 0 && got < b.len() && b[got] == b'\r', "clamped before CRLF");
            kani::cover!(!exact, "inside surrogate pair");
            kani::cover!(n == $k && got == b.len() && line > 1, "past last line");
        }

        /// H3: offset -> position equals the reference on boundaries; >= len gives the end.
        #[kani::proof]
        #[kani::unwind($unw)]
        fn $h3() {
            let mut buf = [0u8; $b];
            let (text, n) = sym_text::<$k, $b>(&mut buf);
            let b = text.as_bytes();
            let i: usize = kani::any();
            kani::assume(i >= b.len() || is_boundary(b, i));
            let p = utf8_to_position(text, i);
            let (l, c) = ref_offset_to_position(b, i);
            assert!(p.line == l && p.character == c);
            if i >= b.len() {
                let e = utf8_to_position(text, b.len());
                assert!(p.line == e.line && p.character == e.character);
            }
            kani::cover!(n == $k && i < b.len() && l > 0 && c > 0, "interior, later line");
            kani::cover!(i > b.len() && l > 0, "past the end");
        }

        /// H4: the range sent for a span selects exactly the span's bytes on the client.
        #[kani::proof]
        #[kani::unwind($unw)]
        fn $h4() {
            let mut buf = [0u8; $b];
            let (text, n) = sym_text::<$k, $b>(&mut buf);
            let b = text.as_bytes();
            let s: usize = kani::any();
            let e: usize = kani::any();
            kani::assume(s <= e && e <= b.len());
            kani::assume(is_boundary(b, s) && is_boundary(b, e));
            kani::assume(!mid_crlf(b, s) && !mid_crlf(b, e));
            let r = utf8_range_to_position(text, s..e);
            let (cs, xs) = ref_position_to_offset(b, r.start.line, r.start.character);
            let (ce, xe) = ref_position_to_offset(b, r.end.line, r.end.character);
            assert!(xs && xe);
            assert!(cs == s && ce == e);
            kani::cover!(n == $k && s > 0 && e > s + 1 && r.end.line > r.start.line, "multi-line span");
        }

        /// H5: CharSpan::from counts scalar values before each end of the span.
        #[kani::proof]
        #[kani::unwind($unw)]
        fn $h5() {
            let mut buf = [0u8; $b];
            let (text, n) = sym_text_any::<$k, $b>(&mut buf);
            let b = text.as_bytes();
            let s: usize = kani::any();
            let e: usize = kani::any();
            let cs = CharSpan::from(text, Span::new(Locator(0), s..e));
            assert!(cs.start == ref_char_index(b, s));
            assert!(cs.end == ref_char_index(b, e));
            assert!(cs.start <= n && cs.end <= n);
            kani::cover!(n == $k && b.len() > $k && s > 0 && s < b.len() && e > b.len(), "multibyte, end past text");
        }

        /// H6: exact positions are monotone: p <= q  =>  off(p) <= off(q) <= len.
        #[kani::proof]
        #[kani::unwind($unw)]
        fn $h6() {
            let mut buf = [0u8; $b];
            let (text, n) = sym_text::<$k, $b>(&mut buf);
            let b = text.as_bytes();
            let (pl, pc, ql, qc): (u32, u32, u32, u32) = kani::any();
            kani::assume(pl < ql || (pl == ql && pc <= qc));
            let (_, xp) = ref_position_to_offset(b, pl, pc);
            let (_, xq) = ref_position_to_offset(b, ql, qc);
            kani::assume(xp && xq);
            let op = position_to_utf8(text, Position { line: pl, character: pc });
            let oq = position_to_utf8(text, Position { line: ql, character: qc });
            assert!(op <= oq && oq <= b.len());
            assert!(is_boundary(b, op) && is_boundary(b, oq));
            kani::cover!(n == $k && op < oq && pl < ql, "strictly increasing across lines");
        }
    };
}

unicode_harnesses!(3, 12, 14, c16_h1_roundtrip_k3, c16_h2_pos2off_k3, c16_h3_off2pos_k3, c16_h4_range_k3, c16_h5_charspan_k3, c16_h6_monotone_k3);
unicode_harnesses!(4, 16, 18, c16_h1_roundtrip_k4, c16_h2_pos2off_k4, c16_h3_off2pos_k4, c16_h4_range_k4, c16_h5_charspan_k4, c16_h6_monotone_k4);
unicode_harnesses!(5, 20, 22, c16_h1_roundtrip_k5, c16_h2_pos2off_k5, c16_h3_off2pos_k5, c16_h4_range_k5, c16_h5_charspan_k5, c16_h6_monotone_k5);
unicode_harnesses!(6, 24, 26, c16_h1_roundtrip_k6, c16_h2_pos2off_k6, c16_h3_off2pos_k6, c16_h4_range_k6, c16_h5_charspan_k6, c16_h6_monotone_k6);
